use crate::{Act, MessageState, Vars, Workflow, scheduler::tests::create_proc_signal2, utils};
use serde_json::json;
use std::sync::{Arc, Mutex};
use std::time::Duration;

async fn run(action: &'static str, in_block: bool) -> (Vec<String>, Vec<String>) {
    let workflow = Workflow::new().with_id("w1").with_step(move |step| {
        let irq = Act::irq(|act| act.with_key("act1")).with_id("act1");
        step.with_id("step1").with_act(irq)
    });
    let workflow2 = Workflow::new().with_id("w1").with_step(|step| {
        step.with_id("step1").with_act(
            Act::sequence(json!({
                "in": ["u1"],
                "acts": vec![Act::irq(|act| act.with_key("act1"))]
            }))
            .with_id("seq1"),
        )
    });
    let workflow = if in_block { workflow2 } else { workflow };
    let (engine, proc, tx, _) = create_proc_signal2::<()>(&workflow, &utils::longid());
    let ended = Arc::new(Mutex::new(Vec::<String>::new()));
    let emitter = engine.channel();
    let e2 = ended.clone();
    emitter.on_complete(move |e| e2.lock().unwrap().push(format!("{}", e.state)));
    let exec = engine.executor().clone();
    emitter.on_message(move |e| {
        if e.is_key("act1") && e.is_state(MessageState::Created) {
            let r = match action {
                "submit" => exec.act().submit(&e.pid, &e.tid, &Vars::new()),
                "remove" => exec.act().remove(&e.pid, &e.tid, &Vars::new()),
                _ => exec.act().complete(&e.pid, &e.tid, &Vars::new()),
            };
            println!("{action}: {r:?}");
        }
    });
    engine.runtime().launch(&proc);
    let _ = tokio::time::timeout(Duration::from_secs(2), tx.recv()).await;
    tokio::time::sleep(Duration::from_millis(200)).await;
    let open = proc
        .tasks()
        .iter()
        .filter(|t| !t.state().is_completed())
        .map(|t| format!("{}({})", t.node().id(), t.state()))
        .collect::<Vec<_>>();
    let ended = ended.lock().unwrap().clone();
    println!("{action} in_block={in_block}: ended={ended:?} open={open:?}");
    (ended, open)
}

#[tokio::test]
async fn sch_submit_under_step_finishes() {
    let (ended, open) = run("submit", false).await;
    assert_eq!(ended, vec!["completed".to_string()], "{open:?}");
}

#[tokio::test]
async fn sch_submit_under_sequence_finishes() {
    let (ended, open) = run("submit", true).await;
    assert_eq!(ended, vec!["completed".to_string()], "{open:?}");
}

#[tokio::test]
async fn sch_remove_under_sequence_finishes() {
    let (ended, open) = run("remove", true).await;
    assert_eq!(ended, vec!["completed".to_string()], "{open:?}");
}

#[tokio::test]
async fn sch_complete_under_sequence_finishes() {
    let (ended, open) = run("complete", true).await;
    assert_eq!(ended, vec!["completed".to_string()], "{open:?}");
}
