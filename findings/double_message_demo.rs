// Triage demonstrations for C08 / C03 (append to acts/src/scheduler/tests/step/catch.rs of a scratch copy and run
//   cargo nextest run -p acts --offline -E 'test(triage_)' ).
//
// 1. triage_step_catch_empty_messages: a step whose catch has no steps. On the tree before 8e71a66 the client receives
//    `step:step1:Completed` twice (the on_task handler built its message after the hooks, from the state the task had by
//    then; the catch's review had already reported the completion from inside). Fixed by 8e71a66: passes.
// 2. triage_else_first_messages: an else branch WITHOUT steps declared BEFORE the branch whose condition fails. The step
//    is reviewed when b1 is skipped; Step::review resumes b_else inline; b_else finishes inside that exec, its ending
//    reviews step1 (nested), completes and emits it; back in the outer <Arc<Task>>::review the state differs from the
//    one read before and step1 is emitted again: `step:step1:Completed` twice (observed on 8e71a66: FAILS, the known
//    finding C03.R5 / C08.R5 double-emit-reentrant). With the else branch declared last there is no duplicate.
// 3. triage_block_catch_empty_child_error_messages: no duplicate (and shows that Act::review's `ctx.emit_error()` on a
//    revived composite act does not fail the act again).

#[tokio::test]
async fn triage_step_catch_empty_messages() {
    let mut workflow = Workflow::new().with_step(|step| {
        step.with_id("step1")
            .with_catch(|c| c)
            .with_act(Act::irq(|act| act.with_key("act1")))
    });
    let (proc, scher, emitter, tx, _) = create_proc_signal::<()>(&mut workflow, &utils::longid());
    let log = std::sync::Arc::new(std::sync::Mutex::new(Vec::<String>::new()));
    let s = scher.clone();
    let l = log.clone();
    emitter.on_message(move |e| {
        l.lock().unwrap().push(format!("{}:{}:{:?}", e.r#type, e.key, e.state));
        if e.is_key("act1") && e.is_state(MessageState::Created) {
            let mut options = Vars::new();
            options.set(consts::ACT_ERR_CODE, "err1");
            let action = Action::new(&e.pid, &e.tid, EventAction::Error, &options);
            s.do_action(&action).unwrap();
        }
    });
    scher.launch(&proc);
    tx.recv().await;
    tokio::time::sleep(std::time::Duration::from_millis(300)).await;
    let msgs = log.lock().unwrap().clone();
    println!("MSGS {:#?}", msgs);
    let n = msgs.iter().filter(|m| m.starts_with("step:step1:Completed")).count();
    assert_eq!(n, 1, "step1 completed messages: {:?}", msgs);
}

#[tokio::test]
async fn triage_else_first_messages() {
    for else_first in [true, false] {
        let workflow = Workflow::new().with_id("m1").with_input("v", 1.into());
        let mut workflow = if else_first {
            workflow.with_step(|step| {
                step.with_id("step1")
                    .with_branch(|b| b.with_id("b_else").with_else(true))
                    .with_branch(|b| b.with_id("b1").with_if("v < 0").with_step(|step| step.with_id("step11")))
            })
        } else {
            workflow.with_step(|step| {
                step.with_id("step1")
                    .with_branch(|b| b.with_id("b1").with_if("v < 0").with_step(|step| step.with_id("step11")))
                    .with_branch(|b| b.with_id("b_else").with_else(true))
            })
        }
        .with_step(|step| step.with_id("step2").with_act(Act::msg(|act| act.with_id("msg2").with_key("msg2"))));
        let (proc, scher, emitter, tx, _) = create_proc_signal::<()>(&mut workflow, &utils::longid());
        let log = std::sync::Arc::new(std::sync::Mutex::new(Vec::<String>::new()));
        let l = log.clone();
        emitter.on_message(move |e| {
            l.lock().unwrap().push(format!("{}:{}:{:?}", e.r#type, e.key, e.state));
        });
        scher.launch(&proc);
        tx.recv().await;
        tokio::time::sleep(std::time::Duration::from_millis(300)).await;
        let msgs = log.lock().unwrap().clone();
        println!("MSGS else_first={} {:#?}", else_first, msgs);
        let mut seen = std::collections::HashMap::new();
        for m in &msgs { *seen.entry(m.clone()).or_insert(0) += 1; }
        let dups: Vec<_> = seen.iter().filter(|(_, n)| **n > 1).collect();
        assert!(dups.is_empty(), "duplicates else_first={}: {:?}", else_first, dups);
    }
}

#[tokio::test]
async fn triage_block_catch_empty_child_error_messages() {
    use crate::package::RunningMode;
    let mut workflow = Workflow::new().with_step(|step| {
        step.with_id("step1").with_act(
            Act::block(
                Vars::new()
                    .with("mode", RunningMode::Parallel)
                    .with("acts", vec![Act::irq(|act| act.with_key("act1"))]),
            )
            .with_id("blk")
            .with_key("blk")
            .with_catch(|c| c),
        )
    });
    let (proc, scher, emitter, tx, _) = create_proc_signal::<()>(&mut workflow, &utils::longid());
    let log = std::sync::Arc::new(std::sync::Mutex::new(Vec::<String>::new()));
    let s = scher.clone();
    let l = log.clone();
    emitter.on_message(move |e| {
        l.lock().unwrap().push(format!("{}:{}:{}:{:?}", e.r#type, e.nid, e.key, e.state));
        if e.is_key("act1") && e.is_state(MessageState::Created) {
            let mut options = Vars::new();
            options.set(consts::ACT_ERR_CODE, "err1");
            let action = Action::new(&e.pid, &e.tid, EventAction::Error, &options);
            s.do_action(&action).unwrap();
        }
    });
    scher.launch(&proc);
    let _ = tokio::time::timeout(std::time::Duration::from_secs(3), tx.recv()).await;
    tokio::time::sleep(std::time::Duration::from_millis(300)).await;
    let msgs = log.lock().unwrap().clone();
    println!("MSGS {:#?}", msgs);
    let mut seen = std::collections::HashMap::new();
    for m in &msgs { *seen.entry(m.clone()).or_insert(0) += 1; }
    let dups: Vec<_> = seen.iter().filter(|(_, n)| **n > 1).collect();
    assert!(dups.is_empty(), "duplicates: {:?}", dups);
}
