use crate::event::EventAction;
use crate::{
    Act, MessageState, TaskState, Vars, Workflow,
    utils::{self, test::create_proc_signal},
};
use std::sync::{Arc, Mutex};
use std::time::Duration;

/// step1 holds one branch whose only step waits on an interrupt.
/// The client first sends the process back to the enclosing step (`back` with to = step1),
/// then answers every interrupt it is shown with `complete`.
/// The process has to deliver its terminal event.
#[tokio::test]
async fn sch_back_to_enclosing_step_then_complete_finishes() {
    let mut workflow = Workflow::new().with_id("m1").with_step(|step| {
        step.with_id("step1").with_branch(|b| {
            b.with_id("b1").with_if("true").with_step(|step| {
                step.with_id("step11")
                    .with_act(Act::irq(|act| act.with_key("act1")))
            })
        })
    });

    workflow.print();
    let (proc, rt, emitter, tx, _) = create_proc_signal::<()>(&mut workflow, &utils::longid());
    let seen = Arc::new(Mutex::new(0));
    let answers = Arc::new(Mutex::new(Vec::new()));
    let a2 = answers.clone();
    emitter.on_message(move |e| {
        if e.is_key("act1") && e.is_state(MessageState::Created) {
            let mut seen = seen.lock().unwrap();
            *seen += 1;
            if *seen == 1 {
                // the first time: go back to the step that holds the branch
                let options = Vars::new().with("to", "step1");
                let ret = e.do_action(&e.pid, &e.tid, EventAction::Back, &options);
                a2.lock().unwrap().push(("back", ret.is_ok()));
            } else {
                // from then on every interrupt is answered with complete
                let ret = e.do_action(&e.pid, &e.tid, EventAction::Next, &Vars::new());
                a2.lock().unwrap().push(("complete", ret.is_ok()));
            }
        }
    });

    rt.launch(&proc);
    let finished = tokio::time::timeout(Duration::from_secs(5), tx.recv())
        .await
        .is_ok();
    proc.print();

    // both client answers were accepted
    assert_eq!(
        *answers.lock().unwrap(),
        vec![("back", true), ("complete", true)]
    );

    // nothing is left for a client to answer ..
    let open = proc
        .tasks()
        .iter()
        .filter(|t| t.state() == TaskState::Interrupt)
        .count();
    assert_eq!(open, 0);

    // .. so the process must have finished and said so
    assert!(
        finished,
        "no terminal event: proc state = {}, open interrupts = {}",
        proc.state(),
        open
    );
    assert_eq!(proc.state(), TaskState::Completed);

    // and nothing beneath the completed workflow is still running
    let open = proc
        .tasks()
        .iter()
        .filter(|t| !t.state().is_completed())
        .map(|t| format!("{}({})", t.node().id(), t.state()))
        .collect::<Vec<_>>();
    assert!(open.is_empty(), "left open beneath a completed workflow: {open:?}");
}

/// the same walk with a second branch next to the one that is sent back
#[tokio::test]
async fn sch_back_to_enclosing_step_with_else_branch_finishes() {
    let mut workflow = Workflow::new().with_id("m2").with_step(|step| {
        step.with_id("step1")
            .with_branch(|b| {
                b.with_id("b1").with_if("true").with_step(|step| {
                    step.with_id("step11")
                        .with_act(Act::irq(|act| act.with_key("act1")))
                })
            })
            .with_branch(|b| {
                b.with_id("b2")
                    .with_else(true)
                    .with_step(|step| step.with_id("step21"))
            })
    });

    let (proc, rt, emitter, tx, _) = create_proc_signal::<()>(&mut workflow, &utils::longid());
    let seen = Arc::new(Mutex::new(0));
    emitter.on_message(move |e| {
        if e.is_key("act1") && e.is_state(MessageState::Created) {
            let mut seen = seen.lock().unwrap();
            *seen += 1;
            if *seen == 1 {
                let options = Vars::new().with("to", "step1");
                e.do_action(&e.pid, &e.tid, EventAction::Back, &options)
                    .unwrap();
            } else {
                e.do_action(&e.pid, &e.tid, EventAction::Next, &Vars::new())
                    .unwrap();
            }
        }
    });

    rt.launch(&proc);
    let finished = tokio::time::timeout(Duration::from_secs(5), tx.recv())
        .await
        .is_ok();
    proc.print();

    let open = proc
        .tasks()
        .iter()
        .filter(|t| t.state() == TaskState::Interrupt)
        .count();
    assert_eq!(open, 0);
    assert!(
        finished,
        "no terminal event: proc state = {}, open interrupts = {}",
        proc.state(),
        open
    );
    assert_eq!(proc.state(), TaskState::Completed);
}
