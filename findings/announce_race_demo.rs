//! Restart transparency on the SQLite store.
//!
//! The same workflow and the same client actions are run twice:
//!   run A: one engine, never interrupted
//!   run B: the engine is closed at a quiescent point (the first irq is waiting for the client)
//!          and a new engine is started on the same database file
//! Both runs must produce the same further messages and the same terminal event.

use acts::{Act, Engine, EngineBuilder, Vars, Workflow};
use acts_store_sqlite::SqliteStore;
use std::{
    path::PathBuf,
    sync::{Arc, Mutex},
    time::Duration,
};
use tokio::sync::mpsc::{UnboundedReceiver, UnboundedSender, unbounded_channel};

#[derive(Debug, Clone)]
enum Ev {
    /// (type, key-or-nid, state, tid)
    Msg(String, String, String, String),
    Complete,
    Error,
}

fn workflow() -> Workflow {
    Workflow::new()
        .with_id("restart_hooks")
        .with_step(|step| {
            step.with_id("step1")
                .with_catch(|c| {
                    c.with_on("err1").with_step(|step| {
                        step.with_id("fix")
                            .with_act(Act::irq(|act| act.with_key("fix_act")))
                    })
                })
                .with_act(Act::irq(|act| act.with_key("act1")))
        })
        .with_step(|step| {
            step.with_id("step2")
                .with_act(Act::msg(|msg| msg.with_key("tail")))
        })
}

async fn build_engine(dir: &PathBuf) -> Engine {
    let conf = dir.join("acts.toml");
    let db = dir.join("data").join("restart.db");
    std::fs::write(
        &conf,
        format!(
            "tick_interval_secs = 3600\n[sqlite]\ndatabase_url = \"sqlite://{}\"\n",
            db.display()
        ),
    )
    .unwrap();
    EngineBuilder::new()
        .set_config_source(&conf)
        .add_plugin(&SqliteStore)
        .build()
        .await
        .unwrap()
        .start()
}

fn listen(engine: &Engine, tx: &UnboundedSender<Ev>) {
    let chan = engine.channel();
    let t = tx.clone();
    chan.on_message(move |e| {
        let key = if e.key.is_empty() {
            e.nid.clone()
        } else {
            e.key.clone()
        };
        let _ = t.send(Ev::Msg(
            e.r#type.clone(),
            key,
            e.state.to_string(),
            e.tid.clone(),
        ));
    });
    let t = tx.clone();
    chan.on_complete(move |_| {
        let _ = t.send(Ev::Complete);
    });
    let t = tx.clone();
    chan.on_error(move |_| {
        let _ = t.send(Ev::Error);
    });
}

/// waits until `pred` matches an event; everything seen on the way is appended to the log
async fn wait_for(
    rx: &mut UnboundedReceiver<Ev>,
    log: &Arc<Mutex<Vec<String>>>,
    pred: impl Fn(&Ev) -> bool,
) -> Option<Ev> {
    loop {
        let ev = tokio::time::timeout(Duration::from_secs(5), rx.recv())
            .await
            .ok()
            .flatten()?;
        log.lock().unwrap().push(describe(&ev));
        // the workflow has ended: stop waiting
        let ended = matches!(ev, Ev::Complete | Ev::Error);
        if pred(&ev) {
            return Some(ev);
        }
        if ended {
            return None;
        }
    }
}

fn describe(ev: &Ev) -> String {
    match ev {
        Ev::Msg(t, k, s, _) => format!("{t}:{k}:{s}"),
        Ev::Complete => "<complete>".to_string(),
        Ev::Error => "<error>".to_string(),
    }
}

fn is_created(ev: &Ev, k: &str) -> bool {
    matches!(ev, Ev::Msg(_, key, state, _) if key == k && state == "created")
}

async fn run(name: &str, restart: bool) -> Vec<String> {
    let dir = std::env::temp_dir().join(format!("acts_c12b_{}_{}", name, std::process::id()));
    let _ = std::fs::remove_dir_all(&dir);
    std::fs::create_dir_all(&dir).unwrap();

    let log = Arc::new(Mutex::new(Vec::new()));
    let (tx, mut rx) = unbounded_channel::<Ev>();

    let mut engine = build_engine(&dir).await;
    listen(&engine, &tx);
    engine.executor().model().deploy(&workflow()).unwrap();
    let pid = engine
        .executor()
        .proc()
        .start("restart_hooks", &Vars::new())
        .unwrap();

    // the first quiescent point: act1 is waiting for the client
    let ev = wait_for(&mut rx, &log, |ev| is_created(ev, "act1"))
        .await
        .expect("act1 is created");
    let Ev::Msg(_, _, _, act1_tid) = ev else {
        unreachable!()
    };
    tokio::time::sleep(Duration::from_millis(300)).await;
    // only what happens after the restart point is compared
    log.lock().unwrap().clear();

    if restart {
        engine.close();
        drop(engine);
        tokio::time::sleep(Duration::from_millis(300)).await;
        while rx.try_recv().is_ok() {}
        engine = build_engine(&dir).await;
        listen(&engine, &tx);
    }

    // client action 1: act1 fails with 'err1', which step1 catches
    let mut options = Vars::new();
    options.set("ecode", "err1");
    engine
        .executor()
        .act()
        .error(&pid, &act1_tid, &options)
        .unwrap();

    if let Some(Ev::Msg(_, _, _, fix_tid)) =
        wait_for(&mut rx, &log, |ev| is_created(ev, "fix_act")).await
    {
        // client action 2: the catch handler's act is completed
        engine
            .executor()
            .act()
            .complete(&pid, &fix_tid, &Vars::new())
            .unwrap();
        wait_for(&mut rx, &log, |ev| matches!(ev, Ev::Complete | Ev::Error)).await;
    }

    // messages are delivered asynchronously: collect the ones that trail the terminal event
    tokio::time::sleep(Duration::from_millis(500)).await;
    while let Ok(ev) = rx.try_recv() {
        log.lock().unwrap().push(describe(&ev));
    }

    engine.close();
    let _ = std::fs::remove_dir_all(&dir);
    let ret = log.lock().unwrap().clone();
    println!("run {name}: {ret:#?}");
    ret
}

#[tokio::test(flavor = "multi_thread", worker_threads = 4)]
async fn restart_is_transparent_for_hooks() {
    let mut a = run("a", false).await;
    let mut b = run("b", true).await;

    assert!(
        a.iter().any(|s| s == "<complete>"),
        "the uninterrupted run catches err1 and completes"
    );

    // messages of sibling tasks are emitted concurrently, and the engine now and then emits the
    // completion of an act twice (with or without a restart): compare the runs as sets
    a.sort();
    b.sort();
    for w in a.windows(2) { if w[0] == w[1] { eprintln!("RESULT dup in A: {}", w[0]); } }
    for w in b.windows(2) { if w[0] == w[1] { eprintln!("RESULT dup in B: {}", w[0]); } }
    let (la, lb) = (a.len(), b.len());
    a.dedup();
    b.dedup();
    eprintln!("RESULT lens a={la}->{} b={lb}->{}", a.len(), b.len());
    assert_eq!(
        a, b,
        "the restarted run must continue exactly like the uninterrupted one"
    );
}
