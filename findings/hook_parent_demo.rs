//! a lifecycle-hook act can be open beneath a task that has already ended (an `on: completed` irq): abort / error / back on
//! it climb to that parent and overwrite its terminal state
use crate::{
    Act, MessageState, StmtBuild, TaskState, Vars, Workflow,
    scheduler::tests::create_proc_signal2,
    utils,
};
use std::sync::{Arc, Mutex};
use std::time::Duration;

fn model() -> Workflow {
    Workflow::new()
        .with_id("w1")
        .with_step(|step| {
            step.with_id("step1").with_setup(|s| {
                s.add(
                    Act::irq(|act| act.with_key("hook1"))
                        .with_id("hook1")
                        .with_on(crate::ActEvent::Completed),
                )
            })
        })
        .with_step(|step| {
            step.with_id("step2")
                .with_act(Act::irq(|act| act.with_key("act2")).with_id("act2"))
        })
}

async fn run(action: &'static str) -> Vec<String> {
    let workflow = model();
    let (engine, proc, tx, _) = create_proc_signal2::<()>(&workflow, &utils::longid());
    let states = Arc::new(Mutex::new(Vec::<String>::new()));
    let emitter = engine.channel();
    let s2 = states.clone();
    let p = proc.clone();
    let seen = Arc::new(Mutex::new((None::<(String, String)>, false)));
    let exec = engine.executor().clone();
    emitter.on_message(move |e| {
        if e.is_key("step1") || e.r#type == "step" && e.nid == "step1" {
            s2.lock().unwrap().push(format!("step1:{}", e.state));
        }
        let mut seen = seen.lock().unwrap();
        if e.is_key("hook1") && e.is_state(MessageState::Created) {
            seen.0 = Some((e.pid.clone(), e.tid.clone()));
        }
        if e.is_key("act2") && e.is_state(MessageState::Created) {
            seen.1 = true;
        }
        if let (Some((pid, tid)), true) = (seen.0.clone(), seen.1) {
            seen.1 = false;
            let before = p.task_by_nid("step1").first().map(|t| t.state());
            let ret = match action {
                "abort" => exec.act().abort(&pid, &tid, &Vars::new()),
                "error" => exec.act().error(
                    &pid,
                    &tid,
                    &Vars::new().with("ecode", "e1").with("message", "boom"),
                ),
                _ => unreachable!(),
            };
            println!("{action} on hook1: {ret:?}; step1 before = {before:?}");
        }
    });
    engine.runtime().launch(&proc);
    let _ = tokio::time::timeout(Duration::from_secs(2), tx.recv()).await;
    tokio::time::sleep(Duration::from_millis(200)).await;
    let step1 = proc.task_by_nid("step1").first().map(|t| t.state());
    let out = states.lock().unwrap().clone();
    println!("step1 messages = {out:?}, step1 now = {step1:?}, root = {}", proc.state());
    assert_eq!(
        step1,
        Some(TaskState::Completed),
        "step1 was reported completed and must stay so; messages {out:?}"
    );
    out
}

#[tokio::test]
async fn sch_hook_parent_abort_keeps_finished_step() {
    run("abort").await;
}

#[tokio::test]
async fn sch_hook_parent_error_keeps_finished_step() {
    run("error").await;
}
