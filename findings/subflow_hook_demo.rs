use crate::{
    Act, Executor, MessageState, StmtBuild, Workflow,
    scheduler::TaskState,
    utils::{self, test::create_proc_signal},
};
use serde_json::json;
use std::time::Duration;

/// a subflow act with a created-hook msg: the hook ends at once; the calling act must stay open until the sub workflow returns
#[tokio::test]
async fn pack_subflow_hook_does_not_complete_the_calling_act() {
    let mut main = Workflow::new().with_id("main").with_step(|step| {
        step.with_id("step1").with_act(
            Act::subflow(json!({ "to": "w2" }))
                .with_id("call1")
                .with_setup(|s| {
                    s.add(Act::msg(|m| m.with_key("hookmsg")).with_on(crate::ActEvent::Created))
                }),
        )
    });
    let w2 = Workflow::new().with_id("w2").with_step(|step| {
        step.with_id("s1")
            .with_act(Act::irq(|act| act.with_key("inner")).with_id("inner"))
    });
    let (proc, scher, emitter, tx, rx) = create_proc_signal::<Vec<String>>(&mut main, &utils::longid());
    Executor::new(&scher).model().deploy(&w2).unwrap();
    let p = proc.clone();
    emitter.on_message(move |e| {
        if e.is_key("inner") && e.is_state(MessageState::Created) {
            // the sub workflow waits for its irq: the calling act and the main workflow are still open
            std::thread::sleep(Duration::from_millis(200));
            let call1 = p.task_by_nid("call1").first().map(|t| t.state());
            rx.update(|data| data.push(format!("call1={call1:?} main={}", p.state())));
            rx.close();
        }
    });
    scher.launch(&proc);
    let ret = tx.recv().await;
    proc.print();
    println!("{ret:?}");
    let call1 = proc.task_by_nid("call1").first().map(|t| t.state());
    assert_eq!(call1, Some(TaskState::Running), "{ret:?}");
    assert!(proc.state().is_running(), "{ret:?}");
}
