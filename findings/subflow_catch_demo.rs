use crate::event::EventAction;
use crate::{
    Act, Executor, ExecutorQuery, MessageState, Vars, Workflow,
    scheduler::{Process, Runtime},
    utils::{self, consts, test::create_proc_signal},
};
use serde_json::json;
use std::sync::{
    Arc,
    atomic::{AtomicBool, Ordering},
};
use std::time::Duration;

/// what a client can see once the engine has gone quiet
fn report(rt: &Arc<Runtime>, main: &Arc<Process>) -> (usize, String) {
    let exec = Executor::new(rt);
    let open_irqs = exec
        .task()
        .list(
            &ExecutorQuery::new()
                .with_query("state", "interrupted")
                .with_count(100),
        )
        .map(|page| page.rows.len())
        .unwrap_or(0);

    let mut text = String::new();
    if let Ok(procs) = exec.proc().list(&ExecutorQuery::new().with_count(100)) {
        for p in procs.rows {
            text.push_str(&format!("proc mid={} state={}\n", p.mid, p.state));
        }
    }
    for t in main.tasks() {
        text.push_str(&format!(
            "main task kind={} nid={} state={}\n",
            t.node().kind(),
            t.node().id(),
            t.state()
        ));
    }
    (open_irqs, text)
}

/// the sub-process fails, the calling act catches the failure (a catch without steps ignores it),
/// the main workflow goes on with its next step and finishes once that step is answered
#[tokio::test]
async fn pack_subflow_catch_sub_error_then_goes_on() {
    let mut main = Workflow::new()
        .with_id("main")
        .with_step(|step| {
            step.with_id("step1").with_act(
                Act::subflow(json!({
                    "to": "w2",
                }))
                .with_id("call1")
                .with_catch(|c| c),
            )
        })
        .with_step(|step| {
            step.with_id("step2")
                .with_act(Act::irq(|act| act.with_key("act2")).with_id("act2"))
        });

    let w2 = Workflow::new().with_id("w2").with_step(|step| {
        step.with_id("s1")
            .with_act(Act::irq(|act| act.with_key("act1")).with_id("act1"))
    });

    main.print();
    let main_pid = utils::longid();
    let (proc, scher, emitter, tx, rx) = create_proc_signal::<()>(&mut main, &main_pid);
    Executor::new(&scher).model().deploy(&w2).unwrap();

    let sub_ended = Arc::new(AtomicBool::new(false));
    let sub_ended2 = sub_ended.clone();
    let (rx1, rx2) = rx.double();
    emitter.on_complete(move |e| {
        if e.model.id == "main" {
            rx1.close();
        }
    });
    emitter.on_error(move |e| {
        if e.model.id == "main" {
            rx2.close();
        } else {
            // the terminal event of the sub-process
            sub_ended2.store(true, Ordering::SeqCst);
        }
    });
    emitter.on_message(move |e| {
        if e.is_key("act1") && e.is_state(MessageState::Created) {
            let mut options = Vars::new();
            options.set(consts::ACT_ERR_CODE, "err1");
            options.set(consts::ACT_ERR_MESSAGE, "sub workflow error");
            e.do_action(&e.pid, &e.tid, EventAction::Error, &options)
                .unwrap();
        }
        if e.is_key("act2") && e.is_state(MessageState::Created) {
            e.do_action(&e.pid, &e.tid, EventAction::Next, &Vars::new())
                .unwrap();
        }
    });

    scher.launch(&proc);
    let finished = tokio::time::timeout(Duration::from_secs(5), tx.recv())
        .await
        .is_ok();
    // let whatever is still in flight settle
    tokio::time::sleep(Duration::from_millis(300)).await;
    proc.print();

    let (open_irqs, text) = report(&scher, &proc);
    assert!(
        sub_ended.load(Ordering::SeqCst),
        "the sub-process did not deliver its terminal event\n{text}"
    );
    assert!(
        finished || open_irqs > 0,
        "the main process is quiet and unfinished (state={}), its sub-process has ended \
         and there is no open interrupt a client could answer\n{text}",
        proc.state()
    );
    assert!(
        proc.state().is_success(),
        "main state={}\n{text}",
        proc.state()
    );
    assert!(
        proc.task_by_nid("call1")
            .first()
            .unwrap()
            .state()
            .is_success()
    );
    assert!(
        proc.task_by_nid("act2")
            .first()
            .unwrap()
            .state()
            .is_success()
    );
}

/// the sub-process fails on its own, the handler of the calling act asks the client (an interrupt),
/// the client completes it: every interrupt was answered with 'complete', the process must finish
#[tokio::test]
async fn pack_subflow_catch_handler_completed_by_client() {
    let mut main = Workflow::new().with_id("main").with_step(|step| {
        step.with_id("step1").with_act(
            Act::subflow(json!({
                "to": "w2",
            }))
            .with_id("call1")
            .with_catch(|c| {
                c.with_on("err1").with_step(|step| {
                    step.with_id("repair")
                        .with_act(Act::irq(|act| act.with_key("catch1")).with_id("catch1"))
                })
            }),
        )
    });

    let w2 = Workflow::new().with_id("w2").with_step(|step| {
        step.with_id("s1")
            .with_act(Act::action(Vars::new().with("action", "error").with(
                "options",
                json!({
                    "ecode": "err1"
                }),
            )))
    });

    main.print();
    let main_pid = utils::longid();
    let (proc, scher, emitter, tx, rx) = create_proc_signal::<()>(&mut main, &main_pid);
    Executor::new(&scher).model().deploy(&w2).unwrap();

    let sub_ended = Arc::new(AtomicBool::new(false));
    let sub_ended2 = sub_ended.clone();
    let answered = Arc::new(AtomicBool::new(false));
    let answered2 = answered.clone();
    let (rx1, rx2) = rx.double();
    emitter.on_complete(move |e| {
        if e.model.id == "main" {
            rx1.close();
        }
    });
    emitter.on_error(move |e| {
        if e.model.id == "main" {
            rx2.close();
        } else {
            sub_ended2.store(true, Ordering::SeqCst);
        }
    });
    emitter.on_message(move |e| {
        if e.is_key("catch1") && e.is_state(MessageState::Created) {
            e.do_action(&e.pid, &e.tid, EventAction::Next, &Vars::new())
                .unwrap();
            answered2.store(true, Ordering::SeqCst);
        }
    });

    scher.launch(&proc);
    let finished = tokio::time::timeout(Duration::from_secs(5), tx.recv())
        .await
        .is_ok();
    tokio::time::sleep(Duration::from_millis(300)).await;
    proc.print();

    let (open_irqs, text) = report(&scher, &proc);
    assert!(
        sub_ended.load(Ordering::SeqCst),
        "the sub-process did not deliver its terminal event\n{text}"
    );
    assert!(
        answered.load(Ordering::SeqCst),
        "the handler interrupt never reached the client\n{text}"
    );
    assert!(
        finished || open_irqs > 0,
        "every interrupt was completed, the sub-process has ended, yet the main process \
         is quiet and unfinished (state={}) with nothing left to answer\n{text}",
        proc.state()
    );
    assert!(
        proc.state().is_success(),
        "main state={}\n{text}",
        proc.state()
    );
    assert!(
        proc.task_by_nid("call1")
            .first()
            .unwrap()
            .state()
            .is_success()
    );
}
