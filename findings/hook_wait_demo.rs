//! a composite task counts its lifecycle-hook acts among the children it waits for, but a hook act does not review its
//! parent when it ends: once the hook irq is the last child to be answered nothing wakes the parent again
use crate::event::EventAction;
use crate::{
    Act, MessageState, StmtBuild, Vars, Workflow,
    scheduler::tests::create_proc_signal2,
    utils,
};
use serde_json::json;
use std::sync::{Arc, Mutex};
use std::time::Duration;

async fn run(workflow: Workflow, answer_order: &'static [&'static str]) -> (Vec<String>, Vec<String>, String) {
    let (engine, proc, tx, _) = create_proc_signal2::<()>(&workflow, &utils::longid());
    let ended = Arc::new(Mutex::new(Vec::<String>::new()));
    let pending = Arc::new(Mutex::new(Vec::<(String, String, String)>::new()));
    let emitter = engine.channel();
    let e2 = ended.clone();
    emitter.on_complete(move |e| e2.lock().unwrap().push(format!("{}", e.state)));
    let p2 = pending.clone();
    emitter.on_message(move |e| {
        if e.is_irq() && e.is_state(MessageState::Created) {
            p2.lock().unwrap().push((e.key.clone(), e.pid.clone(), e.tid.clone()));
        }
    });
    engine.runtime().launch(&proc);
    // every interrupt is answered with complete, in the given order
    for key in answer_order {
        let mut found = None;
        for _ in 0..50 {
            found = pending.lock().unwrap().iter().find(|(k, _, _)| k == key).cloned();
            if found.is_some() {
                break;
            }
            tokio::time::sleep(Duration::from_millis(20)).await;
        }
        let (_, pid, tid) = found.unwrap_or_else(|| panic!("interrupt {key} never shown"));
        engine
            .executor()
            .act()
            .complete(&pid, &tid, &Vars::new())
            .unwrap_or_else(|e| panic!("complete {key}: {e}"));
    }
    let _ = tokio::time::timeout(Duration::from_secs(2), tx.recv()).await;
    tokio::time::sleep(Duration::from_millis(200)).await;
    let open = proc
        .tasks()
        .iter()
        .filter(|t| !t.state().is_completed())
        .map(|t| format!("{}({})", t.node().id(), t.state()))
        .collect::<Vec<_>>();
    let ended = ended.lock().unwrap().clone();
    println!("ended={ended:?} open={open:?} root={}", proc.state());
    (ended, open, proc.state().to_string())
}

fn hook() -> Act {
    Act::irq(|act| act.with_key("hook1"))
        .with_id("hook1")
        .with_on(crate::ActEvent::Created)
}

/// Step::next: a step without acts and a created-hook irq
#[tokio::test]
async fn sch_hook_wait_step_next() {
    let workflow = Workflow::new()
        .with_id("w1")
        .with_step(|step| step.with_id("step1").with_setup(|s| s.add(hook())));
    let (ended, open, root) = run(workflow, &["hook1"]).await;
    assert_eq!(ended, vec!["completed".to_string()], "open={open:?} root={root}");
}

/// Step::review: the act is answered first, the hook irq last
#[tokio::test]
async fn sch_hook_wait_step_review() {
    let workflow = Workflow::new().with_id("w1").with_step(|step| {
        step.with_id("step1")
            .with_setup(|s| s.add(hook()))
            .with_act(Act::irq(|act| act.with_key("act1")).with_id("act1"))
    });
    let (ended, open, root) = run(workflow, &["act1", "hook1"]).await;
    assert_eq!(ended, vec!["completed".to_string()], "open={open:?} root={root}");
}

/// the same step with the hook answered first finishes
#[tokio::test]
async fn sch_hook_wait_step_review_other_order() {
    let workflow = Workflow::new().with_id("w1").with_step(|step| {
        step.with_id("step1")
            .with_setup(|s| s.add(hook()))
            .with_act(Act::irq(|act| act.with_key("act1")).with_id("act1"))
    });
    let (ended, open, root) = run(workflow, &["hook1", "act1"]).await;
    assert_eq!(ended, vec!["completed".to_string()], "open={open:?} root={root}");
}

/// Act::review: a sequence act with a created-hook irq; its generated act is answered first, the hook last
#[tokio::test]
async fn sch_hook_wait_act_review() {
    let workflow = Workflow::new().with_id("w1").with_step(|step| {
        step.with_id("step1").with_act(
            Act::sequence(json!({
                "in": ["u1"],
                "acts": vec![Act::irq(|act| act.with_key("act1"))]
            }))
            .with_id("seq1")
            .with_setup(|mut s| {
                s.push(hook());
                s
            }),
        )
    });
    let (ended, open, root) = run(workflow, &["act1", "hook1"]).await;
    assert_eq!(ended, vec!["completed".to_string()], "open={open:?} root={root}");
}

/// Act::next: a sequence act over an empty list (nothing generated) with a created-hook irq
#[tokio::test]
async fn sch_hook_wait_act_next() {
    let workflow = Workflow::new().with_id("w1").with_step(|step| {
        step.with_id("step1").with_act(
            Act::sequence(json!({
                "in": [],
                "acts": vec![Act::irq(|act| act.with_key("act1"))]
            }))
            .with_id("seq1")
            .with_setup(|mut s| {
                s.push(hook());
                s
            }),
        )
    });
    let (ended, open, root) = run(workflow, &["hook1"]).await;
    assert_eq!(ended, vec!["completed".to_string()], "open={open:?} root={root}");
}

/// a completed-hook irq beneath a finished step is answered while the next step is open: nothing is announced twice,
/// the workflow ends once, after the open act
#[tokio::test]
async fn sch_hook_wait_completed_hook_reports_to_finished_step() {
    let workflow = Workflow::new()
        .with_id("w1")
        .with_step(|step| {
            step.with_id("step1").with_setup(|s| {
                s.add(
                    Act::irq(|act| act.with_key("hook1"))
                        .with_id("hook1")
                        .with_on(crate::ActEvent::Completed),
                )
            })
        })
        .with_step(|step| {
            step.with_id("step2")
                .with_act(Act::irq(|act| act.with_key("act2")).with_id("act2"))
        });
    let (engine, proc, tx, _) = create_proc_signal2::<()>(&workflow, &utils::longid());
    let ended = Arc::new(Mutex::new(Vec::<String>::new()));
    let log = Arc::new(Mutex::new(Vec::<String>::new()));
    let pending = Arc::new(Mutex::new(Vec::<(String, String, String)>::new()));
    let emitter = engine.channel();
    let e2 = ended.clone();
    emitter.on_complete(move |e| e2.lock().unwrap().push(format!("{}", e.state)));
    let p2 = pending.clone();
    let l2 = log.clone();
    emitter.on_message(move |e| {
        if e.r#type == "step" || e.r#type == "workflow" {
            l2.lock().unwrap().push(format!("{}:{}", e.nid, e.state));
        }
        if e.is_irq() && e.is_state(MessageState::Created) {
            p2.lock().unwrap().push((e.key.clone(), e.pid.clone(), e.tid.clone()));
        }
    });
    engine.runtime().launch(&proc);
    for key in ["hook1", "act2"] {
        let mut found = None;
        for _ in 0..50 {
            found = pending.lock().unwrap().iter().find(|(k, _, _)| k == key).cloned();
            if found.is_some() {
                break;
            }
            tokio::time::sleep(Duration::from_millis(20)).await;
        }
        let (_, pid, tid) = found.unwrap_or_else(|| panic!("interrupt {key} never shown"));
        if key == "act2" {
            // the hook was answered: the workflow is still running
            assert!(ended.lock().unwrap().is_empty());
        }
        engine.executor().act().complete(&pid, &tid, &Vars::new()).unwrap();
        tokio::time::sleep(Duration::from_millis(100)).await;
    }
    let _ = tokio::time::timeout(Duration::from_secs(2), tx.recv()).await;
    tokio::time::sleep(Duration::from_millis(200)).await;
    let log = log.lock().unwrap().clone();
    println!("log={log:?}");
    assert_eq!(*ended.lock().unwrap(), vec!["completed".to_string()]);
    assert_eq!(log.iter().filter(|l| *l == "step1:completed").count(), 1, "{log:?}");
    assert_eq!(log.iter().filter(|l| *l == "step2:completed").count(), 1, "{log:?}");
    assert_eq!(log.iter().filter(|l| l.starts_with("w1:completed")).count(), 1, "{log:?}");
}
