use crate::{
    MessageState, TaskState, Workflow,
    scheduler::{Process, Task, tests::create_proc_signal},
    utils,
};
use std::sync::{Arc, Mutex};

/// the tasks of a node in the order of their creation
fn tasks_of(proc: &Arc<Process>, nid: &str) -> Vec<Arc<Task>> {
    let mut tasks = proc.task_by_nid(nid);
    tasks.sort_by_key(|t| t.timestamp);
    tasks
}

/// the loop of examples/simple/model.yml: a step inside a branch jumps back to the step that owns the branch
const LOOP_MODEL: &str = r#"
id: jump_loop
inputs:
  index: 0
steps:
  - id: init
  - id: cond
    branches:
      - id: again
        if: index < 2
        steps:
          - id: add
            next: cond
            acts:
              - id: inc
                uses: acts.transform.code
                params: |
                  $set("index", index + 1);
      - id: done
        if: index >= 2
  - id: end
"#;

#[tokio::test]
async fn sch_jump_back_from_branch_runs_the_tail_once() {
    let mut workflow = Workflow::from_yml(LOOP_MODEL).unwrap();
    let (proc, scher, emitter, tx, _) =
        create_proc_signal::<()>(&mut workflow, &utils::longid());

    // every step the client is told about, in the order of the 'created' messages
    let created = Arc::new(Mutex::new(Vec::<String>::new()));
    let c = created.clone();
    emitter.on_message(move |e| {
        if e.is_type("step") && e.is_state(MessageState::Created) {
            c.lock().unwrap().push(e.nid.clone());
        }
    });

    scher.launch(&proc);
    tx.recv().await;
    proc.print();

    assert_eq!(proc.state(), TaskState::Completed);

    // two turns of the loop, then the exit
    assert_eq!(tasks_of(&proc, "cond").len(), 3);
    assert_eq!(tasks_of(&proc, "add").len(), 2);
    assert_eq!(tasks_of(&proc, "inc").len(), 2);
    assert_eq!(
        tasks_of(&proc, "done")
            .iter()
            .map(|t| t.state())
            .collect::<Vec<_>>(),
        vec![TaskState::Skipped, TaskState::Skipped, TaskState::Completed]
    );

    // the step behind the loop runs exactly once, after the last turn
    let ends = tasks_of(&proc, "end");
    assert_eq!(
        ends.len(),
        1,
        "step 'end' ran {} times: {:?}",
        ends.len(),
        ends
    );
    assert_eq!(ends[0].state(), TaskState::Completed);
    let last_cond = tasks_of(&proc, "cond").last().unwrap().clone();
    assert_eq!(ends[0].prev(), Some(last_cond.id.clone()));

    assert_eq!(
        *created.lock().unwrap(),
        vec!["init", "cond", "add", "cond", "add", "cond", "end"]
    );
}

#[tokio::test]
async fn sch_jump_back_from_branch_single_turn() {
    // one turn only, driven by the process env so that no act is needed
    let text = r#"
id: jump_once
steps:
  - id: s1
  - id: s2
    branches:
      - id: b1
        if: ($env.turns ?? 0) < 1
        run: $env.turns = ($env.turns ?? 0) + 1; undefined
        steps:
          - id: s21
            next: s1
  - id: s3
"#;
    let mut workflow = Workflow::from_yml(text).unwrap();
    let (proc, scher, _, tx, _) = create_proc_signal::<()>(&mut workflow, &utils::longid());
    scher.launch(&proc);
    tx.recv().await;
    proc.print();

    assert_eq!(proc.state(), TaskState::Completed);
    assert_eq!(tasks_of(&proc, "s1").len(), 2);
    assert_eq!(tasks_of(&proc, "s21").len(), 1);

    // the branch ran in the first turn and was skipped in the second one
    let b1 = tasks_of(&proc, "b1");
    assert_eq!(b1.len(), 2);
    assert_eq!(b1[1].state(), TaskState::Skipped);

    // s3 follows the second s2 and nothing else
    let s2 = tasks_of(&proc, "s2");
    assert_eq!(s2.len(), 2);
    assert_eq!(s2[1].state(), TaskState::Completed);
    let s3 = tasks_of(&proc, "s3");
    assert_eq!(s3.len(), 1, "step 's3' ran {} times", s3.len());
    assert_eq!(s3[0].prev(), Some(s2[1].id.clone()));
}

/// the same loop: when the workflow has completed, nothing beneath it is still running
#[tokio::test]
async fn sch_jump_back_from_branch_leaves_nothing_running() {
    let mut workflow = Workflow::from_yml(LOOP_MODEL).unwrap();
    let (proc, scher, _, tx, _) = create_proc_signal::<()>(&mut workflow, &utils::longid());
    scher.launch(&proc);
    tx.recv().await;
    assert_eq!(proc.state(), TaskState::Completed);
    let open = proc
        .tasks()
        .iter()
        .filter(|t| !t.state().is_completed())
        .map(|t| format!("{}({})", t.node().id(), t.state()))
        .collect::<Vec<_>>();
    assert!(open.is_empty(), "left running beneath the completed workflow: {open:?}");
}
