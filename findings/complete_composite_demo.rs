use crate::{Act, MessageState, Vars, Workflow, scheduler::tests::create_proc_signal2, utils};
use serde_json::json;
use std::sync::{Arc, Mutex};
use std::time::Duration;

/// the client answers the generating act itself (its tid is announced like any other act's) while the act it generated is open
async fn run(action: &'static str) {
    let workflow = Workflow::new().with_id("w1").with_step(|step| {
        step.with_id("step1").with_act(
            Act::sequence(json!({
                "in": ["u1"],
                "acts": vec![Act::irq(|act| act.with_key("act1"))]
            }))
            .with_id("seq1"),
        )
    });
    let (engine, proc, tx, _) = create_proc_signal2::<()>(&workflow, &utils::longid());
    let ended = Arc::new(Mutex::new(Vec::<String>::new()));
    let open_at_end = Arc::new(Mutex::new(Vec::<String>::new()));
    let emitter = engine.channel();
    let e2 = ended.clone();
    let p = proc.clone();
    let o2 = open_at_end.clone();
    emitter.on_complete(move |e| {
        e2.lock().unwrap().push(format!("{}", e.state));
        o2.lock().unwrap().extend(
            p.tasks()
                .iter()
                .filter(|t| !t.state().is_completed())
                .map(|t| format!("{}({})", t.node().id(), t.state())),
        );
    });
    let exec = engine.executor().clone();
    let p2 = proc.clone();
    emitter.on_message(move |e| {
        if e.is_key("act1") && e.is_state(MessageState::Created) {
            // the generated act is open: answer the generating act instead
            let seq = p2.task_by_nid("seq1").first().cloned().unwrap();
            let r = match action {
                "submit" => exec.act().submit(&e.pid, &seq.id, &Vars::new()),
                "remove" => exec.act().remove(&e.pid, &seq.id, &Vars::new()),
                "skip" => exec.act().skip(&e.pid, &seq.id, &Vars::new()),
                _ => exec.act().complete(&e.pid, &seq.id, &Vars::new()),
            };
            println!("{action} seq1 ({}): {r:?}", seq.state());
        }
    });
    engine.runtime().launch(&proc);
    let _ = tokio::time::timeout(Duration::from_secs(2), tx.recv()).await;
    tokio::time::sleep(Duration::from_millis(200)).await;
    let ended = ended.lock().unwrap().clone();
    let open = open_at_end.lock().unwrap().clone();
    println!("{action}: ended={ended:?} open_at_end={open:?}");
    assert!(
        ended.is_empty() || open.is_empty(),
        "terminal event {ended:?} while {open:?} can still be acted on"
    );
}

#[tokio::test]
async fn sch_complete_composite_with_open_children() {
    run("complete").await;
}
#[tokio::test]
async fn sch_submit_composite_with_open_children() {
    run("submit").await;
}
#[tokio::test]
async fn sch_remove_composite_with_open_children() {
    run("remove").await;
}
#[tokio::test]
async fn sch_skip_composite_with_open_children() {
    run("skip").await;
}
