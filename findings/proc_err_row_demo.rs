use crate::{
    Act, MessageState, TaskState, Vars, Workflow,
    config::ConfigData,
    scheduler::tests::create_proc_signal_config,
    utils::{self, consts},
};

#[tokio::test]
async fn triage_keep_processes_error_row_has_err() {
    let cfg = ConfigData { keep_processes: Some(true), ..ConfigData::default() };
    let workflow = Workflow::new().with_step(|step| {
        step.with_id("step1").with_act(Act::irq(|act| act.with_key("act1")))
    });
    let pid = utils::longid();
    let (engine, proc, sig) = create_proc_signal_config::<()>(&cfg, &workflow, &pid).await;
    let e2 = engine.clone();
    engine.channel().on_message(move |e| {
        if e.is_key("act1") && e.is_state(MessageState::Created) {
            let mut vars = Vars::new();
            vars.set(consts::ACT_ERR_CODE, "err1");
            vars.set(consts::ACT_ERR_MESSAGE, "boom");
            e2.executor().act().error(&e.pid, &e.tid, &vars).unwrap();
        }
    });
    engine.runtime().launch(&proc);
    sig.recv().await;
    tokio::time::sleep(std::time::Duration::from_millis(200)).await;
    assert_eq!(proc.state(), TaskState::Error);
    println!("LIVE err = {:?}", proc.err());
    let store = engine.runtime().cache().store();
    let proc_row = store.procs().find(&pid).unwrap();
    println!("ROW state={} err={:?}", proc_row.state, proc_row.err);
    assert!(proc.err().is_some());
    assert!(proc_row.err.is_some(), "stored process row has no err although the live process has {:?}", proc.err());
}
