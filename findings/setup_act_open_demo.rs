use crate::{
    Act, StmtBuild, Workflow,
    scheduler::tests::create_proc_signal2,
    utils,
};
use std::sync::{Arc, Mutex};
use std::time::Duration;

/// a workflow whose `setup` holds a normal act (no `on`): it runs below the root task, next to the first step
#[tokio::test]
async fn sch_workflow_waits_for_its_setup_act() {
    let workflow = Workflow::new()
        .with_id("w1")
        .with_setup(|setup| setup.add(Act::irq(|act| act.with_key("act1")).with_id("act1")))
        .with_step(|step| step.with_id("step1"));
    let (engine, proc, tx, _) = create_proc_signal2::<()>(&workflow, &utils::longid());

    let open_at_end = Arc::new(Mutex::new(Vec::<String>::new()));
    let ended = Arc::new(Mutex::new(Vec::<String>::new()));
    let emitter = engine.channel();
    let p = proc.clone();
    let open = open_at_end.clone();
    let e2 = ended.clone();
    emitter.on_complete(move |e| {
        e2.lock().unwrap().push(format!("{}", e.state));
        let tasks = p
            .tasks()
            .iter()
            .filter(|t| !t.state().is_completed())
            .map(|t| format!("{}({})", t.node().id(), t.state()))
            .collect::<Vec<_>>();
        open.lock().unwrap().extend(tasks);
    });

    engine.runtime().launch(&proc);
    let _ = tokio::time::timeout(Duration::from_secs(2), tx.recv()).await;
    tokio::time::sleep(Duration::from_millis(300)).await;

    let open = open_at_end.lock().unwrap().clone();
    let ended = ended.lock().unwrap().clone();
    println!("ended={ended:?} open={open:?} root={}", proc.state());
    // nobody acted on act1: the workflow must still be running, and no terminal event may have been delivered
    assert!(
        ended.is_empty() && !proc.state().is_completed(),
        "terminal event {ended:?} delivered while {open:?} can still be acted on (root state {})",
        proc.state()
    );
}

/// once the setup act is completed by the client the workflow ends, with one terminal event and nothing left open
#[tokio::test]
async fn sch_workflow_ends_after_its_setup_act() {
    let workflow = Workflow::new()
        .with_id("w1")
        .with_setup(|setup| setup.add(Act::irq(|act| act.with_key("act1")).with_id("act1")))
        .with_step(|step| step.with_id("step1"));
    let (engine, proc, tx, _) = create_proc_signal2::<()>(&workflow, &utils::longid());

    let open_at_end = Arc::new(Mutex::new(Vec::<String>::new()));
    let ended = Arc::new(Mutex::new(Vec::<String>::new()));
    let emitter = engine.channel();
    let p = proc.clone();
    let open = open_at_end.clone();
    let e2 = ended.clone();
    emitter.on_complete(move |e| {
        e2.lock().unwrap().push(format!("{}", e.state));
        let tasks = p
            .tasks()
            .iter()
            .filter(|t| !t.state().is_completed())
            .map(|t| format!("{}({})", t.node().id(), t.state()))
            .collect::<Vec<_>>();
        open.lock().unwrap().extend(tasks);
    });
    emitter.on_message(move |e| {
        if e.is_key("act1") && e.is_state(crate::MessageState::Created) {
            e.do_action(&e.pid, &e.tid, crate::event::EventAction::Next, &crate::Vars::new())
                .unwrap();
        }
    });

    engine.runtime().launch(&proc);
    let _ = tokio::time::timeout(Duration::from_secs(3), tx.recv()).await;
    tokio::time::sleep(Duration::from_millis(300)).await;

    let open = open_at_end.lock().unwrap().clone();
    let ended = ended.lock().unwrap().clone();
    println!("ended={ended:?} open={open:?} root={}", proc.state());
    assert_eq!(ended, vec!["completed".to_string()]);
    assert!(open.is_empty(), "{open:?}");
    assert!(proc.state().is_completed());
}

/// a lifecycle hook act (`on: created`) of the workflow does not report back to it: the workflow does not wait for it
#[tokio::test]
async fn sch_workflow_does_not_wait_for_hook_act() {
    let workflow = Workflow::new()
        .with_id("w1")
        .with_setup(|setup| {
            setup.add(
                Act::irq(|act| act.with_key("hook1"))
                    .with_id("hook1")
                    .with_on(crate::ActEvent::Created),
            )
        })
        .with_step(|step| step.with_id("step1"));
    let (engine, proc, tx, _) = create_proc_signal2::<()>(&workflow, &utils::longid());
    let ended = Arc::new(Mutex::new(Vec::<String>::new()));
    let emitter = engine.channel();
    let e2 = ended.clone();
    emitter.on_complete(move |e| {
        e2.lock().unwrap().push(format!("{}", e.state));
    });
    let p = proc.clone();
    emitter.on_message(move |e| {
        if e.is_key("hook1") && e.is_state(crate::MessageState::Created) {
            println!("hook1 created; tasks={:?}", p.tasks().iter().map(|t| format!("{}({})", t.node().id(), t.state())).collect::<Vec<_>>());
        }
    });
    engine.runtime().launch(&proc);
    let _ = tokio::time::timeout(Duration::from_secs(2), tx.recv()).await;
    tokio::time::sleep(Duration::from_millis(300)).await;
    let ended = ended.lock().unwrap().clone();
    println!("ended={ended:?} root={} tasks={:?}", proc.state(), proc.tasks().iter().map(|t| format!("{}({})", t.node().id(), t.state())).collect::<Vec<_>>());
    assert_eq!(ended, vec!["completed".to_string()]);
}

/// the setup act is answered while an act of a step is still open: the workflow goes on
#[tokio::test]
async fn sch_workflow_goes_on_after_its_setup_act() {
    let workflow = Workflow::new()
        .with_id("w1")
        .with_setup(|setup| setup.add(Act::irq(|act| act.with_key("act1")).with_id("act1")))
        .with_step(|step| step.with_id("step1"))
        .with_step(|step| {
            step.with_id("step2")
                .with_act(Act::irq(|act| act.with_key("act2")).with_id("act2"))
        });
    let (engine, proc, tx, _) = create_proc_signal2::<()>(&workflow, &utils::longid());
    let ended = Arc::new(Mutex::new(Vec::<String>::new()));
    let emitter = engine.channel();
    let e2 = ended.clone();
    emitter.on_complete(move |e| {
        e2.lock().unwrap().push(format!("{}", e.state));
    });
    emitter.on_message(move |e| {
        if e.is_key("act1") && e.is_state(crate::MessageState::Created) {
            e.do_action(&e.pid, &e.tid, crate::event::EventAction::Next, &crate::Vars::new())
                .unwrap();
        }
    });
    engine.runtime().launch(&proc);
    let _ = tokio::time::timeout(Duration::from_secs(2), tx.recv()).await;
    tokio::time::sleep(Duration::from_millis(300)).await;
    let ended = ended.lock().unwrap().clone();
    let tasks = proc
        .tasks()
        .iter()
        .map(|t| format!("{}({})", t.node().id(), t.state()))
        .collect::<Vec<_>>();
    println!("ended={ended:?} root={} tasks={tasks:?}", proc.state());
    assert!(
        ended.is_empty() && proc.state().is_running(),
        "terminal event {ended:?}, root {} while {tasks:?}",
        proc.state()
    );
}
