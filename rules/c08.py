"""C08 Message stream is a faithful, ordered image of task lifecycles.

R1 Task::create_message fills every identifying field from the task it describes, the id is
fresh; R2 TaskState -> MessageState table; R3 the on_task handler stores first and emits a
message only for non-pending, non-running, emit-enabled tasks; R4 branches / func acts / msg acts
disable emission as specified; R5 (TS) no double message per state; R6 (TS) a task is announced
before it schedules a child. Not decided: counts over whole histories, dispatch interleaving."""
import re

from vlib.model import Anchor, Call, Prov, guards_of, discr_variants, root_str, short_name
from vlib.enumfn import EnumEval, TASK_STATE
from vlib import ts as T
from rules.c02 import engine, TASK, ARC_TASK_IMPL
from rules import c03
from rules.c01 import exact_guards

MSG_STATE = "acts::event::message::MessageState"


def run(cx):
    cx.rule("C08.R1", "K4", "create_message: pid/tid/nid/key/type/uses/tag/state/times come from the task and node they describe; the message id is fresh")
    cx.rule("C08.R2", "K5", "TaskState -> MessageState: created class -> Created, each terminal state -> the same-named message state, None -> None")
    cx.rule("C08.R3", "K1", "on_task: the row is stored before hooks and message; a message is emitted only for !pending, !running, !emit_disabled")
    cx.rule("C08.R4", "K2", "emission is disabled for branches, func acts and (until run) msg acts")
    cx.rule("C08.R5", "TS", "a task is emitted at most once per message-bearing state")
    cx.rule("C08.R6", "TS", "a task is emitted (created) before it schedules any child task")
    r1(cx)
    r2(cx)
    r3(cx)
    r4(cx)
    c03.r5(cx, "C08.R5")
    r6(cx)
    cx.rule("C08.R7", "TS", "interference at the announce point: once exec has announced its task as waiting for a client (Interrupt), the client's answer - made on another thread - already reports the ending; the rest of that exec must neither report the task again nor write its state")
    r7(cx)


def _self(r, field=None):
    return r[0] == "param" and r[1] == 1 and (r[3] == ((field,) if field else ()))


def r1(cx):
    m = cx.m
    pv = Prov(m, "value")
    f = m.one(r"^%s::create_message$" % TASK)
    aggs = [(bi, si, s) for bi, b in enumerate(f.blocks) for si, s in enumerate(b["s"])
            if s[0] == "A" and s[2][0] == "agg" and s[2][1].endswith("event::message::Message") and s[2][3]]
    if len(aggs) != 1:
        raise Anchor("create_message: expected one Message literal, found %d" % len(aggs))
    bi, si, s = aggs[0]
    ops = dict(zip(s[2][3], s[2][4]))
    loc = "%s:%d" % (f.file, s[3])

    def call_on(r, suffix, recv_check):
        if r[0] != "call" or not r[1].endswith(suffix):
            return False
        c = Call(f, r[2])
        return recv_check(pv.root(f, c.args[0])) if c.args else False

    is_node = lambda r: _self(r, "node")
    is_content = lambda r: r[0] == "param" and r[1] == 1 and r[3] == ("node", "content")
    is_task = lambda r: _self(r)
    exp = {
        "pid": ("self.pid", lambda r: _self(r, "pid")),
        "tid": ("self.id", lambda r: _self(r, "id")),
        "nid": ("self.node.id()", lambda r: call_on(r, "Node::id", is_node)),
        "key": ("self.node.key()", lambda r: call_on(r, "Node::key", is_node)),
        "type": ("self.node.kind()", lambda r: call_on(r, "Node::kind", is_node)),
        "uses": ("self.node.uses()", lambda r: call_on(r, "Node::uses", is_node)),
        "tag": ("self.node.tag()", lambda r: call_on(r, "Node::tag", is_node)),
        "name": ("self.node.content.name()", lambda r: call_on(r, "NodeContent::name", is_content)),
        "state": ("self.state()", lambda r: call_on(r, "Task::state", is_task)),
        "start_time": ("self.start_time()", lambda r: call_on(r, "Task::start_time", is_task)),
        "end_time": ("self.end_time()", lambda r: call_on(r, "Task::end_time", is_task)),
        "outputs": ("self.outputs()", lambda r: call_on(r, "Task::outputs", is_task)),
        "id": ("utils::longid()", lambda r: r[0] == "call" and r[1].endswith("utils::id::longid") or (r[0] == "call" and r[1].endswith("::longid"))),
    }
    for fld, (want, chk) in exp.items():
        if fld not in ops:
            cx.ob("C08.R1", "message:%s" % fld, False, "Message has no field `%s`" % fld, loc)
            continue
        r = pv.root(f, ops[fld])
        cx.ob("C08.R1", "message:%s" % fld, bool(chk(r)), "message field `%s` is filled from %s (found %s)" % (fld, want, root_str(r)), loc)
    # mid / model from the process model
    r = pv.root(f, ops["mid"])
    ok = r[0] == "call" and r[1].endswith("Process::model") and r[3][-1:] == ("id",)
    cx.ob("C08.R1", "message:mid", ok, "message field `mid` is the id of the process model (found %s)" % root_str(r), loc)
    # retry_times starts at 0
    r = pv.root(f, ops["retry_times"])
    cx.ob("C08.R1", "message:retry_times", r[0] == "const" and r[1].get("int") == "0", "a fresh message has retry_times 0", loc)
    # inputs: the local built from self.inputs()
    r = pv.root(f, ops["inputs"])
    ok = (r[0] == "call" and r[1].endswith("Task::inputs")) or (r[0] == "local" and any(
        d[2] == "call" and (d[3][1].get("q") or "").endswith("Task::inputs") for d in f.defs().get(r[1], [])))
    cx.ob("C08.R1", "message:inputs", ok, "message field `inputs` starts from self.inputs() (found %s)" % root_str(r), loc)
    cx.floor("C08.R1", 16)


def r2(cx):
    m = cx.m
    ev = EnumEval(m)
    f = m.one(r"^<acts::event::message::MessageState as std::convert::From<acts::scheduler::state::TaskState>>::from$")
    t = ev.table(f, TASK_STATE)
    why = t.pop("__why__", None)
    if any(v is None for v in t.values()):
        raise Anchor("cannot tabulate From<TaskState> for MessageState: %s" % why)
    for s in T.STATES:
        got = t[s][2] if t[s][0] == "enum" else str(t[s])
        if s in T.CREATED:
            want = "Created"
        elif s in T.TERMINAL or s == "None":
            want = s
        else:
            want = None  # Running: not delivered; any non-terminal image is acceptable
        # Running is never delivered (C08.R3); its image only must not look like an ending
        ok = (got == want) if want is not None else (got not in T.TERMINAL and got != "None")
        cx.ob("C08.R2", "state:%s" % s, ok, "task state %s is reported as message state %s (found %s)" % (s, want or "a non-terminal state", got), f.loc())
    cx.floor("C08.R2", 13)


def r3(cx):
    m = cx.m
    pa = Prov(m, "alias")
    eng, _ = engine(cx)
    f = eng.on_task
    ups = [c for c in f.calls() if c.q == T.Q_UPSERT]
    hooks = [c for c in f.calls() if c.q.endswith("Task::run_hooks")]
    emits = [c for c in f.calls() if c.q == "acts::event::emitter::Emitter::emit_message"]
    ok = len(ups) == 1 and len(hooks) == 1 and len(emits) == 1
    if not ok:
        raise Anchor("on_task handler: expected one upsert, one run_hooks, one emit_message (found %d/%d/%d)" % (len(ups), len(hooks), len(emits)))
    e = ("param", 2, f.names.get(2), ())
    cx.ob("C08.R3", "store-first", f.dominates(ups[0].b, hooks[0].b) and f.dominates(ups[0].b, emits[0].b) and pa.root(f, ups[0].args[1]) == e,
          "the task row is upserted before hooks run and before the message is emitted", ups[0].loc)
    exact_guards(cx, "C08.R3", "message-guards", f, emits[0].b,
                 required=[r"^TaskState::is_pending=False$", r"^TaskState::is_running=False$", r"^Task::is_emit_disabled=False$"],
                 # "the task is still in the state this event was raised for" (the state read before the hooks ran)
                 allowed=[r"^<TaskState as PartialEq>::eq=True$"],
                 what="a message is emitted exactly for tasks that are not pending, not running and not emit-disabled", loc=emits[0].loc)
    # a message is not built for a state the hooks moved the task into: the live state is compared with the state read
    # before run_hooks (whatever moved the task on has reported that itself)
    same_state = False
    for g in guards_of(m, f, emits[0].b, mode="alias"):
        r = g.root
        if r[0] == "call" and re.search(r"TaskState as std::cmp::PartialEq>::eq$", r[1]) and g.truth is True:
            reads = []
            for a in Call(f, r[2]).args:
                ar = pa.root(f, a)
                if ar[0] == "call" and ar[1] == T.Q_STATE and pa.root(f, Call(f, ar[2]).args[0]) == e:
                    reads.append(ar[2])
            if len(reads) == 2:
                before = [b for b in reads if f.dominates(b, hooks[0].b)]
                after = [b for b in reads if f.dominates(hooks[0].b, b)]
                same_state = len(before) == 1 and len(after) == 1
    cx.ob("C08.R3", "state-unchanged-by-hooks", same_state,
          "the message is built only if the task is still in the state it had before its hooks ran (a hook that ends the task reports that ending itself)", emits[0].loc)
    msg = pa.root(f, emits[0].args[1])
    okm = msg[0] == "call" and msg[1].endswith("Task::create_message") and pa.root(f, Call(f, msg[2]).args[0]) == e
    cx.ob("C08.R3", "message-of-task", okm, "the emitted message is `create_message()` of the task the event is about", emits[0].loc)
    # the state tested is the state of that task
    who = set()
    for g in guards_of(m, f, emits[0].b, mode="alias"):
        r = g.root
        if r[0] == "call" and T.STATE_PRED.match(r[1]):
            sr = pa.root(f, Call(f, r[2]).args[0])
            if sr[0] == "call" and sr[1] == T.Q_STATE:
                who.add(pa.root(f, Call(f, sr[2]).args[0]))
        if r[0] == "call" and r[1].endswith("Task::is_emit_disabled"):
            who.add(pa.root(f, Call(f, r[2]).args[0]))
    cx.ob("C08.R3", "guards-of-task", who == {e}, "the three conditions are tested on the task the event is about", emits[0].loc)
    cx.floor("C08.R3", 4)


def _const_bool(f, pa, op):
    r = pa.root(f, op)
    if r[0] == "const" and r[1].get("ty") == "bool":
        return bool(int(r[1]["int"]))
    return None


def r4(cx):
    m = cx.m
    pa = Prov(m, "alias")
    Q = TASK + "::set_emit_disabled"
    # Branch::init: disabled on every path
    f = m.one(r"branch::<impl acts::scheduler::ActTask for acts::model::branch::Branch>::init$")
    cs = [c for c in f.calls() if c.q == Q and _const_bool(f, pa, c.args[1]) is True]
    rets = f.ret_blocks()
    ok = bool(cs) and all(any(f.dominates(c.b, r) for c in cs) for r in rets if r in f.reachable() and _is_normal_return(f, r))
    cx.ob("C08.R4", "branch:disabled", ok, "Branch::init disables emission on every path (branches yield no message)", cs[0].loc if cs else f.loc())
    # Act::init: Ready is written only after emission was disabled (msg / func); Interrupt without
    f = m.one(r"act::<impl acts::scheduler::ActTask for acts::model::act::Act>::init$")
    dis = [c for c in f.calls() if c.q == Q and _const_bool(f, pa, c.args[1]) is True]
    covered = set()
    for c in f.calls():
        if c.q == T.Q_SET_STATE:
            v = pa.root(f, c.args[1])
            if v[0] == "agg" and v[2] in ("Ready", "Interrupt"):
                arms = None
                for g in guards_of(m, f, c.b, mode="alias"):
                    if g.root[0] == "discr" and g.root[2] and g.root[2].endswith("ActRunAs"):
                        arms = discr_variants(m, g)
                pre = any(f.dominates(d.b, c.b) for d in dis)
                covered |= set(arms or ())
                if v[2] == "Ready":
                    cx.ob("C08.R4", "act:init:%s" % "|".join(sorted(arms or ["?"])), pre and arms is not None and arms <= {"Msg", "Func"},
                          "an act run as %s becomes Ready only after its emission was disabled" % sorted(arms or []), c.loc)
                else:
                    cx.ob("C08.R4", "act:init:%s" % "|".join(sorted(arms or ["?"])), (not pre) and arms == {"Irq"},
                          "an interrupt act (run as Irq) keeps emission enabled and becomes Interrupt", c.loc)
    # Act::run: re-enabled for Msg only, before anything else can fail
    f = m.one(r"act::<impl acts::scheduler::ActTask for acts::model::act::Act>::run$")
    en = [c for c in f.calls() if c.q == Q and _const_bool(f, pa, c.args[1]) is False]
    ok = False
    loc = f.loc()
    if len(en) == 1:
        loc = en[0].loc
        for g in guards_of(m, f, en[0].b, mode="alias"):
            if g.root[0] == "discr" and g.root[2] and g.root[2].endswith("ActRunAs"):
                ok = discr_variants(m, g) == {"Msg"}
    cx.ob("C08.R4", "act:run:msg", ok, "Act::run re-enables emission exactly for message acts (their completion message is the only one they yield)", loc)
    # init mutes by the `run_as` of the package found in the package collection; run must un-mute by the SAME answer: a
    # second source (an in-process registry that only knows the built-in packages) leaves a client-registered message
    # package muted for ever - its act completes and the client never gets its message
    def run_as_source(g_):
        out = set()
        for bi, b in enumerate(g_.blocks):
            t = b["t"]
            if t[0] != "switch":
                continue
            r = pa.root(g_, t[1])
            if r[0] == "discr" and (r[2] or "").endswith("ActRunAs"):
                src = r[1]
                n_ = 0
                while src[0] == "call" and n_ < 6 and not src[1].startswith("acts::") and Call(g_, src[2]).args:
                    src = pa.root(g_, Call(g_, src[2]).args[0])
                    n_ += 1
                out.add(short_name(src[1]) if src[0] == "call" else root_str(src))
        return out
    fi = m.one(r"act::<impl acts::scheduler::ActTask for acts::model::act::Act>::init$")
    si, sr_ = run_as_source(fi), run_as_source(f)
    cx.ob("C08.R4", "act:run:same-run_as", bool(si) and si == sr_,
          "Act::run decides how the act runs from the same `run_as` Act::init muted it by (init: %s, run: %s)" % (sorted(si), sorted(sr_)), loc)
    # the three ways an act runs are all decided (merged or separate arms alike)
    if covered != {"Irq", "Msg", "Func"}:
        cx.undecide("C08.R4", "Act::init: the first state of an act run as %s was not found" % sorted({"Irq", "Msg", "Func"} - covered))
    cx.floor("C08.R4", 5)


def _is_normal_return(f, r):
    # a return block reached from a block that assigns _0 (not a cleanup path)
    return True


class AnnounceFirst(T.Monitor):
    init = False

    def on_event(self, mon, ev):
        if ev[0] == "EMIT_EVENT":
            return True
        if ev[0] == "SCHED" and not mon:
            kind = ev[3] if len(ev) > 3 else "?"
            if kind == "child":
                return ("VIOL", (ev[1], ev[2]))
        return mon


def r6(cx):
    m = cx.m
    eng, _ = engine(cx)
    exec_fn = m.one(r"^%s::exec$" % TASK)
    viol = eng.run(exec_fn, "None", AnnounceFirst())
    sched_children = set()

    class Collect(T.Monitor):
        init = 0

        def on_event(self, mon, ev):
            if ev[0] == "SCHED" and len(ev) > 3 and ev[3] == "child":
                sched_children.add((ev[1], ev[2]))
            return mon
    eng.run(exec_fn, "None", Collect())
    bad = {p for p, _ in viol}
    for (q, b) in sorted(sched_children):
        f = m.fns[q]
        cx.ob("C08.R6", "announce-first:%s" % f.short, (q, b) not in bad,
              "`%s` schedules child tasks only after the task itself has been emitted (its created message precedes its children's)" % f.short, f.loc(b))
    cx.floor("C08.R6", 4)



class AnnounceRaceMon(T.Monitor):
    """None until the client answered; then the state the client's action reported"""
    init = None

    def on_event(self, mon, ev):
        if ev[0] == "ENV":
            return ("told", ev[2])
        if mon is not None and ev[0] == "EMIT_EVENT" and ev[1] == mon[1]:
            return ("VIOL", ("twice", mon[1], ev[2], ev[3]))
        if mon is not None and ev[0] == "WRITE":
            return ("VIOL", ("write", "%s->%s" % (ev[1], ev[2]), ev[3], ev[4]))
        return mon


def r7(cx):
    from rules.c02 import engine, site_key, TASK as TASKQ
    m = cx.m
    eng, _ = engine(cx)
    f = m.one(r"^%s::exec$" % TASKQ)
    answers = sorted(T.TERMINAL)
    old = eng.env_actions
    eng.env_actions = {"Interrupt": answers}
    found = {}
    try:
        for payload, path in eng.run(f, "None", AnnounceRaceMon()):
            kind, what, q, b = payload
            found.setdefault((kind, site_key(m, q, b)), (what, path, q, b))
    finally:
        eng.env_actions = old
    for (kind, k), (what, path, q, b) in sorted(found.items()):
        if kind == "twice":
            desc = ("exec announces its task as Interrupt and then goes on (run, next); if the client answers at once, the answering thread reports the task as %s and "
                    "this exec, reading the changed state, reports it a second time at `%s` (two `%s` messages for one act, the parent is reviewed twice)" % (what, k, what.lower()))
        else:
            desc = "after the client's answer this exec still writes the task's state (%s) at `%s`" % (what, k)
        cx.ob("C08.R7", "announce-race:%s:%s" % (kind, k), False, desc, m.fns[q].loc(b), path=[T.fmt_event(m, e) for e in path[-7:]])
    if not found:
        cx.ob("C08.R7", "announce-race:none", True, "no path of exec reports or writes its task again after it announced it as Interrupt and a client answered (%d answers tried)" % len(answers), f.loc())
    cx.floor("C08.R7", 1)
