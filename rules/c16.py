"""C16 Generated acts and lifecycle hooks run exactly as many times as specified.

R1 parallel / sequence: one block act is pushed per element of `in`, unconditionally, with
$index = enumerate index and $value = element; parallel links its groups as siblings
(build_acts(.., false)), sequence chains them (true); R2 no draining call in a loop on a source
defined outside the loop (each generated act keeps its options); R3 ActEvent -> TaskLifeCycle
registration table and the state -> lifecycle firing table of run_hooks; R4 hook acts are flagged
and never trigger hooks themselves; R5 a push action dispatches exactly one act.
Not decided: counts over histories, nesting of generators beyond one level."""
import re

from vlib.model import Anchor, Call, Prov, guards_of, discr_variants, root_str, short_name, ITER_NEXT
from vlib.valreach import blocks_by_value, values_reaching
from vlib.enumfn import TASK_STATE
from vlib import ts as T
from rules.c02 import engine, TASK, _closure_reads_const
from rules.c01 import gdesc

DRAIN = re.compile(r"(Vec::<.*>::(append|drain|split_off|clear)|Map::<.*>::append|BTreeMap::<.*>::append|HashMap::<.*>::drain|VecDeque::<.*>::(append|drain)|"
                   r"acts::model::vars::Vars::append|std::mem::take|std::mem::replace|std::mem::swap)$")


def run(cx):
    cx.rule("C16.R1", "E3", "parallel / sequence push exactly one block act per element of `in` with $index / $value and link the groups as siblings / as a chain")
    cx.rule("C16.R2", "K13", "no draining call (append, drain, mem::take ..) inside a loop on a source object defined outside the loop")
    cx.rule("C16.R3", "K5", "dispatch_acts registers each `on` kind under the same-named lifecycle; run_hooks fires Created / Completed(+Updated, Step) / ErrorCatch for the right state classes")
    cx.rule("C16.R4", "K1", "acts started by a hook are flagged and do not trigger hooks themselves")
    cx.rule("C16.R5", "K2", "a push action dispatches exactly one act, outside any loop")
    r1(cx)
    r2(cx)
    r3(cx)
    r4(cx)
    r5(cx)
    cx.rule("C16.R6", "K2", "Context::dispatch_act opens the act it is given: every Ok return of a call on a started task lies behind create_task + push of exactly that act (no \"already there\" shortcut: a hook act still open from the last firing is no reason to drop this firing)")
    cx.rule("C16.R7", "E3", "each group sees its OWN index and value: Task::options (read by the act's message and by the block package that copies the options onto the acts it generates) is the options of the task's own node - nothing of another task is merged in")
    r7_own_options(cx)
    r6_dispatch_creates(cx)


def natural_loops(f):
    """[(header, body blocks)] from back edges (target dominates source)"""
    loops = {}
    for b in f.reachable():
        for s in f.succ(b):
            if f.dominates(s, b):
                body = {s}
                work = [b]
                while work:
                    x = work.pop()
                    if x in body:
                        continue
                    body.add(x)
                    work += f.pred(x)
                loops.setdefault(s, set()).update(body)
    return sorted(loops.items())


def r1(cx):
    m = cx.m
    pa = Prov(m, "alias")
    pv = Prov(m, "value")
    for pk, seq in (("ParallelPackage", False), ("SequencePackage", True)):
        f = m.one(r"%s as acts::package::ActPackageFn>::execute$" % pk)
        push = [c for c in f.calls() if re.search(r"Vec::<.*>::push$", c.q) and "model::act::Act" in c.full]
        nxt = [c for c in f.calls() if ITER_NEXT.search(c.q) and "Enumerate" in c.full]
        ba = [c for c in f.calls() if c.q.endswith("Context::build_acts")]
        if len(push) != 1 or len(nxt) != 1 or len(ba) != 1:
            cx.ob("C16.R1", "%s:shape" % pk, False, "%s::execute has one enumerate loop, one push and one build_acts (found %d/%d/%d)" % (pk, len(nxt), len(push), len(ba)), f.loc())
            continue
        # the loop iterates self.in, plain enumerate
        src = pa.iter_source(f, ("call", nxt[0].q, nxt[0].b, ()))
        over_in = src is not None and src[0][0] == "param" and src[0][1] == 1 and src[0][3][-1:] == ("in",)
        plain = src is not None and all(re.search(r"::iter$|::into_iter$|Iterator::enumerate$|Iterator>::enumerate$|Deref>::deref$", a) for a in src[2])
        cx.ob("C16.R1", "%s:loop" % pk, over_in and plain, "%s iterates `self.in` with a plain enumerate (no filter / skip / take)" % pk, nxt[0].loc, adaptors=src[2] if src else None)
        # the push is in the loop body and not under any condition other than the loop itself / `?`
        from vlib.model import conditions_of
        gs = [g for g in conditions_of(m, f, push[0].b, mode="alias") if not g.neutral]
        extra = [gdesc(m, g) for g in gs if not (g.root[0] == "discr" and g.root[1][0] == "call" and (ITER_NEXT.search(g.root[1][1]) or T.TRY_BRANCH.search(g.root[1][1])))]
        loops = natural_loops(f)
        in_loop = any(push[0].b in body and nxt[0].b in body for _, body in loops)
        once = sum(1 for c in f.calls() if re.search(r"Vec::<.*>::push$", c.q) and "model::act::Act" in c.full) == 1
        cx.ob("C16.R1", "%s:one-per-element" % pk, in_loop and not extra and once, "exactly one act is pushed per loop iteration, unconditionally (extra guards: %s)" % (extra or "none"), push[0].loc)
        # the pushed act: uses = block, options = {$index: index, $value: value}
        act = pa.root(f, push[0].args[1])
        ok_opts = False
        ok_uses = False
        detail = {}
        if act[0] == "agg":
            ops = pa.agg_operands(f, act)
            uses = pv.root(f, ops["uses"])
            ok_uses = uses[0] == "const" and uses[1].get("str") == "acts.core.block"
            chain = []
            r = pa.root(f, ops["options"])
            while r[0] == "call" and r[1].endswith("Vars::with"):
                c = Call(f, r[2])
                k = pv.root(f, c.args[1])
                v = pa.root(f, c.args[2])
                chain.append(((k[1].get("named") or "").split("::")[-1], v))
                r = pa.root(f, c.args[0])
            fresh = r[0] == "call" and r[1].endswith("Vars::new")
            d = dict(chain)
            elem = ("call", nxt[0].q, nxt[0].b)
            idx_ok = "ACT_INDEX" in d and d["ACT_INDEX"][:3] == elem and d["ACT_INDEX"][3][-1:] == ("0",)
            val_ok = "ACT_VALUE" in d and d["ACT_VALUE"][:3] == elem and d["ACT_VALUE"][3][-1:] == ("1",)
            detail = {k: root_str(v) for k, v in chain}
            ok_opts = fresh and idx_ok and val_ok and len(chain) == 2
            # ... and nothing is merged into these options afterwards: `options.append(inherited)` / insert / extend
            # overwrite $index / $value with the ones the generating act itself carries when it is nested in another group
            base = pa.root(f, ops["options"])
            touched = [c2 for c2 in f.calls() if c2.args and c2.args[0][0] != "k" and pa.root(f, c2.args[0]) == base
                       and re.search(r"::(append|insert|set|extend|remove|clear|entry|retain|set_vec|insert_many)(::<.*>)?$", c2.q)]
            if touched:
                ok_opts = False
                detail["then"] = "`%s` on the same options" % short_name(touched[0].q)
        cx.ob("C16.R1", "%s:index-value" % pk, ok_opts and ok_uses, "each pushed act uses acts.core.block and carries $index = the enumerate index and $value = the element", push[0].loc, **detail)
        flag = pa.root(f, ba[0].args[2])
        lst = pa.root(f, ba[0].args[1])
        ok = flag[0] == "const" and flag[1].get("int") == ("1" if seq else "0") and lst == pa.root(f, push[0].args[0])
        cx.ob("C16.R1", "%s:linking" % pk, ok, "%s builds the pushed acts with is_sequence = %s" % (pk, str(seq).lower()), ba[0].loc)
    # build_acts / dyn_build_act pass the flag on; block passes mode == Sequence
    b = m.one(r"^acts::scheduler::context::Context::build_acts$")
    dc = [c for c in b.calls() if c.q.endswith("tree::build::dyn_build_act")]
    ok = len(dc) == 1 and pa.root(b, dc[0].args[-1]) == ("param", 3, b.names.get(3), ())
    src = pa.iter_source(b, ("call",) + pa.root(b, dc[0].args[0])[1:3] + ((),)) if dc and pa.root(b, dc[0].args[0])[0] == "call" else None
    # no way round the loop: build_acts returns Ok only after it went through the loop over the given acts (an early
    # `return Ok(())` under some condition - "already expanded", "nothing to do" - generates nothing for that call)
    if dc:
        around = [(h, body) for h, body in natural_loops(b) if dc[0].b in body]
        if around:
            h, body = max(around, key=lambda x: len(x[1]))
            bypass = b.reach_from([0], avoid=[h])
            oks = [bi for bi, kind in b.exit_defs() if kind == "OK"]
            early = [bi for bi in oks if bi in bypass]
            cx.ob("C16.R1", "build_acts:no-bypass", bool(oks) and not early,
                  "build_acts returns Ok only after the loop over the acts it was given%s" % (
                      "" if not early else " - but %s returns Ok without entering the loop: for that call no act is generated at all (the generating act then completes with nothing below it)" % [b.loc(x) for x in early]), dc[0].loc)
    d = m.one(r"^acts::scheduler::tree::build::dyn_build_act$")
    cursor_shape = "prev" in d.names.values()
    if cursor_shape:
        cx.ob("C16.R1", "build_acts:flag-and-all", ok, "build_acts hands its is_sequence flag to dyn_build_act for every act of the list", dc[0].loc if dc else b.loc())
    else:
        # the other shape: nodes are created first and linked afterwards by a loop over adjacent pairs
        pair_calls = [c for c in b.calls() if re.search(r"slice::<impl \[.*\]>::(windows|array_windows|chunks|chunks_exact|rchunks|chunks_mut)$", c.q)]
        steps = [c for c in b.calls() if re.search(r"Iterator(>)?::step_by$", c.q)]
        sn = [c for c in b.calls() if c.q.endswith("Node::set_next")]
        if not sn or not pair_calls:
            cx.undecide("C16.R1", "dyn_build_act has no `prev` cursor and build_acts links its nodes in a way the rule does not know (no loop over adjacent pairs found)")
        else:
            pc = pair_calls[0]
            size = pa.root(b, pc.args[1]) if len(pc.args) > 1 else None
            full = pc.q.endswith("::windows") and size is not None and size[0] == "const" and size[1].get("int") == "2" and not steps
            cx.ob("C16.R1", "build_acts:chain-complete", full,
                  "build_acts links the nodes of a sequence by walking every adjacent pair (`windows(2)`)%s" % (
                      "" if full else " - but it walks `%s`: not every neighbour is linked, the chain of a list with three or more acts breaks and the rest never runs" % pc.q.split("::")[-1]), pc.loc)
    cx.floor("C16.R1", 10)


def r2(cx):
    m = cx.m
    pa = Prov(m, "alias")
    n = 0
    for f in sorted(m.fns.values(), key=lambda f: f.q):
        if f.crate != "acts" or f.exp or "tests" in f.q:
            continue
        loops = None
        for c in f.calls():
            if not DRAIN.search(c.q) or c.exp:
                continue
            if loops is None:
                loops = natural_loops(f)
            inside = [(h, body) for h, body in loops if c.b in body]
            if not inside:
                continue
            n += 1
            # the drained object: for `a.append(&mut b)` the source is argument 1; for drain/take argument 0
            name = c.q.split("::")[-1]
            src_op = c.args[1] if (name in ("append", "swap") and len(c.args) > 1) else c.args[0]
            src = pa.root(f, src_op)
            # is the source defined inside the (innermost) loop body?
            h, body = min(inside, key=lambda x: len(x[1]))
            def_inside = _defined_in(f, pa, src, body)
            key = "%s:%s" % (f.short, name)
            cx.ob("C16.R2", key, def_inside,
                  "`%s` in `%s` empties %s inside a loop; the source %s" % (short_name(c.q), f.short, root_str(src),
                                                                              "is created inside the loop body" if def_inside else "is defined OUTSIDE the loop: only the first iteration sees its contents"),
                  c.loc)
    cx.ob("C16.R2", "scanned", True, "%d draining calls inside loops examined in crate acts" % n, None)


def _defined_in(f, pa, r, body):
    if r[0] == "call":
        return r[2] in body
    if r[0] == "local":
        ds = f.defs().get(r[1], [])
        return bool(ds) and all(d[0] in body for d in ds if d[2] in ("assign", "call"))
    if r[0] in ("param", "upvar", "const"):
        return False
    if r[0] in ("agg", "tuple", "array"):
        return r[-2] in body if isinstance(r[-2], int) else False
    return False


def r3(cx):
    m = cx.m
    pa = Prov(m, "alias")
    _, tables = engine(cx)
    # registration table
    from vlib.model import enum_const_cases
    clos = [f for f in m.fns.values() if f.q == "acts::scheduler::context::Context::dispatch_acts" or f.q.startswith("acts::scheduler::context::Context::dispatch_acts::{closure")]
    reg = {}
    for f in clos:
        for c in f.calls():
            if c.q == TASK + "::add_hook_stmts":
                # the lifecycle key may be a literal in each arm of `match on` or a local chosen by that match
                cases = enum_const_cases(f, pa, c.args[1]) or [("?", None)]
                for key, blk in cases:
                    ev = None
                    for g in guards_of(m, f, blk if blk is not None else c.b, mode="alias"):
                        if g.root[0] == "discr" and g.root[2] and g.root[2].endswith("ActEvent"):
                            ev = discr_variants(m, g)
                            break
                    reg[key] = (ev, c)
    evs = {n for n, _ in m.variants("acts::model::ActEvent")}
    for ev in sorted(evs):
        hit = [(k, v) for k, v in reg.items() if v[0] == {ev}]
        cx.ob("C16.R3", "register:%s" % ev, len(hit) == 1 and hit[0][0] == ev, "an act with `on: %s` is registered under lifecycle %s (found %s)" % (ev, ev, [h[0] for h in hit]), hit[0][1][1].loc if hit else None)
    # hook acts are not built as normal acts: the `else` of `if let Some(on)`
    # firing table
    f = m.one(r"^%s::run_hooks$" % TASK)
    byv = blocks_by_value(m, tables, f, r"process::task::Task::state$", TASK_STATE)
    fired = {}
    for c in f.calls():
        if c.q == T.Q_RUN_HOOKS_BY:
            k = _lifecycle_key(f, pa, c.args[1])
            fired.setdefault(k[2] if k[0] == "agg" else "?", set()).update(values_reaching(byv, c.b))
    nonerr_term = T.TERMINAL - {"Error"}
    want = {"Created": T.CREATED, "BeforeUpdate": T.CREATED, "Completed": nonerr_term, "Updated": nonerr_term, "Step": nonerr_term, "ErrorCatch": {"Error"}}
    for k, states in want.items():
        cx.ob("C16.R3", "fire:%s" % k, fired.get(k) == states, "%s hooks fire exactly for task states %s (found %s)" % (k, sorted(states), sorted(fired.get(k, []))), f.loc())
    cx.ob("C16.R3", "fire:nothing-else", set(fired) == set(want), "run_hooks fires no other lifecycle (found %s)" % sorted(fired), f.loc())
    # Created/Completed are the hooks of the task itself; BeforeUpdate/Updated of the enclosing step and the root, for acts only
    for c in f.calls():
        if c.q == T.Q_RUN_HOOKS_BY:
            k = _lifecycle_key(f, pa, c.args[1])
            key = k[2] if k[0] == "agg" else "?"
            recv = pa.root(f, c.args[0])
            if key in ("Created", "Completed", "ErrorCatch"):
                cx.ob("C16.R3", "owner:%s" % key, recv[0] == "param" and recv[1] == 1, "%s hooks run are those of the task itself" % key, c.loc)
    # BeforeUpdate / Updated belong to the nearest enclosing *step* of the act, however deep the act is nested (generated
    # acts hang below other acts), and to the root
    for c in f.calls():
        if c.q != T.Q_RUN_HOOKS_BY:
            continue
        k = _lifecycle_key(f, pa, c.args[1])
        key = k[2] if k[0] == "agg" else "?"
        if key not in ("BeforeUpdate", "Updated"):
            continue
        recv = pa.root(f, c.args[0])
        if recv[0] == "call" and recv[1].endswith("Process::root"):
            cx.ob("C16.R3", "owner:%s:root" % key, True, "%s hooks of the root task fire" % key, c.loc)
            continue
        ok, how = _nearest_step(m, pa, f, recv, c)
        cx.ob("C16.R3", "owner:%s:step" % key, ok,
              "the %s hooks fired for an act are those of its nearest enclosing step, found by walking up the parents until a Step (%s)%s" % (
                  key, how, "" if ok else " - acts nested below another act (every generated act) would not reach their step"), c.loc)
    cx.floor("C16.R3", 19)


def _lifecycle_key(f, pa, op):
    """the TaskLifeCycle variant handed to run_hooks_by, looking through `key.clone()` (a key handed to a helper that was
    inlined back)"""
    k = pa.root(f, op)
    for _ in range(4):
        if k[0] == "call" and k[1].endswith("Clone>::clone") and not k[3]:
            k = pa.root(f, Call(f, k[2]).args[0])
            continue
        break
    return k


def _nearest_step(m, pa, f, recv, c, depth=0):
    """is `recv` the result of an ancestor walk `p = x.parent(); while let Some(t) = p { if t.is_kind(Step) {..} p = t.parent() }`?"""
    if recv[0] == "local" and recv[4] >= 2:
        defs = [d for d in f.defs().get(recv[1], []) if d[2] in ("call", "assign")]
        par = []
        for d in defs:
            if d[2] == "call" and Call(f, d[0]).q.endswith("Task::parent"):
                par.append(d)
            elif d[2] == "assign" and d[3][0] == "use" and d[3][1][0] in ("m", "c") and not d[3][1][1][1]:
                src = [x for x in f.defs().get(d[3][1][1][0], []) if x[2] in ("call", "assign")]
                if len(src) == 1 and src[0][2] == "call" and Call(f, src[0][0]).q.endswith("Task::parent"):
                    par.append(src[0])
        if len(par) >= 2 and len(par) == len(defs):
            # one start (from self) and one step (from the visited task), the step inside a loop
            loops = natural_loops(f)
            in_loop = [d for d in par if any(d[0] in body for _, body in loops)]
            starts = [d for d in par if pa.root(f, Call(f, d[0]).args[0])[:2] == ("param", 1)]
            kind = False
            for g in guards_of(m, f, c.b, mode="alias"):
                r = g.root
                if r[0] == "call" and r[1].endswith("Task::is_kind") and g.truth is True:
                    who = pa.root(f, Call(f, r[2]).args[0])
                    kv = pa.root(f, Call(f, r[2]).args[1])
                    if who[:2] == recv[:2] and kv[0] == "agg" and kv[2] == "Step":
                        kind = True
            return (bool(in_loop) and bool(starts) and kind), "walk over `%s`" % recv[2]
        return False, "`%s` is not stepped with Task::parent" % recv[2]
    if recv[0] == "call" and depth < 2:
        h = m.fns.get(recv[1])
        if h is not None and h.q.startswith("acts::"):
            loops = natural_loops(h)
            walks = [x for x in h.calls() if x.q.endswith("Task::parent") and any(x.b in body for _, body in loops)]
            kinds = [x for x in h.calls() if x.q.endswith("Task::is_kind")]
            return (bool(walks) and bool(kinds)), "helper `%s`%s" % (short_name(h.q), "" if walks else " looks at one parent only (no walk)")
    return False, "receiver %s" % root_str(recv)


def r4(cx):
    m = cx.m
    pa = Prov(m, "alias")
    pv = Prov(m, "value")
    f = m.one(r"^acts::scheduler::context::Context::dispatch_act$")
    flag = [c for c in f.calls() if c.q.endswith("Task::set_data_with") and _closure_reads_const(m, f, c, "utils::consts::IS_EVENT_PROCESSED")]
    push = [c for c in f.calls() if c.q == T.Q_PUSH]
    ok = False
    if len(flag) == 1 and len(push) == 1:
        g = [x for x in guards_of(m, f, flag[0].b, mode="alias") if x.root[0] == "param" and x.root[2] == "is_hook_event"]
        same = pa.root(f, flag[0].args[0]) == pa.root(f, push[0].args[1])
        ok = len(g) == 1 and g[0].truth is True and same and f.can_reach(flag[0].b, push[0].b)
    cx.ob("C16.R4", "flag:set", ok, "dispatch_act flags the task it creates as hook-started exactly when is_hook_event, before it is pushed", flag[0].loc if flag else f.loc())
    callers = m.callers().get(f.q, [])
    for c in callers:
        v = pa.root(c.fn, c.args[2])
        from_hook = c.fn.short == "Act::dispatch"
        val = v[1].get("int") if v[0] == "const" else root_str(v)
        cx.ob("C16.R4", "flag:caller:%s" % c.fn.short, (from_hook and v[0] == "param") or (not from_hook and val == "0"),
              "`%s` calls dispatch_act with is_hook_event = %s" % (c.fn.short, val), c.loc)
    d = m.one(r"<impl acts::model::act::Act>::dispatch$")
    for c in m.callers().get(d.q, []):
        v = pa.root(c.fn, c.args[2])
        cx.ob("C16.R4", "flag:hook-statement", c.fn.q.endswith("StatementBatch::run") and v[0] == "const" and v[1].get("int") == "1",
              "hook statements dispatch their act with is_hook_event = true (in `%s`)" % c.fn.short, c.loc)
    rh = m.one(r"^%s::run_hooks$" % TASK)
    first = [c for c in rh.calls() if c.q == T.Q_RUN_HOOKS_BY]
    early = False
    for g in guards_of(m, rh, first[0].b, mode="value") if first else []:
        if g.root[0] == "call" and g.root[1].endswith("Task::with_data") and g.truth is False and _closure_reads_const(m, rh, Call(rh, g.root[2]), "utils::consts::IS_EVENT_PROCESSED"):
            early = True
    allg = all(any(g.root[0] == "call" and g.root[1].endswith("Task::with_data") and g.truth is False for g in guards_of(m, rh, c.b, mode="value")) for c in first)
    cx.ob("C16.R4", "flag:checked", early and allg, "run_hooks returns before firing anything when the context's task is hook-started", rh.loc())
    cx.floor("C16.R4", 4)


def r5(cx):
    m = cx.m
    pa = Prov(m, "alias")
    f = m.one(r"^%s::update$" % TASK)
    ds = [c for c in f.calls() if c.q.endswith("Context::dispatch_act")]
    ok = len(ds) == 1
    arm = None
    if ok:
        for g in guards_of(m, f, ds[0].b, mode="alias"):
            if g.root[0] == "discr" and g.root[2] and g.root[2].endswith("EventAction"):
                arm = discr_variants(m, g)
        loops = natural_loops(f)
        ok = arm == {"Push"} and not any(ds[0].b in body for _, body in loops)
    cx.ob("C16.R5", "push:once", ok, "the push arm of update calls dispatch_act exactly once, outside any loop (arm %s)" % (sorted(arm) if arm else None), ds[0].loc if ds else f.loc())
    # dispatch_act itself creates one task
    d = m.one(r"^acts::scheduler::context::Context::dispatch_act$")
    ct = [c for c in d.calls() if c.q.endswith("Process::create_task")]
    pu = [c for c in d.calls() if c.q == T.Q_PUSH]
    loops = natural_loops(d)
    cx.ob("C16.R5", "dispatch:one-task", len(ct) == 1 and len(pu) == 1 and not any(ct[0].b in body for _, body in loops),
          "dispatch_act creates and pushes exactly one task", d.loc())
    cx.floor("C16.R5", 2)


def r6_dispatch_creates(cx):
    from rules.c01 import exact_guards
    m = cx.m
    pa = Prov(m, "alias")
    f = m.one(r"^acts::scheduler::context::Context::dispatch_act$")
    ct = [c for c in f.calls() if c.q.endswith("Process::create_task")]
    ps = [c for c in f.calls() if c.q == T.Q_PUSH]
    ok = len(ct) == 1 and len(ps) == 1 and f.dominates(ct[0].b, ps[0].b) and pa.root(f, ps[0].args[1]) == ("call", ct[0].q, ct[0].b, ())
    cx.ob("C16.R6", "dispatch_act:creates-and-pushes", ok, "dispatch_act creates one task for the act's node and pushes that task to the scheduler", (ps or ct or [None])[0].loc if (ps or ct) else f.loc())
    if ok:
        # the only reason not to open the act is that the dispatching task itself has not started (state None)
        exact_guards(cx, "C16.R6", "dispatch_act:unconditional", f, ps[0].b, required=[r"^TaskState::is_none=False$"], allowed=[r"^match\(.*branch.*\)=Continue$", r"^var:is_hook_event="],
                     what="the act is opened whenever the dispatching task has started - whatever else the process contains", loc=ps[0].loc)
    cx.floor("C16.R6", 2)


def r7_own_options(cx):
    m = cx.m
    pa = Prov(m, "alias")
    pv = Prov(m, "value")
    f = m.one(r"^acts::scheduler::process::task::Task::options$")
    others = [short_name(c.q) for c in f.calls() if re.search(r"Task::(parent|children|siblings|prev|find|vars|data)$|Process::|Vars::(extend|insert|set|with|append)$|Map::<.*>::(insert|extend|append)$", c.q)]
    rets = []
    for bi, b in enumerate(f.blocks):
        for s_ in b["s"]:
            if s_[0] == "A" and s_[1][0] == 0 and not s_[1][1] and s_[2][0] == "use":
                rets.append(pv.root(f, s_[2][1]))
        t = b["t"]
        if t[0] == "call" and t[3][0] == 0 and not t[3][1]:
            rets.append(("call", t[1].get("q") or "", bi, ()))
    own = bool(rets) and all(r[0] == "call" and r[1].endswith("NodeContent::options") for r in rets)
    if own:
        for r in rets:
            recv = pa.root(f, Call(f, r[2]).args[0])
            via_accessor = recv[0] == "call" and recv[1].endswith("Task::node") and pa.root(f, Call(f, recv[2]).args[0])[:2] == ("param", 1)
            own = own and ((recv[0] == "param" and recv[1] == 1 and "node" in recv[3]) or via_accessor)
    cx.ob("C16.R7", "options:own-node", own and not others,
          "Task::options returns `self.node.content.options()` and nothing else (returned: %s; other reads / merges: %s)" % ([root_str(r) for r in rets], others or "none"), f.loc())
    cx.floor("C16.R7", 1)
