"""C19 Timeout rules fire once, never early, and only for open tasks.

R1 the firing site is dominated by once-flag-false and `now - start_time >= limit*1000`, and sets
the flag on the firing path; R2 (TS) the rule never fires for a task in a terminal state; R3 (TS)
firing does not write the timed task's state; R4 unit table. Not decided: "no later than one
tick" (timing)."""
import re

from vlib.model import Anchor, Call, Prov, guards_of, discr_variants, root_str, short_name
from vlib.enumfn import EnumEval, Undecided
from vlib import ts as T
from rules.c02 import engine, TASK, _closure_reads_const

HOOK = "acts::scheduler::process::task::hook::StatementBatch::run"
UNIT = "acts::model::act::timeout::TimeoutUnit"


class FireMon(T.Monitor):
    init = 0

    def __init__(self):
        self.fired_in = set()
        self.writes = set()

    def on_event(self, mon, ev):
        if ev[0] == "SCHED":
            self.fired_in.add(("SCHED", ev[1], ev[2]))
            return ("VIOL", ("fire", ev[1], ev[2]))
        if ev[0] == "WRITE":
            return ("VIOL", ("write", ev[3], ev[4], ev[1], ev[2]))
        return mon


def run(cx):
    cx.rule("C19.R1", "K1", "a timeout fires only under once-flag=false and elapsed >= limit, with elapsed = now - task.start_time(), limit = as_secs()*1000; the flag is set when it fires")
    cx.rule("C19.R2", "TS", "a timeout rule never starts its steps for a task that is already terminal")
    cx.rule("C19.R3", "TS", "firing a timeout rule does not change the state of the timed task")
    cx.rule("C19.R4", "K5", "duration units: s/m/h/d parse to Second/Minute/Hour/Day and weigh 1/60/3600/86400 seconds")
    r1(cx)
    r2_r3(cx)
    r4(cx)
    from rules.common import hook_discipline
    cx.rule("C19.R6", "K1", "every tick examines every task of the process that carries a timeout rule: selected by the presence of the rule only, visited one by one without early exit, a failing rule is reported and the pass goes on")
    r6_tick_pass(cx)
    cx.rule("C19.R7", "K1", "every declared timeout rule is registered: Step::init and Act::init hand each element of their `timeout` list to add_hook_timeout, whatever kind of act it is (a func act that stays open - block, parallel, sequence, subflow - is timed like an irq)")
    r7_registered(cx)
    cx.rule("C19.R5", "K3", "hook registration discipline: timeout rules are stored only under the Timeout key and nothing else is (justifies the pruning used by R2/R3)")
    hook_discipline(cx, "C19.R5")
    cx.floor("C19.R5", 8)


def timeout_site(cx):
    m = cx.m
    pa = Prov(m, "alias")
    f = m.one("^" + re.escape(HOOK) + "$")
    sites = []
    for c in f.calls():
        if c.q == T.Q_SCHED:
            for g in guards_of(m, f, c.b, mode="alias"):
                if g.root[0] == "discr" and g.root[1][0] == "param" and g.root[1][1] == 1 and discr_variants(m, g) == {"Timeout"}:
                    sites.append(c)
    if len(sites) != 1:
        raise Anchor("expected one sched_task in the Timeout arm of StatementBatch::run, found %d" % len(sites))
    return f, sites[0]


def r1(cx):
    m = cx.m
    pa = Prov(m, "alias")
    pv = Prov(m, "value")
    f, site = timeout_site(cx)
    gs = guards_of(m, f, site.b, mode="value")
    flag = False
    cmp_ok = False
    detail = {}
    for g in gs:
        r = g.root
        if r[0] == "call" and r[1].endswith("Task::with_data") and g.truth is False:
            flag = flag or _closure_uses_key(m, f, Call(f, r[2]), "IS_TIMEOUT_PROCESSED_PREFIX")
        if r[0] == "bin" and r[1] in ("Ge", "Gt", "Le", "Lt") and g.truth is True:
            lhs, rhs = r[2], r[3]
            if r[1] in ("Le", "Lt"):
                lhs, rhs = rhs, lhs
            detail = {"elapsed": root_str(lhs), "limit": root_str(rhs), "op": r[1]}
            cmp_ok = _is_elapsed(f, pa, lhs) and _is_limit(f, pa, rhs)
    cx.ob("C19.R1", "once-flag", flag, "the firing site is dominated by the per-rule once-flag being false", site.loc)
    cx.ob("C19.R1", "not-early", cmp_ok, "the firing site is dominated by `time_millis() - task.start_time() >= on.as_secs() * 1000`", site.loc, **detail)
    setters = [c for c in f.calls() if c.q.endswith("Task::set_data_with") and f.dominates(c.b, site.b) and
               any(gg.root[0] == "discr" and gg.root[1][0] == "param" and discr_variants(m, gg) == {"Timeout"} for gg in guards_of(m, f, c.b, mode="alias"))]
    same_key = False
    for c in setters:
        # the closure captures the same key local that the flag read uses
        for a in c.args:
            r = pa.root(f, a)
            if r[0] == "closure":
                same_key = True
    cx.ob("C19.R1", "flag-set", bool(setters) and same_key, "the once-flag is set on the firing path before the timeout steps are scheduled", site.loc)
    # what is scheduled: the Timeout outputs of the task's node for this rule
    node = pa.root(f, site.args[1])
    src = pa.iter_source(f, ("call", node[1], node[2], ())) if node[0] == "call" else None
    ok = False
    if src is not None and src[0][0] == "call" and src[0][1].endswith("Node::children_in"):
        kc = Call(f, src[0][2])
        kind = pa.root(f, kc.args[1])
        ok = kind[0] == "agg" and kind[2] == "Timeout"
    cx.ob("C19.R1", "steps", ok, "the scheduled nodes are the node's Timeout outputs for this rule", site.loc)
    cx.floor("C19.R1", 4)


def _closure_uses_key(m, f, call, named):
    pa = Prov(m, "alias")
    # the key is `format!("{}{}", PREFIX, t.on)`: accept a closure that captures a local built with the prefix
    for a in call.args:
        r = pa.root(f, a)
        if r[0] == "closure":
            for bi, b in enumerate(f.blocks):
                for s in b["s"]:
                    if s[0] == "A" and s[2][0] == "use" and s[2][1][0] == "k" and (s[2][1][1].get("named") or "").endswith(named):
                        return True
                    if s[0] == "A" and s[2][0] == "ref":
                        pass
            # promoted constants
            for pb in f.promoted:
                for b in pb.blocks:
                    for s in b["s"]:
                        if s[0] == "A" and s[2][0] == "use" and s[2][1][0] == "k" and (s[2][1][1].get("named") or "").endswith(named):
                            return True
    return False


def _is_elapsed(f, pa, r):
    if r[0] == "field":
        r = r[1]
    if r[0] == "bin" and r[1].startswith("Sub"):
        a, b = r[2], r[3]
        return a[0] == "call" and a[1].endswith("time::time_millis") and b[0] == "call" and b[1].endswith("Task::start_time")
    return False


def _is_limit(f, pa, r):
    if r[0] == "field":
        r = r[1]
    if r[0] == "bin" and r[1].startswith("Mul"):
        a, b = r[2], r[3]
        for x, y in ((a, b), (b, a)):
            if x[0] == "call" and x[1].endswith("TimeoutLimit::as_secs") and y[0] == "const" and y[1].get("int") == "1000":
                lim = pa.root(f, Call(f, x[2]).args[0])
                return lim[0] == "call" and (T.TRY_BRANCH.search(lim[1]) or lim[1].endswith("TimeoutLimit::parse"))
    return False


def r2_r3(cx):
    m = cx.m
    eng, _ = engine(cx)
    f = m.one(r"^%s::run_hooks_timeout$" % TASK)
    # callers: the tick walks every task that has timeout hooks, whatever its state
    tick = m.one(r"^acts::scheduler::process::process::Process::do_tick$")
    fired = {}
    wrote = {}
    for s0 in T.STATES:
        mon = FireMon()
        viol = eng.run(f, s0, mon)
        for payload, path in viol:
            if payload[0] == "fire":
                fired.setdefault(s0, (payload, path))
            else:
                wrote.setdefault(s0, (payload, path))
    site_f, site = timeout_site(cx)
    for s0 in T.STATES:
        if s0 in T.TERMINAL:
            cx.ob("C19.R2", "fire:%s" % s0, s0 not in fired,
                  "a task in terminal state %s never has its timeout steps scheduled by the tick" % s0, site.loc,
                  **({"path": [T.fmt_event(m, e) for e in fired[s0][1][-5:]]} if s0 in fired else {}))
        cx.ob("C19.R3", "no-write:%s" % s0, s0 not in wrote,
              "running the timeout hooks of a task in state %s writes no state on it" % s0, site.loc,
              **({"path": [T.fmt_event(m, e) for e in wrote[s0][1][-5:]]} if s0 in wrote else {}))
    open_fire = [s for s in T.STATES if s in fired and s not in T.TERMINAL]
    cx.ob("C19.R2", "fire:open", bool(open_fire), "the rule can fire for open tasks (reached from: %s)" % open_fire, site.loc)
    cx.floor("C19.R2", 9)
    cx.floor("C19.R3", 13)


def r4(cx):
    m = cx.m
    ev = EnumEval(m)
    f = m.one(r"timeout::TimeoutLimit::as_secs$")
    want = {"Second": 1, "Minute": 60, "Hour": 3600, "Day": 86400}
    for n, _ in m.variants(UNIT):
        try:
            v = ev.call(f, [("struct", {"value": ("int", 1), "unit": ("enum", UNIT, n)})])
            got = v[1] if v[0] == "int" else None
        except Undecided as e:
            raise Anchor("cannot tabulate as_secs: %s" % e)
        cx.ob("C19.R4", "weight:%s" % n, got == want.get(n), "one %s weighs %s seconds (found %s)" % (n, want.get(n), got), f.loc())
    g = m.one(r"timeout::TimeoutUnit::parse$")
    letters = {"s": "Second", "m": "Minute", "h": "Hour", "d": "Day"}
    for s, n in letters.items():
        try:
            v = ev.call(g, [("str", s)])
        except Undecided as e:
            raise Anchor("cannot tabulate TimeoutUnit::parse: %s" % e)
        got = v[3][0][2] if (v[0] == "agg" and v[2] == "Ok" and v[3] and v[3][0][0] == "enum") else None
        cx.ob("C19.R4", "unit:%s" % s, got == n, "the unit letter `%s` means %s (found %s)" % (s, n, got), g.loc())
    # the limit regex: the whole string, a value and one of the four unit letters
    p = m.one(r"timeout::TimeoutLimit::parse$")
    pv = Prov(m, "value")
    rx = []
    for c in p.calls():
        if c.q.endswith("Regex::new"):
            pat = pv.root(p, c.args[0])
            if pat[0] == "const" and "str" in pat[1] and pat[1]["str"] in p.regexes:
                rx.append((pat[1]["str"], p.regexes[pat[1]["str"]]))
    ok = False
    if len(rx) == 1:
        pat, hir = rx[0]
        ok = _unit_regex_ok(hir)
    cx.ob("C19.R4", "regex", ok, "the duration pattern is anchored at both ends and ends in exactly one of s|m|h|d (pattern %s)" % ([r[0] for r in rx]), p.loc())
    cx.floor("C19.R4", 9)


def _unit_regex_ok(h):
    if h[0] != "cat":
        return False
    parts = h[1]
    if not parts or parts[0] != ["look", "Start"] or parts[-1] != ["look", "End"]:
        return False
    last = parts[-2]
    if last[0] != "cap":
        return False
    sub = last[2]
    letters = set()
    if sub[0] == "class":
        for a, b in sub[1]:
            for c in range(a, b + 1):
                letters.add(chr(c))
    elif sub[0] == "alt":
        for x in sub[1]:
            if x[0] == "lit" and len(x[1]) == 1:
                letters.add(x[1])
            else:
                return False
    else:
        return False
    return letters == set("smhd")



def r6_tick_pass(cx):
    from rules.c13 import pass_shape
    m = cx.m
    pa = Prov(m, "alias")
    f = m.one(r"^acts::scheduler::process::process::Process::do_tick$")
    ft = [c for c in f.calls() if re.search(r"Process::find_tasks(::<.*>)?$", c.q)]
    if len(ft) != 1:
        raise Anchor("do_tick: expected one find_tasks call")
    # the selection closure: only `hooks().contains_key(Timeout)`
    clos = pa.root(f, ft[0].args[1])
    sel_ok = False
    if clos[0] == "closure" and clos[1] in m.fns:
        g = m.fns[clos[1]]
        names = [short_name(c.q) for c in g.calls() if not (c.callee.get("decl") or "").startswith("std::ops::Deref")]
        has = any("contains_key" in x for x in names) and any(x.endswith("Task::hooks") for x in names)
        extra = [x for x in names if not ("contains_key" in x or x.endswith("Task::hooks"))]
        no_branch = all(b["t"][0] != "switch" for b in g.blocks)
        sel_ok = has and not extra and no_branch
    cx.ob("C19.R6", "do_tick:selection", sel_ok, "do_tick selects the tasks by `hooks().contains_key(Timeout)` and nothing else (no state or kind filter that could hide an open task)", ft[0].loc)
    shapes = pass_shape(m, pa, f, ft[0])
    ok = all(v in ("loop-ok", "for_each") for v, _, _ in shapes)
    cx.ob("C19.R6", "do_tick:every-task", ok, "do_tick visits each selected task (%s)" % ", ".join("%s %s" % (v, d) for v, d, _ in shapes), shapes[0][2].loc)
    # the per-task body does not propagate: do_tick has no Err exit
    errs = [k for _, k in f.exit_defs() if k.startswith("ERR")]
    body_ok = not errs
    for v, _, x in shapes:
        if v == "for_each":
            cl = pa.root(f, x.args[1])
            if cl[0] == "closure" and cl[1] in m.fns:
                body_ok = body_ok and not m.fns[cl[1]].returns_result()
    cx.ob("C19.R6", "do_tick:failure-local", body_ok, "a failing timeout rule of one task does not end the pass (no error leaves the per-task body)", f.loc())
    from rules.common import children_in_selector
    children_in_selector(cx, "C19.R6", "timeout")
    # the clock the rule reads (`task.start_time()`) and its once-flag (in `data`) survive a reload: both cells are rewritten
    # by every update of the task row (otherwise a reloaded task looks as if it had been open since 1970, or fires again)
    from rules import c12
    c12.r6(cx, "C19.R6", only={("task", "start_time"), ("task", "data")}, floor=6)


def r7_registered(cx):
    m = cx.m
    pa = Prov(m, "alias")
    from vlib.model import conditions_of
    from rules.c01 import gdesc
    allowed = [r"^Context::eval\?=True$", r"is_empty=False$", r"^match\(.*Iterator.*next\)=Some$", r"^match\(.*branch.*\)=Continue$", r"Iterator>::next", r"^Gt\(.*len\(\).*\)=True$", r"^Ne\(.*len\(\).*\)=True$"]
    n = 0
    for kind in ("step::Step", "act::Act"):
        f = m.one(r"impl acts::scheduler::ActTask for acts::model::%s>::init$" % kind)
        view = m.inlined_view(f, lambda c: not c.q.endswith("Task::add_hook_timeout") and any(x.q.endswith("Task::add_hook_timeout") for x in m.fns[c.q].calls()))
        regs = [c for c in view.calls() if c.q.endswith("Task::add_hook_timeout")]
        ok_src = []
        for c in regs:
            v = pa.root(view, c.args[2]) if len(c.args) > 2 else ("?",)
            src = pa.iter_source(view, ("call", v[1], v[2], ())) if v[0] == "call" else None
            fld = src[0] if src else None
            from_list = fld is not None and fld[0] == "param" and fld[1] == 1 and tuple(fld[3])[-1:] == ("timeout",)
            if from_list:
                ok_src.append(c)
        site_fn, site_b = view, (ok_src[0].b if ok_src else None)
        if not ok_src:
            # `self.timeout.iter().for_each(|s| task.add_hook_timeout(.., s))`: the call sits in a closure of init
            for gq, gcl in m.fns.items():
                if not gq.startswith(f.q + "::{closure"):
                    continue
                for c in gcl.calls():
                    if not c.q.endswith("Task::add_hook_timeout") or len(c.args) < 3 or pa.root(gcl, c.args[2])[:2] != ("param", 2):
                        continue
                    if [g_ for g_ in conditions_of(m, gcl, c.b, mode="value") if not g_.neutral]:
                        continue
                    for fe in view.calls():
                        if not re.search(r"Iterator(>)?::for_each(::<.*>)?$", fe.q) or len(fe.args) < 2:
                            continue
                        k = pa.root(view, fe.args[1])
                        if not (k[0] == "closure" and k[1] == gq):
                            continue
                        r = pa.root(view, fe.args[0])
                        for _ in range(5):
                            if r[0] == "call" and re.search(r"::(iter|into_iter|deref|as_slice)$", r[1]) and not r[3]:
                                cc = Call(view, r[2])
                                r = pa.root(view, cc.args[0]) if cc.args else ("?",)
                                continue
                            break
                        if r[0] == "param" and r[1] == 1 and tuple(r[3])[-1:] == ("timeout",):
                            ok_src.append(fe)
                            site_b = fe.b
        n += 1
        if not ok_src:
            cx.ob("C19.R7", "%s:registered" % f.short, False, "`%s` hands the elements of `self.timeout` to add_hook_timeout - no such call found: the rules declared on the node never reach the tick" % f.short, f.loc())
            continue
        c = ok_src[0]
        conds = sorted({gdesc(m, g) for g in conditions_of(m, view, site_b, mode="value") if not g.neutral})
        extra = [d for d in conds if not any(re.search(p_, d) for p_ in allowed)]
        cx.ob("C19.R7", "%s:registered" % f.short, not extra,
              "`%s` registers every element of `self.timeout` whatever else is true of the node (conditions: %s)%s" % (f.short, conds, "" if not extra else " - the registration also depends on %s" % extra), c.loc)
    cx.floor("C19.R7", 2)
