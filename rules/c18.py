"""C18 Channels deliver exactly the messages their filters select.

R1 the five matchers are compiled from options.{type,state,tag,key,uses} into tuple slots 0..4
and is_match applies slot i to e.{type,state,tag|model.tag,key,uses}; the result is the
conjunction of all five; R2 all four registration closures deliver only under is_match (shared
with C09.R1); R3 the four handler tables are maps keyed by the channel id (replace on
re-register) and Emitter::remove removes only that key from the four maps; R4 the default
options are "*" five times. Not decided: globset semantics for classes / alternations."""
import re

from vlib.model import Anchor, Call, Prov, guards_of, discr_variants, bool_target, root_str, short_name

CH = "acts::export::channel::"
EM = "acts::event::emitter::Emitter::"
FIELDS = ["type", "state", "tag", "key", "uses"]


def run(cx):
    cx.rule("C18.R1", "E3", "matcher i is compiled from options field i and applied to message field i (tag also to model.tag); all five must match")
    cx.rule("C18.R2", "K1", "all four channel closures deliver only under is_match, with the channel's own matchers")
    cx.rule("C18.R3", "E3", "handlers are stored under the channel id (replace on re-register); closing removes exactly that id from the four tables")
    cx.rule("C18.R4", "consts", "default options select everything: five times \"*\"")
    cx.rule("C18.R6", "K3", "closing or unsubscribing a channel removes nothing from the store: the redelivery record of a message is shared by every channel that selected it (= C09.R7, who may delete message rows)")
    from rules.c09 import who_deletes_messages
    who_deletes_messages(cx, "C18.R6")
    cx.rule("C18.R5", "K1", "recipients are resolved when a message is dispatched, not when it is emitted: the spawned dispatch task captures the id-keyed handler table itself (behind its lock) and reads it there, so a close / unsubscribe / re-registration that has returned is seen by every later dispatch")
    r5_dispatch_time(cx)
    m = cx.m
    pa = Prov(m, "alias")
    pv = Prov(m, "value")
    # ---- R1: compile ------------------------------------------------------------------------------
    f = m.one("^" + re.escape(CH) + r"Channel::channel$")
    lit = [(bi, si, s) for bi, b in enumerate(f.blocks) for si, s in enumerate(b["s"]) if s[0] == "A" and s[2][0] == "agg" and s[2][1].endswith("channel::Channel")]
    if len(lit) != 1:
        raise Anchor("Channel::channel: expected one Channel literal")
    ops = dict(zip(lit[0][2][2][3], lit[0][2][2][4]))
    glob = pa.root(f, ops["glob"])
    # the five matchers live in a tuple or in a small struct: a slot is a position either way
    name2idx = {}
    if glob[0] == "tuple":
        slots = f.blocks[glob[1]]["s"][glob[2]][2][1]
    elif glob[0] == "agg" and glob[3] >= 0:
        rv_ = f.blocks[glob[3]]["s"][glob[4]][2]
        slots = rv_[4]
        name2idx = {n_: str(i_) for i_, n_ in enumerate(rv_[3])}
    else:
        slots = []
    compiled = []
    for o in slots:
        r = pv.root(f, o)
        src = None
        n = 0
        while r[0] == "call" and n < 6:
            c = Call(f, r[2])
            if r[1].endswith("Glob::new"):
                a = pv.root(f, c.args[0])
                if a[0] == "param" and a[2] == "options" and a[3]:
                    src = a[3][-1]
                break
            r = pv.root(f, c.args[0]) if c.args else ("x",)
            n += 1
        compiled.append(src)
    for i, name in enumerate(FIELDS):
        cx.ob("C18.R1", "compile:slot%d" % i, i < len(compiled) and compiled[i] == name,
              "matcher slot %d is compiled from `options.%s` (found %s)" % (i, name, compiled[i] if i < len(compiled) else None), f.loc(lit[0][0]))
    # ---- R1: apply --------------------------------------------------------------------------------
    g = m.one("^" + re.escape(CH) + r"is_match$")
    calls = [c for c in g.calls() if c.q.endswith("GlobMatcher::is_match")]
    applied = []
    for c in calls:
        slot = pa.root(g, c.args[0])
        sidx = slot[3][-1] if slot[0] == "param" and slot[3] else None
        sidx = name2idx.get(sidx, sidx)
        v = pv.root(g, c.args[1])
        n = 0
        while v[0] == "call" and n < 5:
            cc = Call(g, v[2])
            if cc.args and not v[3]:
                v = pv.root(g, cc.args[0])
                n += 1
            else:
                break
        fld = ".".join(v[3]) if v[0] in ("param", "call") and v[3] else root_str(v)
        applied.append((sidx, fld, c))
    want = {"0": {"type"}, "1": {"state"}, "2": {"tag", "model.tag"}, "3": {"key"}, "4": {"uses"}}
    got = {}
    for sidx, fld, c in applied:
        got.setdefault(sidx, set()).add(fld)
    for sidx, flds in want.items():
        cx.ob("C18.R1", "apply:slot%s" % sidx, got.get(sidx) == flds, "matcher slot %s is applied to message field(s) %s (found %s)" % (sidx, sorted(flds), sorted(got.get(sidx, []))), g.loc())
    # conjunction: is_match returns true only if every slot matched (tag: either of the two)
    cx.ob("C18.R1", "apply:conjunction", _conjunction(g, applied), "is_match is true exactly when all five slots match (the tag slot on either tag)", g.loc())
    cx.floor("C18.R1", 11)

    # ---- R2 ---------------------------------------------------------------------------------------
    for kind in ("message", "start", "complete", "error"):
        h = m.one(r"^acts::export::channel::Channel::on_%s::\{closure#0\}$" % kind)
        mc = [c for c in h.calls() if c.q == CH + "is_match"]
        user = [c for c in h.calls() if c.kind == "generic" and (c.callee.get("decl") or "").endswith("Fn::call")]
        ok = len(mc) == 1 and len(user) == 1
        if ok:
            gl = pa.root(h, mc[0].args[0])
            ok = gl[0] == "upvar" and gl[1] == "glob" and any(x.root == ("call", mc[0].q, mc[0].b, ()) and x.truth is True for x in guards_of(m, h, user[0].b, mode="alias"))
        cx.ob("C18.R2", "on_%s:filtered" % kind, ok, "on_%s delivers only when `is_match(&glob, e)` holds for the channel's own matchers" % kind, h.loc())
        # the closure is registered under the channel's id
        p = m.one(r"^acts::export::channel::Channel::on_%s$" % kind)
        reg = [c for c in p.calls() if c.q == EM + "on_%s" % kind]
        okk = len(reg) == 1 and pv.root(p, reg[0].args[1])[0] == "param" and pv.root(p, reg[0].args[1])[3][-1:] == ("chan_id",)
        cx.ob("C18.R2", "on_%s:registered-under-id" % kind, okk, "on_%s registers its closure under `self.chan_id`" % kind, reg[0].loc if reg else p.loc())
    cx.floor("C18.R2", 8)

    # ---- R3 ---------------------------------------------------------------------------------------
    tables = {"message": "messages", "start": "starts", "complete": "completes", "error": "errors"}
    ftys = m.struct_field_types("acts::event::emitter::Emitter")
    for kind, fld in tables.items():
        e = m.one("^" + re.escape(EM) + r"on_%s$" % kind)
        ty = ftys.get(fld, "")
        is_map = "HashMap<std::string::String" in ty or "HashMap<String" in ty
        ent = [c for c in e.calls() if re.search(r"HashMap::<.*>::entry$", c.q)]
        keyed = False
        if ent:
            k = pv.root(e, ent[0].args[1])
            keyed = k[0] == "param" and k[2] == "key"
            recv = pa.root(e, ent[0].args[0])
        modify = any(re.search(r"Entry::<.*>::and_modify$", c.q) for c in e.calls()) and any(re.search(r"Entry::<.*>::or_insert", c.q) for c in e.calls())
        writes = [c for c in e.calls() if re.search(r"RwLock::<T>::write$", c.q)]
        right_table = bool(writes) and pa.root(e, writes[0].args[0])[3][-1:] == (fld,)
        cx.ob("C18.R3", "table:%s" % fld, is_map and keyed and modify and right_table,
              "`Emitter::on_%s` stores the handler in the map `%s` under the given key, replacing an existing entry" % (kind, fld), e.loc(), type=ty[:90])
    r = m.one("^" + re.escape(EM) + r"remove$")
    removed = {}
    for c in r.calls():
        if re.search(r"HashMap::<.*>::remove$", c.q):
            k = pv.root(r, c.args[1])
            recv = pa.root(r, c.args[0])
            # receiver: a guard of self.<table>.write()
            tbl = _table_of(r, pa, recv)
            removed[tbl] = k[0] == "param" and k[2] == "key"
    cx.ob("C18.R3", "remove:four-tables", set(removed) == set(tables.values()) and all(removed.values()),
          "Emitter::remove removes the given key from exactly the four handler maps (found %s)" % removed, r.loc())
    clears = [c.q.split("::")[-1] for c in r.calls() if re.search(r"HashMap::<.*>::(clear|retain|drain)$", c.q)]
    cx.ob("C18.R3", "remove:only-that-key", not clears, "Emitter::remove never clears or filters a whole table (found %s)" % (clears or "none"), r.loc())
    cl = m.one("^" + re.escape(CH) + r"Channel::close$")
    rc = [c for c in cl.calls() if c.q == EM + "remove"]
    cx.ob("C18.R3", "close:own-id", len(rc) == 1 and pv.root(cl, rc[0].args[1])[3][-1:] == ("chan_id",), "Channel::close removes the channel's own id", cl.loc())
    cx.floor("C18.R3", 7)

    # ---- R4 ---------------------------------------------------------------------------------------
    d = m.one(r"^<acts::export::channel::ChannelOptions as std::default::Default>::default$")
    lit = [(bi, si, s) for bi, b in enumerate(d.blocks) for si, s in enumerate(b["s"]) if s[0] == "A" and s[2][0] == "agg" and s[2][1].endswith("ChannelOptions")]
    if len(lit) != 1:
        raise Anchor("ChannelOptions::default: expected one literal")
    ops = dict(zip(lit[0][2][2][3], lit[0][2][2][4]))
    for name in FIELDS:
        r_ = pv.root(d, ops[name])
        cx.ob("C18.R4", "default:%s" % name, r_[0] == "const" and r_[1].get("str") == "*", "the default `%s` pattern is \"*\" (found %s)" % (name, root_str(r_)), d.loc())
    r_ = pv.root(d, ops["ack"])
    cx.ob("C18.R4", "default:ack", r_[0] == "const" and r_[1].get("int") == "0", "a default channel does not require acknowledgements", d.loc())
    cx.floor("C18.R4", 6)


def _table_of(f, pa, r):
    n = 0
    while n < 6:
        if r[0] == "param" and r[3]:
            return r[3][-1]
        if r[0] in ("call",):
            c = Call(f, r[2])
            if c.args:
                r = pa.root(f, c.args[0])
                n += 1
                continue
        if r[0] == "local":
            ds = [d for d in f.defs().get(r[1], []) if d[2] == "call"]
            if ds and ds[0][3][2]:
                r = pa.root(f, ds[0][3][2][0])
                n += 1
                continue
        break
    return None


def _conjunction(g, applied):
    """the function returns true only on a path where every slot's is_match was true (for the tag
    slot: one of its two calls). Checked by reachability: from the false edge of any slot's last
    call no `_0 = true` is reachable."""
    from vlib.model import Prov
    true_blocks = [bi for bi, b in enumerate(g.blocks) for s in b["s"] if s[0] == "A" and s[1][0] == 0 and not s[1][1] and s[2][0] == "use" and s[2][1][0] == "k" and s[2][1][1].get("int") == "1"]
    # the last conjunct may be returned directly (`_0 = matcher.is_match(..)`)
    direct = [c for _, _, c in applied if c.dest[0] == 0 and not c.dest[1]]
    true_blocks += [c.b for c in direct]
    if not true_blocks:
        return False
    by_slot = {}
    for sidx, fld, c in applied:
        by_slot.setdefault(sidx, []).append(c)
    if set(by_slot) != {"0", "1", "2", "3", "4"}:
        return False
    for sidx, cs in by_slot.items():
        # the false edge of the *last* call of the slot (tag: second alternative)
        last = max(cs, key=lambda c: len(g.dom_chain(c.b)))
        if last in direct:
            continue
        sb = last.target
        n = 0
        while g.blocks[sb]["t"][0] == "goto" and n < 4:
            sb = g.blocks[sb]["t"][1]
            n += 1
        if g.blocks[sb]["t"][0] != "switch":
            return False
        fb = bool_target(g, sb, False)
        if any(t in g.reach_from([fb]) for t in true_blocks):
            return False
        # the first alternative of the tag slot: its false edge must lead to the second call
        for c in cs:
            if c is not last:
                sb2 = c.target
                while g.blocks[sb2]["t"][0] == "goto":
                    sb2 = g.blocks[sb2]["t"][1]
                if g.blocks[sb2]["t"][0] != "switch" or last.b not in g.reach_from([bool_target(g, sb2, False)]):
                    return False
    return True



KEYED_TABLE = re.compile(r"RwLock(::)?<std::collections::HashMap<std::string::String, std::sync::Arc<dyn ")


def r5_dispatch_time(cx):
    m = cx.m
    pa = Prov(m, "alias")
    n = 0
    for f in m.fns.values():
        if not f.q.startswith(EM + "emit_") or "::{" in f.q:
            continue
        # does this emit function touch an id-keyed handler table?
        touches = [c for c in f.calls() if KEYED_TABLE.search(c.full or "")]
        cors = [(bi, s) for bi, b in enumerate(f.blocks) for s in b["s"] if s[0] == "A" and s[2][0] == "coroutine"]
        keyed = bool(touches)
        for bi, s in cors:
            g = m.fns.get(s[2][1])
            if g is not None and any(KEYED_TABLE.search(c.full or "") for c in g.calls()):
                keyed = True
        if not keyed:
            continue
        n += 1
        name = f.q.split("::")[-1]
        # (a) the emit function itself does not read the table (no snapshot at emit time)
        early = [c for c in f.calls() if re.search(r"RwLock::<.*>::(read|write|try_read)$", c.q) and KEYED_TABLE.search(c.full or "")]
        # (b) a spawned coroutine captures the Arc<RwLock<HashMap<..>>> and reads it inside, and invokes the handlers from that guard
        inside = False
        for bi, s in cors:
            g = m.fns.get(s[2][1])
            if g is None:
                continue
            caps = [f.local_ty(o[1][0]) for o in s[2][2] if o[0] != "k"]
            cap_lock = any(KEYED_TABLE.search(str(t)) for t in caps)
            reads = [c for c in g.calls() if re.search(r"RwLock::<.*>::read$", c.q) and KEYED_TABLE.search(c.full or "") and (pa.root(g, c.args[0])[0] == "upvar" or pa.root(g, c.args[0])[:2] == ("param", 1))]
            inside = inside or (cap_lock and bool(reads))
        cx.ob("C18.R5", "dispatch-time:%s" % name, inside and not early,
              "`%s` hands the handler table itself to the spawned dispatch task, which reads it under the lock when it runs%s" % (
                  name, "" if (inside and not early) else " - but the table is read %s: a channel closed / replaced after the emit still gets (or its successor misses) the message" % (
                      "when the message is emitted (line %s) and the copy is captured" % early[0].line if early else "nowhere inside the dispatch task")), f.loc())
    if n == 0:
        raise Anchor("no emit function over an id-keyed handler table found")
    cx.floor("C18.R5", 4)
