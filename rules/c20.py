"""C20 Models survive serialisation; deployment and tree building are faithful.

R1 serde symmetry of every derived struct / enum of crate acts (the model closure Workflow, Step,
Branch, Act, Catch, Timeout, the hook and node types stored with tasks, the row types): the names
written equal the names accepted and map to the same field / variant; hand-written impls delegate
both ways to the same representation; R2 builder coverage (every container of the model is
consumed by a loop that builds each element unconditionally) and every static node goes through
NodeTree::make (duplicate id -> error); R3 deploy validates first, stores the YAML of its
argument, sets ver = stored ver + 1 / 1, registers one event per `on` entry; R4 starting an unknown
model propagates the lookup error. Not decided: serde_yaml scalar fidelity, unicode."""
import re

from vlib.model import Anchor, Call, Prov, guards_of, discr_variants, root_str, short_name, ITER_NEXT
from vlib.enumfn import EnumEval, Undecided
from vlib import mapper as M
from vlib.discard import classify
from rules.c16 import natural_loops
from rules.c12 import _display_strings

MODEL_STRUCTS = ["acts::model::workflow::Workflow", "acts::model::step::Step", "acts::model::branch::Branch", "acts::model::act::Act",
                 "acts::model::act::catch::Catch", "acts::model::act::timeout::Timeout"]


def run(cx):
    cx.rule("C20.R1", "derive", "serde symmetry: for every derived struct the written names are the declared fields, the accepted names are the written names and lead to the same field; enums use one name per variant both ways; manual impls delegate symmetrically")
    cx.rule("C20.R2", "K12", "tree building consumes every container of the model with an unconditional loop and creates every static node through NodeTree::make (duplicate ids are errors)")
    cx.rule("C20.R3", "E3", "deploy: valid() first; the stored text is the YAML of the argument; ver = stored ver + 1 on update, 1 on create; one event per `on` entry")
    cx.rule("C20.R4", "K6", "starting an unknown model fails with the lookup error")
    r1(cx)
    r2(cx, "C20.R2")
    r3(cx)
    r4(cx)
    cx.rule("C20.R5", "K1", "sibling cursors of the tree builders: every chain of children (one container, one handler) gets a cursor of its own that starts at the parent node and is reset exactly once per chain")
    r5_cursors(cx, "C20.R5")


# ------------------------------------------------------------------------------------------------
def derived_pairs(m):
    """{adt path (crate relative): {'ser': fn, 'visit_str': fn, 'visit_map': fn}} for derived impls"""
    out = {}
    for f in m.fns.values():
        if f.crate != "acts":
            continue
        mm = re.match(r"^(.*)::_::<impl (?:acts::)?config::_::_serde::Serialize for (.*)>::serialize$", f.q)
        if mm:
            out.setdefault(mm.group(2), {})["ser"] = f
            continue
        mm = re.match(r"^<(.*)::_::<impl (?:acts::)?config::_::_serde::Deserialize<'de> for (.*)>::deserialize::__FieldVisitor as .*Visitor<'de>>::visit_str$", f.q)
        if mm:
            out.setdefault(mm.group(2), {})["visit_str"] = f
            continue
        mm = re.match(r"^<(.*)::_::<impl (?:acts::)?config::_::_serde::Deserialize<'de> for (.*)>::deserialize::__Visitor(?:<'de>)? as .*Visitor<'de>>::visit_(map|enum)$", f.q)
        if mm:
            out.setdefault(mm.group(2), {})["visit_" + mm.group(3)] = f
    return out


def r1(cx):
    m = cx.m
    pv = Prov(m, "value")
    pa = Prov(m, "alias")
    ev = EnumEval(m)
    pairs = derived_pairs(m)
    structs = 0
    enums = 0
    for adt in sorted(pairs):
        d = pairs[adt]
        a = m.adts.get(adt) or m.adts.get("acts::" + adt)
        if a is None or "ser" not in d or "visit_str" not in d:
            continue
        short = adt.split("::")[-1]
        if a["kind"] == "Struct" and "visit_map" in d:
            fields = a["variants"][0]["fields"]
            if not fields or fields[0].isdigit():
                continue
            structs += 1
            ser = d["ser"]
            written = []
            skipped_uncond = []
            for c in ser.calls():
                decl = c.callee.get("decl") or ""
                if decl.endswith("SerializeStruct::serialize_field") or decl.endswith("SerializeMap::serialize_entry"):
                    name = M.const_str(pv.root(ser, c.args[1]))
                    r = pv.root(ser, c.args[2])
                    fld = r[3][0] if (r[0] == "param" and r[1] == 1 and r[3]) else None
                    written.append((name, fld))
                elif decl.endswith("SerializeStruct::skip_field"):
                    name = M.const_str(pv.root(ser, c.args[1]))
                    # a skip that is not the alternative of a serialize_field of the same name is unconditional
                    skipped_uncond.append(name)
            wnames = [n for n, _ in written]
            # a conditional skip (`skip_serializing_if`) loses nothing only if the predicate holds exactly for the value the
            # reader puts back for a missing key (the type's default): `Option::is_none`, `is_empty` of a string / list /
            # map, `Value::is_null`. Any other predicate (a helper that also calls `{}` or `""` empty for a field whose
            # default is null) makes write-then-read return a different model
            cond_bad = []
            for c in ser.calls():
                decl = c.callee.get("decl") or ""
                if not decl.endswith("SerializeStruct::skip_field"):
                    continue
                name = M.const_str(pv.root(ser, c.args[1]))
                if name not in wnames:
                    continue
                pred = None
                for g_ in guards_of(m, ser, c.b, mode="alias"):
                    if g_.neutral:
                        continue
                    if g_.root[0] == "call":
                        pred = (g_.root[1], g_.truth)
                        break
                okp = pred is not None and pred[1] is True and bool(re.search(
                    r"^std::option::Option::<T>::is_none$|^std::string::String::is_empty$|^std::vec::Vec::<T, A>::is_empty$|^std::str::<impl str>::is_empty$"
                    r"|^acts::model::vars::Vars::is_empty$|^std::collections::(HashMap|BTreeMap|HashSet|BTreeSet)::<.*>::is_empty$|^serde_json::Value::is_null$|^serde_json::value::Value::is_null$", pred[0]))
                if not okp:
                    cond_bad.append("%s (skipped when `%s` is %s)" % (name, short_name(pred[0]) if pred else "?", pred[1] if pred else "?"))
            skipped_uncond = [n for n in skipped_uncond if n not in wnames] + cond_bad
            ok_ser = all(n is not None and f_ is not None for n, f_ in written) and sorted(f_ for _, f_ in written) == sorted(fields) and not skipped_uncond
            # the accepted names
            accepted = {}
            idx_of = {}
            for name, fld in written:
                if name is None:
                    continue
                try:
                    v = ev.call(d["visit_str"], [("opaque",), ("str", name)])
                except Undecided as e:
                    raise Anchor("cannot evaluate the field visitor of %s: %s" % (adt, e))
                if v[0] == "agg" and v[2] == "Ok" and v[3] and v[3][0][0] == "enum":
                    accepted[name] = v[3][0][2]
            # visit_map: which __fieldN ends in which struct field
            vm = d["visit_map"]
            aggs = [(bi, si, s) for bi, b in enumerate(vm.blocks) for si, s in enumerate(b["s"]) if s[0] == "A" and s[2][0] == "agg" and s[2][2] == short and s[2][3] == fields]
            field_of_idx = {}
            if aggs:
                ops = dict(zip(aggs[0][2][2][3], aggs[0][2][2][4]))
                for fld, op in ops.items():
                    r = pa.root(vm, op)
                    nm = r[2] if r[0] == "local" else (vm.names.get(op[1][0]) if op[0] in ("c", "m") else None)
                    if nm is None and op[0] in ("c", "m"):
                        # moved through a temporary: follow single-def uses
                        x = op[1][0]
                        for _ in range(4):
                            ds = [q for q in vm.defs().get(x, []) if q[2] == "assign" and q[3][0] == "use" and q[3][1][0] != "k"]
                            if len(ds) == 1:
                                x = ds[0][3][1][1][0]
                                if vm.names.get(x):
                                    nm = vm.names[x]
                                    break
                            else:
                                break
                    if nm and nm.startswith("__field"):
                        field_of_idx[nm] = fld
            ok_de = True
            detail = {}
            for name, fld in written:
                var = accepted.get(name)
                back = field_of_idx.get(var)
                if back != fld:
                    ok_de = False
                    detail[name or "?"] = "written from `%s`, read into `%s` (via %s)" % (fld, back, var)
            cx.ob("C20.R1", "struct:%s:written" % adt, ok_ser,
                  "%s serialises exactly its %d declared fields, each under one literal name, none skipped unconditionally%s" % (
                      short, len(fields), "" if ok_ser else " (written: %s; unconditional skips: %s)" % (written, skipped_uncond)), ser.loc())
            cx.ob("C20.R1", "struct:%s:accepted" % adt, ok_de and len(accepted) == len(written),
                  "%s accepts every name it writes and stores it in the field it was written from" % short, vm.loc(), **detail)
        elif a["kind"] == "Enum":
            ser = d["ser"]
            table = {}
            for c in ser.calls():
                decl = c.callee.get("decl") or ""
                mm = re.search(r"Serializer::serialize_(unit|newtype|tuple|struct)_variant$", decl)
                if mm:
                    idx = pv.root(ser, c.args[2])
                    name = M.const_str(pv.root(ser, c.args[3]))
                    vs = None
                    for g in guards_of(m, ser, c.b, mode="alias"):
                        if g.root[0] == "discr" and g.root[1][0] == "param" and g.root[1][1] == 1:
                            vs = discr_variants(m, g)
                    if vs and len(vs) == 1:
                        table[list(vs)[0]] = (int(idx[1]["int"]) if idx[0] == "const" and "int" in idx[1] else None, name)
            if not table:
                continue
            enums += 1
            variants = [v["name"] for v in a["variants"]]
            ok = sorted(table) == sorted(variants)
            detail = {}
            for var, (idx, name) in table.items():
                try:
                    v = ev.call(d["visit_str"], [("opaque",), ("str", name)])
                except Undecided as e:
                    raise Anchor("cannot evaluate the variant visitor of %s: %s" % (adt, e))
                got = v[3][0][2] if (v[0] == "agg" and v[2] == "Ok" and v[3] and v[3][0][0] == "enum") else None
                if got != "__field%s" % idx or variants.index(var) != idx:
                    ok = False
                    detail[var] = "written as %r / index %s, name read back as %s" % (name, idx, got)
            cx.ob("C20.R1", "enum:%s" % adt, ok, "%s writes one name per variant and reads each name back as the same variant" % short, ser.loc(), **detail)
    for s_ in MODEL_STRUCTS:
        rel = s_.split("::", 1)[1]
        key = s_ if s_ in pairs else rel
        cx.ob("C20.R1", "model-type:%s" % rel, key in pairs and {"ser", "visit_str", "visit_map"} <= set(pairs[key]), "the model type %s has derived Serialize and Deserialize that were analysed" % rel, None)
    # hand-written impls
    vs = m.one(r"^<acts::model::vars::Vars as (acts::config::_::_)?serde::Serialize>::serialize$")
    vd = m.one(r"^<acts::model::vars::Vars as (acts::config::_::_)?serde::Deserialize<'de>>::deserialize$")
    ser_inner = any((c.callee.get("decl") or "").endswith("Serialize::serialize") and pv.root(vs, c.args[0])[3][-1:] == ("inner",) for c in vs.calls())
    de_inner = any((c.callee.get("decl") or "").endswith("Deserialize::deserialize") and "serde_json::Map" in c.full for c in vd.calls())
    lit = [s for b in vd.blocks for s in b["s"] if s[0] == "A" and s[2][0] == "agg" and s[2][1].endswith("vars::Vars")]
    cx.ob("C20.R1", "manual:Vars", ser_inner and de_inner and len(lit) == 1, "Vars serialises its inner map and deserialises a map into `inner`", vs.loc())
    # TimeoutLimit: written with Display, read with parse; the unit letters agree
    ts = m.one(r"^<acts::model::act::timeout::TimeoutLimit as (acts::config::_::_)?serde::Serialize>::serialize$")
    uses_display = any(c.q.endswith("ToString>::to_string") or (c.callee.get("decl") or "") == "std::string::ToString::to_string" for c in ts.calls())
    tv = m.find(r"TimeoutVisitor as .*Visitor<'_>>::visit_str$")
    uses_parse = bool(tv) and any(c.q.endswith("TimeoutLimit::parse") for c in tv[0].calls())
    disp = m.one(r"^<acts::model::act::timeout::TimeoutLimit as std::fmt::Display>::fmt$")
    UNIT = "acts::model::act::timeout::TimeoutUnit"
    letters = _unit_letters(m, disp, UNIT)
    parse = m.one(r"timeout::TimeoutUnit::parse$")
    ok = uses_display and uses_parse and len(letters) == 4
    for var, s_ in letters.items():
        try:
            v = ev.call(parse, [("str", s_)])
            back = v[3][0][2] if (v[0] == "agg" and v[2] == "Ok") else None
        except Undecided:
            back = None
        ok = ok and back == var
    cx.ob("C20.R1", "manual:TimeoutLimit", ok, "TimeoutLimit is written with Display and read with parse, and the unit letters %s round-trip" % letters, ts.loc())
    if structs < 20:
        cx.undecide("C20.R1", "only %d derived structs analysed (floor 20)" % structs)
    cx.note("C20.R1: %d derived structs and %d derived enums analysed" % (structs, enums))
    cx.floor("C20.R1", 50)


def _unit_letters(m, f, adt):
    byd = {str(d): n for n, d in m.variants(adt)}
    for bi, b in enumerate(f.blocks):
        t = b["t"]
        if t[0] == "switch" and len(t[2]) >= 3:
            out = {}
            for v, tb in t[2] + [["otherwise", t[3]]]:
                for s in f.blocks[tb]["s"]:
                    if s[0] == "A" and s[2][0] == "use" and s[2][1][0] == "k" and "str" in s[2][1][1] and v in byd:
                        out[byd[v]] = s[2][1][1]["str"]
            if out:
                return out
    return {}


# ------------------------------------------------------------------------------------------------
CONTAINERS = {
    # builder function -> [(container path on the model parameter, element handler regex)]
    "build_workflow": [(("steps",), r"build::build_step$")],
    "build_step": [(("branches",), r"build::build_branch$"), (("acts",), r"build::build_act$"), (("catches", "steps"), r"build::build_step$"), (("timeout", "steps"), r"build::build_step$")],
    "build_branch": [(("steps",), r"build::build_step$")],
    "build_act": [(("catches", "steps"), r"build::build_step$"), (("timeout", "steps"), r"build::build_step$")],
}


def r2(cx, rule):
    m = cx.m
    pa = Prov(m, "alias")
    for fname, conts in CONTAINERS.items():
        f = m.one(r"^acts::scheduler::tree::build::%s$" % fname)
        loops = natural_loops(f)
        for path, handler in conts:
            # loops whose iterator source is <param1>.path[0] (outer) / element.path[1] (inner)
            calls = [c for c in f.calls() if re.search(handler, c.q)]
            hit = None
            for c in calls:
                elem = pa.root(f, c.args[0])
                chain = []
                r = elem
                ok = True
                adaptors_all = []
                for _ in range(3):
                    if r[0] != "call" or not ITER_NEXT.search(r[1]):
                        break
                    src = pa.iter_source(f, ("call", r[1], r[2], ()))
                    if src is None:
                        ok = False
                        break
                    adaptors_all += src[2]
                    s0 = src[0]
                    if s0[0] == "param" and s0[1] == 1:
                        chain = list(s0[3]) + chain
                        r = None
                        break
                    if s0[0] == "call" and ITER_NEXT.search(s0[1]):
                        chain = [x for x in s0[3] if not x.startswith("@") and not x.isdigit()] + chain
                        r = ("call", s0[1], s0[2], ())
                        continue
                    ok = False
                    break
                if ok and tuple(chain) == path:
                    hit = (c, adaptors_all)
            key = "%s:%s" % (fname, ".".join(path))
            if hit is None:
                cx.ob(rule, key, False, "`%s` builds every element of `%s` (no loop over it calling %s found)" % (fname, ".".join(path), handler.split("::")[-1].rstrip("$")), f.loc())
                continue
            c, adaptors = hit
            plain = all(re.search(r"::iter(_mut)?$|::into_iter$|Deref(Mut)?>::deref(_mut)?$", a) for a in adaptors)
            # guards of the handler call: only loop conditions, `?`, and is_empty tests of the same containers
            from vlib.model import conditions_of
            gs = [g for g in conditions_of(m, f, c.b, mode="alias") if not g.neutral]
            extra = []
            for g in gs:
                r = g.root
                if r[0] == "discr" and r[1][0] == "call" and (ITER_NEXT.search(r[1][1]) or re.search(r"Try>::branch$", r[1][1])):
                    continue
                if r[0] == "call" and r[1].endswith("::is_empty") and g.truth is False:
                    who = pa.root(f, Call(f, r[2]).args[0])
                    if who[0] == "param" and who[1] == 1 and who[3] and who[3][-1] == path[0]:
                        continue
                from rules.c01 import gdesc
                extra.append(gdesc(m, g))
            cx.ob(rule, key, plain and not extra,
                  "`%s` builds every element of `%s`: plain loop, handler called unconditionally%s" % (
                      fname, ".".join(path), "" if (plain and not extra) else " - but the loop is reached only under %s / adaptors %s" % (extra, adaptors)), c.loc)
    # sequence flag of step acts, linking
    bs = m.one(r"^acts::scheduler::tree::build::build_step$")
    ba = [c for c in bs.calls() if c.q.endswith("build::build_act")]
    ok = len(ba) == 1 and pa.root(bs, ba[0].args[-1])[0] == "const" and pa.root(bs, ba[0].args[-1])[1].get("int") == "1"
    cx.ob(rule, "build_step:acts-sequence", ok, "the acts of a step are built as a sequence (is_sequence = true)", ba[0].loc if ba else bs.loc())
    # every builder makes its node through NodeTree::make and propagates its error
    for fname in CONTAINERS:
        f = m.one(r"^acts::scheduler::tree::build::%s$" % fname)
        mk = [c for c in f.calls() if c.q.endswith("NodeTree::make")]
        ok = len(mk) == 1 and classify(m, f, mk[0])[0] == "PROPAGATED"
        cx.ob(rule, "%s:make" % fname, ok, "`%s` creates its node with NodeTree::make and propagates the duplicate-id error" % fname, mk[0].loc if mk else f.loc())
    mk = m.one(r"^acts::scheduler::tree::node_tree::NodeTree::make$")
    ins = [c for c in mk.calls() if re.search(r"HashMap::<.*>::insert$", c.q)]
    dup = False
    for c in ins:
        for g in guards_of(m, mk, c.b, mode="alias"):
            if g.root[0] == "call" and g.root[1].endswith("::contains_key") and g.truth is False:
                dup = True
    cx.ob(rule, "make:duplicate-id", dup and any(k == "ERR_NEW" for _, k in mk.exit_defs()), "NodeTree::make inserts a node only if its id is new and returns an error otherwise", mk.loc())
    ld = m.one(r"^acts::scheduler::tree::node_tree::NodeTree::load$")
    onmk = [c for c in ld.calls() if c.q.endswith("NodeTree::make")]
    bw = [c for c in ld.calls() if c.q.endswith("build::build_workflow")]
    ok = len(onmk) == 1 and len(bw) == 1 and classify(m, ld, onmk[0])[0] == "PROPAGATED" and classify(m, ld, bw[0])[0] == "PROPAGATED"
    cx.ob(rule, "load:on-acts", ok, "NodeTree::load registers the ids of the `on` acts through make as well and builds the workflow, propagating both errors", ld.loc())
    cx.floor(rule, 15)


# ------------------------------------------------------------------------------------------------
def r3(cx):
    m = cx.m
    pa = Prov(m, "alias")
    pv = Prov(m, "value")
    f = m.one(r"^acts::export::executor::model_executor::ModelExecutor::deploy$")
    va = [c for c in f.calls() if c.q.endswith("Workflow::valid")]
    sd = [c for c in f.calls() if c.q.endswith("Store::deploy")]
    de = [c for c in f.calls() if c.q.endswith("ModelExecutor::deploy_event")]
    ok = len(va) == 1 and len(sd) == 1 and len(de) == 1 and f.dominates(va[0].b, sd[0].b) and classify(m, f, va[0])[0] == "PROPAGATED" and f.dominates(sd[0].b, de[0].b)
    # what valid() checks is what start() builds: it loads the model into a NodeTree with the builder itself (every node
    # the execution tree will contain goes through NodeTree::make, which refuses a duplicate id). A hand-written walk over
    # the model can forget a container the builder visits (the handlers of an act)
    vf = m.one(r"^acts::model::workflow::Workflow::valid$")
    from vlib.ts import Summaries
    sm_ = cx.shared("summaries", lambda: Summaries(m))
    reach_build = vf.q in sm_.reaches({q for q in m.fns if q.endswith("tree::build::build_workflow")})
    cx.ob("C20.R3", "valid:builds-the-tree", reach_build, "Workflow::valid checks the model by building its node tree (reaches tree::build::build_workflow)", vf.loc())
    cx.ob("C20.R3", "deploy:validate-first", ok, "deploy validates the model (error propagated) before anything is stored, then registers the events", f.loc())
    same = len(sd) == 1 and pa.root(f, sd[0].args[1])[:2] == ("param", 2) and len(va) == 1 and pa.root(f, va[0].args[0])[:2] == ("param", 2)
    cx.ob("C20.R3", "deploy:same-model", same, "the model validated is the model stored (the argument)", f.loc())
    g = m.one(r"^acts::store::store::Store::deploy$")
    lits = [(bi, si, s) for bi, b in enumerate(g.blocks) for si, s in enumerate(b["s"]) if s[0] == "A" and s[2][0] == "agg" and s[2][1].endswith("data::model::Model") and s[2][3]]
    fnd = [c for c in g.calls() if c.kind == "virtual" and c.q.endswith("DbCollection::find")]
    if len(lits) != 2 or len(fnd) != 1:
        raise Anchor("Store::deploy: expected two Model literals and one find")
    for bi, si, s in lits:
        ops = dict(zip(s[2][3], s[2][4]))
        arm = None
        for gd in guards_of(m, g, bi, mode="alias"):
            if gd.root[0] == "discr" and gd.root[1] == ("call", fnd[0].q, fnd[0].b, ()):
                arm = discr_variants(m, gd)
        arm = "update" if arm == {"Ok"} else ("create" if arm == {"Err"} else "?")
        text = pv.root(g, ops["data"])
        ok_text = False
        r = text
        if r[0] == "call" and r[1].endswith("serde_yaml::to_string") or (r[0] == "call" and "serde_yaml" in r[1] and r[1].endswith("to_string")):
            a = pa.root(g, Call(g, r[2]).args[0])
            ok_text = a[0] == "param" and a[1] == 2
        cx.ob("C20.R3", "store:%s:text" % arm, ok_text, "on %s the stored text is `serde_yaml::to_string(model)` of the argument (found %s)" % (arm, root_str(text)), g.loc(bi))
        ver = pv.root(g, ops["ver"])
        if arm == "update":
            v = ver[1] if ver[0] == "field" else ver
            okv = v[0] == "bin" and v[1].startswith("Add") and _is_stored_ver(v[2]) and v[3][0] == "const" and v[3][1].get("int") == "1"
            cx.ob("C20.R3", "store:update:ver", okv, "on update the version is the stored version + 1 (found %s)" % root_str(ver), g.loc(bi))
            idr = pv.root(g, ops["id"])
            cx.ob("C20.R3", "store:update:id", idr[0] == "param" and idr[1] == 2 and idr[3] == ("id",), "the row keeps the model's id", g.loc(bi))
        else:
            cx.ob("C20.R3", "store:create:ver", ver[0] == "const" and ver[1].get("int") == "1", "on create the version is 1 (found %s)" % root_str(ver), g.loc(bi))
    # deploy_event: one event per `on` entry, create or update
    h = m.one(r"^acts::export::executor::model_executor::ModelExecutor::deploy_event$")
    cr = [c for c in h.calls() if c.kind == "virtual" and c.q.endswith("DbCollection::create")]
    up = [c for c in h.calls() if c.kind == "virtual" and c.q.endswith("DbCollection::update")]
    fe = [c for c in h.calls() if c.q.endswith("Event::from_act")]
    ok = len(cr) == 1 and len(up) == 1 and len(fe) == 2
    walked_via_model = False
    if ok:
        for c in fe:
            a = pa.root(h, c.args[0])
            src = pa.iter_source(h, ("call", a[1], a[2], ())) if a[0] == "call" else None
            # the list walked is a parameter: the `on` list itself (`acts`), or the model whose `.on` is walked
            flds_ = [x for x in (src[0][3] if src is not None and src[0][0] == "param" else ()) if x != "*"]
            direct_ = src is not None and src[0][0] == "param" and not flds_
            via_model_ = src is not None and src[0][0] == "param" and flds_ == ["on"]
            ok = ok and (direct_ or via_model_) and all(re.search(r"::iter$|::into_iter$|Deref>::deref$", x) for x in src[2])
            walked_via_model = via_model_
    cx.ob("C20.R3", "events:one-per-on", ok, "deploy_event walks every `on` act (plain loop) and creates or updates one event row built from it", h.loc())
    arg = pa.root(f, de[0].args[1]) if de else None
    flds_ = [x for x in (arg[3] if arg is not None and arg[0] == "param" else ()) if x != "*"]
    from_on = arg is not None and arg[0] == "param" and arg[1] == 2 and (flds_ == ["on"] or (not flds_ and ok and walked_via_model))
    cx.ob("C20.R3", "events:from-on", from_on, "the acts registered are the model's `on` list", de[0].loc if de else f.loc())
    cx.floor("C20.R3", 10)


def _is_stored_ver(r):
    if r[0] == "field":
        return r[2][-1:] == ("ver",)
    return r[0] in ("call", "local") and r[3][-1:] == ("ver",)


def r4(cx):
    m = cx.m
    g = m.one(r"^acts::export::executor::process_executor::ProcessExecutor::start$")
    fc = [c for c in g.calls() if c.kind == "virtual" and c.q.endswith("DbCollection::find")]
    ok = len(fc) == 1 and classify(m, g, fc[0])[0] == "PROPAGATED"
    st = [c for c in g.calls() if c.q.endswith("Runtime::start")]
    cx.ob("C20.R4", "start:unknown-model", ok and len(st) == 1 and g.dominates(fc[0].b, st[0].b), "ProcessExecutor::start looks the model up first and propagates the lookup error; nothing is started for an unknown id", fc[0].loc if fc else g.loc())
    wf = [c for c in g.calls() if c.q.endswith("ModelInfo::workflow")]
    cx.ob("C20.R4", "start:parse-error", len(wf) == 1 and classify(m, g, wf[0])[0] == "PROPAGATED", "a stored model that cannot be parsed fails the start as well", wf[0].loc if wf else g.loc())
    cx.floor("C20.R4", 2)



def cursor_local(f, op):
    """the local a `&mut cursor` argument borrows from (through re-borrows), or None"""
    if op[0] == "k":
        return None
    loc, proj = op[1]
    for _ in range(8):
        ds = [d for d in f.defs().get(loc, [])]
        refs = []
        for bi, b in enumerate(f.blocks):
            for st in b["s"]:
                if st[0] == "A" and st[1][0] == loc and not st[1][1] and st[2][0] == "ref":
                    refs.append(st[2][1])
        if len(refs) == 1 and len(ds) == 1:
            loc = refs[0][0]
            continue
        return loc
    return None


def r5_cursors(cx, rule):
    m = cx.m
    pa = Prov(m, "alias")
    n = 0
    for fname in ("build_workflow", "build_step", "build_branch", "build_act"):
        f = m.one(r"^acts::scheduler::tree::build::%s$" % fname)
        loops = natural_loops(f)
        mk = [c for c in f.calls() if c.q.endswith("NodeTree::make")]
        if len(mk) != 1:
            raise Anchor("%s: node creation not found" % fname)
        sites = [c for c in f.calls() if re.search(r"build::build_(step|act|branch)$", c.q)]
        by_cursor = {}
        for c in sites:
            L = cursor_local(f, c.args[3])
            by_cursor.setdefault(L, []).append(c)
        for L, cs in sorted(by_cursor.items(), key=lambda x: x[1][0].b):
            name = f.names.get(L, "_%s" % L)
            key = "%s:%s" % (fname, short_name(cs[0].q).split("::")[-1] + "@" + _container_of(f, pa, cs[0]))
            n += 1
            if len(cs) != 1:
                cx.ob(rule, key + ":own-cursor", False, "`%s`: the cursor `%s` is shared by %d child-builder calls (%s): the first child of the later chain is linked behind the last child of the earlier one instead of hanging below the node" % (
                    fname, name, len(cs), ", ".join("%s line %s" % (short_name(c.q), c.line) for c in cs)), cs[0].loc)
                continue
            c = cs[0]
            inits = [d for d in f.defs().get(L, []) if d[2] in ("call", "assign")]
            ok_init = False
            ib = None
            if len(inits) == 1 and inits[0][2] == "call":
                ib = inits[0][0]
                ic = Call(f, ib)
                if (ic.callee.get("decl") or "") == "std::clone::Clone::clone":
                    from rules.c04 import _is_node
                    ok_init = _is_node(f, pa, pa.root(f, ic.args[0]), mk[0]) or _via_clone_of_node(f, pa, ic, mk[0])
            cx.ob(rule, key + ":starts-at-node", ok_init, "`%s`: the cursor `%s` of this chain starts as the node being built (so the first child differs in level and is attached below it)" % (fname, name), c.loc)
            enclosing = sorted([(len(body), h, body) for h, body in loops if c.b in body])
            if not enclosing or ib is None:
                cx.ob(rule, key + ":reset-per-chain", False, "`%s`: the child-builder call is not in a loop / the cursor has no single initialisation" % fname, c.loc)
                continue
            inner = enclosing[0][2]
            outer = [x[2] for x in enclosing[1:]]
            ok = ib not in inner and all(ib in body for body in outer)
            cx.ob(rule, key + ":reset-per-chain", ok,
                  "`%s`: the cursor `%s` is initialised outside the loop over the chain's elements (siblings are linked) and inside every enclosing loop (each handler starts a chain of its own)%s" % (
                      fname, name, "" if ok else " - found: init %s the element loop, inside %d of %d enclosing loops" % ("inside" if ib in inner else "outside", sum(1 for b in outer if ib in b), len(outer))), c.loc)
    cx.floor(rule, 8)


def _via_clone_of_node(f, pa, ic, mk):
    """`let parent = node.clone(); let mut prev = node.clone()` - a clone of a clone of the node"""
    r = pa.root(f, ic.args[0])
    for _ in range(3):
        if r[0] == "call" and r[2] == mk.b:
            return True
        if r[0] == "call":
            c = Call(f, r[2])
            if c.args:
                r = pa.root(f, c.args[0])
                continue
        return False
    return False


def _container_of(f, pa, c):
    r = pa.root(f, c.args[0])
    parts = []
    for _ in range(3):
        if r[0] == "call" and ITER_NEXT.search(r[1]):
            src = pa.iter_source(f, ("call", r[1], r[2], ()))
            if src is None:
                break
            s0 = src[0]
            parts = [x for x in s0[3] if isinstance(x, str) and not x.startswith("@") and not x.isdigit() and x != "*"] + parts
            if s0[0] == "call" and ITER_NEXT.search(s0[1]):
                r = ("call", s0[1], s0[2], ())
                continue
        break
    return ".".join(parts) or "?"
