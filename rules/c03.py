"""C03 Hierarchical completion and exactly one terminal event per process.

R1 who writes the process state / emits process events; R2 start / error / complete events of the
on_proc handler are mutually exclusive and selected by the right state classes; R3 the process
state mirrors the root task; R4 a parent completes itself only under an all-children-terminal
fact; R5 (TS) no second emission of a task in the same terminal state; R6 bulk closing is
transitive. Not decided: event multiplicity over whole histories, "nothing can later be acted on"."""
import json
import os
import re

from vlib.model import Anchor, Call, Prov, guards_of, discr_variants, root_str, short_name, ITER_NEXT
from vlib import ts as T
from vlib.valreach import blocks_by_value, values_reaching
from vlib.enumfn import TASK_STATE
from rules.c02 import engine, TASK, ARC_TASK_IMPL, site_key, is_dead

PROC = "acts::scheduler::process::process::Process"


EMIT_MESSAGE = re.compile(r"^acts::event::emitter::Emitter::emit_message$")


class Emit2Mon(T.Monitor):
    """(last emitted state, last state a message was built for, is the current state one the analysed code wrote itself?)
    since the last write on the tracked task.
    The message of a task event is built at the END of the on_task handler, from the state the task has THEN: a hook that
    runs in between (a catch without steps reviews and completes the task, a setup act answers it) emits the task again from
    inside, and the outer handler then builds a second message for the same final state. Messages are only compared while
    the state is one the explored path wrote itself (`exact`): a state re-chosen for an un-inlined call is a guess, and two
    messages for a guessed state are not evidence."""
    init = (None, None, True)
    reentrant = False   # follow re-entrant endings (only where the re-entrant path was shown to be feasible: review)

    def on_event(self, mon, ev):
        if not isinstance(mon, tuple):
            mon = (mon, None, True)
        if len(mon) == 2:
            mon = (mon[0], mon[1], True)
        em, msg, exact = mon
        if ev[0] == "WRITE":
            return (None, None, True)
        if ev[0] == "HAVOC_TO":
            # a call that re-enters the protocol (a resumed child finishing inside its exec reviews its parent) ended the
            # tracked task: by C01.R6 whoever ends a task reports it in that state before returning, so it HAS been
            # emitted (and its message built) in ev[2]
            if self.reentrant and ev[2] in T.TERMINAL:
                return ("re:" + ev[2], None, False)
            return (em, None, False)
        if ev[0] == "ENV":
            return (em, None, False)
        if ev[0] == "EMIT_EVENT":
            s = ev[1]
            if s in ("Running", "Pending"):
                return mon
            if em == s:
                return ("VIOL", (s, ev[2], ev[3]))
            if em == "re:" + s:
                return ("VIOL", ("re:" + s, ev[2], ev[3]))
            return (s, msg, exact)
        if ev[0] == "EFFECT" and EMIT_MESSAGE.search(ev[1]) and len(ev) > 6 and ev[6]:
            s = ev[5]
            if not exact:
                return mon
            if msg == s:
                return ("VIOL", ("msg:" + s, ev[2], ev[3]))
            return (em, s, exact)
        return mon


def run(cx):
    cx.rule("C03.R1", "K3", "the process state is written and process events are emitted only from the named sites, each under its state class")
    cx.rule("C03.R2", "K9", "on_proc: start, error and complete events lie on exclusive paths selected by {running,pending} / error / terminal-non-error")
    cx.rule("C03.R3", "E3", "the process state is a copy of the root task's state")
    cx.rule("C03.R4", "K1", "a composite task writes Completed on itself only under an all-children-terminal fact (counting idiom, `all`, or no child nodes)")
    cx.rule("C03.R5", "TS", "a task is emitted at most once per terminal (and per message-bearing created) state")
    cx.rule("C03.R7", "K1", "a scan that resumes a sleeping child inline (child.exec) ends its invocation there: the resumed child may finish inside the call and its own ending already reviews the parent, closes it and schedules the successor - going on would schedule the successor a second time")
    r7(cx)
    cx.rule("C03.R6", "struct", "bulk closing (abort / undo) visits descendants transitively and covers every open state class")
    cx.rule("C03.R8", "K1", "a client action that ends an act ends what is open beneath it: an arm of Task::update that writes a terminal state on the act itself also closes (or refuses for) the act's open descendants - a generating act (parallel / sequence / block) answered directly is otherwise closed over the acts it generated, and the process reports a non-error ending with those acts still open")
    r8_action_closes_children(cx)
    r1(cx)
    r2(cx)
    r3(cx)
    r4(cx)
    r5(cx, "C03.R5")
    r6(cx)


def r1(cx):
    m = cx.m
    pa = Prov(m, "alias")
    _, tables = engine(cx)
    # writers of the process state cell
    writers = {}
    for f in m.fns.values():
        if f.crate != "acts" or "process::Process" not in (f.impl_self or ""):
            continue
        for c in f.calls():
            if re.search(r"^std::sync::RwLock::<T>::write$", c.q):
                r = pa.root(f, c.args[0])
                if r[0] == "param" and r[3] and r[3][-1] == "state":
                    writers[f.q] = c
    allowed = {PROC + "::set_state", PROC + "::set_pure_state"}
    for q, c in sorted(writers.items()):
        cx.ob("C03.R1", "cell-writer:%s" % short_name(q), q in allowed, "`%s` takes the write lock of the process state" % short_name(q), c.loc)
    # callers
    exp_callers = {
        PROC + "::set_state": {"Task::set_state", "Context::emit_task", "Process::start", "Process::set_err"},
        PROC + "::set_pure_state": {"Store::load", "Store::load_proc", "Cache::push_task_pri"},
        PROC + "::set_err": {"Context::emit_task"},
    }
    for q, names in exp_callers.items():
        for c in m.callers().get(q, []):
            if is_dead(m, c.fn):
                continue
            cx.ob("C03.R1", "caller:%s<-%s" % (short_name(q), c.fn.short), c.fn.short in names,
                  "`%s` is called from `%s` (allowed: %s)" % (short_name(q), c.fn.short, sorted(names)), c.loc)
    # emit_proc_event: two sites in Context::emit_task
    f = m.one(r"^acts::scheduler::context::Context::emit_task$")
    sites = m.callers().get(T.Q_EMIT_PROC, [])
    for c in sites:
        cx.ob("C03.R1", "proc-event:%s" % c.fn.short, c.fn.q == f.q, "process events are emitted only from Context::emit_task (found in `%s`)" % c.fn.short, c.loc)
    classes = []
    for c in [c for c in sites if c.fn.q == f.q]:
        wf = False
        pre = set(T.STATES)
        for g in guards_of(m, f, c.b, mode="alias"):
            r = g.root
            if r[0] == "discr" and r[2] and r[2].endswith("NodeContent"):
                wf = discr_variants(m, g) == {"Workflow"}
            if r[0] == "call" and T.STATE_PRED.match(r[1]) and g.truth is not None:
                sr = pa.root(f, Call(f, r[2]).args[0])
                if sr[0] == "call" and sr[1] == T.Q_STATE:
                    who = pa.root(f, Call(f, sr[2]).args[0])
                    if who[0] == "param" and who[1] == 2:
                        pre &= {s for s in T.STATES if tables[T.STATE_PRED.match(r[1]).group(1)][s] == g.truth}
        cls = "created" if pre == T.CREATED else ("terminal" if pre == T.TERMINAL else sorted(pre))
        classes.append(cls)
        cx.ob("C03.R1", "proc-event:guard:%s" % cls, wf and cls in ("created", "terminal"),
              "a process event is emitted only for the workflow (root) task and only when it is created or terminal (found class %s)" % cls, c.loc)
    cx.ob("C03.R1", "proc-event:both", sorted(map(str, classes)) == ["created", "terminal"],
          "there is exactly one process-event site for the root's creation and one for its ending (found %s)" % classes, f.loc())
    cx.floor("C03.R1", 12)


def r2(cx):
    m = cx.m
    eng, tables = engine(cx)
    # the closure registered with Scheduler::on_proc
    pa = Prov(m, "alias")
    found = []
    for c in m.callers().get("acts::scheduler::scheduler::Scheduler::on_proc", []):
        r = pa.root(c.fn, c.args[1])
        if r[0] == "closure" and r[1] in m.fns:
            found.append(m.fns[r[1]])
    if len(found) != 1:
        raise Anchor("expected one on_proc handler, found %d" % len(found))
    f = found[0]
    byv = blocks_by_value(m, tables, f, r"process::Process::state$", TASK_STATE)
    want = {
        "emit_start_event": {"Running", "Pending"},
        "emit_error": {"Error"},
        "emit_complete_event": T.TERMINAL - {"Error"},
    }
    sites = {}
    for name in want:
        cs = [c for c in f.calls() if c.q == "acts::event::emitter::Emitter::%s" % name]
        if len(cs) != 1:
            cx.ob("C03.R2", "event:%s" % name, False, "the on_proc handler calls `%s` exactly once (found %d)" % (name, len(cs)), f.loc())
            continue
        c = cs[0]
        sites[name] = c
        got = values_reaching(byv, c.b)
        cx.ob("C03.R2", "event:%s:states" % name, got == want[name],
              "`%s` is delivered exactly when the process state is in %s (found %s)" % (name, sorted(want[name]), sorted(got)), c.loc)
    names = sorted(sites)
    for i in range(len(names)):
        for j in range(i + 1, len(names)):
            a, b = sites[names[i]], sites[names[j]]
            excl = not f.can_reach(a.b, b.b) and not f.can_reach(b.b, a.b)
            cx.ob("C03.R2", "exclusive:%s/%s" % (names[i], names[j]), excl,
                  "no path of the handler passes both `%s` and `%s`" % (names[i], names[j]), a.loc)
    # the message describes the root task of that process
    for name, c in sites.items():
        msg = pa.root(f, c.args[1])
        ok = msg[0] == "call" and msg[1].endswith("Task::create_message")
        if ok:
            who = pa.root(f, Call(f, msg[2]).args[0])
            ok = who[0] == "call" and who[1].endswith("Process::root")
        cx.ob("C03.R2", "event:%s:message" % name, ok, "the event message is built from the process's root task", c.loc)
    cx.floor("C03.R2", 9)


def r3(cx):
    m = cx.m
    pa = Prov(m, "alias")
    f = m.one(r"^acts::scheduler::context::Context::emit_task$")
    for c in f.calls():
        if c.q == PROC + "::set_state":
            v = pa.root(f, c.args[1])
            if v[0] == "agg":
                # the start case: Running, only while the process is still None
                gs = [g for g in guards_of(m, f, c.b, mode="alias") if not g.neutral]
                none = any(g.root[0] == "call" and g.root[1].endswith("TaskState::is_none") and g.truth is True for g in gs)
                cx.ob("C03.R3", "mirror:start", v[2] == "Running" and none, "at root creation the process becomes Running only if it is still None", c.loc)
            else:
                ok = v[0] == "call" and v[1] == T.Q_STATE and pa.root(f, Call(f, v[2]).args[0]) == ("param", 2, f.names.get(2), ())
                cx.ob("C03.R3", "mirror:end", ok, "at root end the process state is set to `task.state()` of the emitted (root) task", c.loc, value=root_str(v))
    g = m.one(r"^%s::set_state$" % TASK)
    cs = [c for c in g.calls() if c.q == PROC + "::set_state"]
    ok = False
    loc = g.loc()
    if len(cs) == 1:
        c = cs[0]
        loc = c.loc
        v = Prov(m, "value").root(g, c.args[1])
        is_param = v[0] == "param" and v[1] == 2
        gs = guards_of(m, g, c.b, mode="value")
        term = any(x.root[0] == "call" and x.root[1].endswith("TaskState::is_completed") and x.truth is True for x in gs)
        root_tid = any(x.root[0] == "call" and re.search(r"PartialEq.*>::eq$", x.root[1]) and x.truth is True and
                       any((a[0] == "k" and (a[1].get("named") or "").endswith("TASK_ROOT_TID")) or
                           _mentions_named(g, Prov(m, "value").root(g, a), "TASK_ROOT_TID") for a in Call(g, x.root[2]).args) for x in gs)
        ok = is_param and term and root_tid
    cx.ob("C03.R3", "mirror:forward", ok, "Task::set_state forwards a terminal state of the root task (`$`) to the process", loc)
    cx.floor("C03.R3", 3)


def _mentions_named(f, r, name):
    return r[0] == "const" and (r[1].get("named") or "").endswith(name)


def load_exc(name):
    p = os.path.join(os.path.dirname(os.path.dirname(os.path.abspath(__file__))), "tables", name)
    if not os.path.exists(p):
        return {}
    return {e["key"]: e["reason"] for e in json.load(open(p))["exceptions"]}


def r4(cx):
    m = cx.m
    pa = Prov(m, "alias")
    exc = load_exc("c03_exceptions.json")
    kinds = ["step::Step", "act::Act", "branch::Branch", "workflow::Workflow"]
    n = 0
    for f in m.fns.values():
        if not re.search(r"impl acts::scheduler::ActTask for acts::model::(%s)>::(init|run|next|review|error)$" % "|".join(kinds), f.q):
            continue
        for c in f.calls():
            if c.q != T.Q_SET_STATE:
                continue
            v = pa.root(f, c.args[1])
            if v[0] != "agg" or v[2] != "Completed":
                continue
            recv = pa.root(f, c.args[0])
            if not (recv[0] == "call" and recv[1] == T.Q_CTX_TASK):
                continue
            n += 1
            key = "%s:Completed" % f.short
            fact, how = all_children_fact(m, pa, f, c, recv)
            if fact:
                cx.ob("C03.R4", key, True, "`%s` completes its task under the fact: %s" % (f.short, how), c.loc)
                from rules.common import wait_set, wait_combos
                ws_ = wait_set(m, pa, f, c, recv)
                if ws_ is not None and wait_combos(ws_)[1]:
                    held = all(ws_["done"](dict({"ended": False, "hook": False, "beneath": True}, **cmb)) == {False} for cmb in wait_combos(ws_)[1])
                    cx.ob("C03.R4", "%s:left-behind-steps" % f.short, held,
                          "`%s` waits for EVERY open task beneath it - but it tells the newest step from older step tasks and does not wait for those: a step task that a backward `next` jump left in Running stays open beneath the completed workflow" % f.short, c.loc)
            elif key in exc:
                cx.ob("C03.R4", key, True, "`%s` completes its task without a local all-children fact; accepted exception: %s" % (f.short, exc[key]), c.loc)
            else:
                cx.ob("C03.R4", key, False, "`%s` writes Completed on its own task without an all-children-terminal fact (%s)" % (f.short, how), c.loc)
    cx.floor("C03.R4", 8)


def all_children_fact(m, pa, f, c, recv):
    gs = [g for g in guards_of(m, f, c.b, mode="alias") if not g.neutral]
    # idiom (i): count == children.len(), every increment under p(state(elem))
    for g in gs:
        r = g.root
        if r[0] == "bin" and r[1] == "Eq" and g.truth is True:
            a, b = r[2], r[3]
            for cnt, ln in ((a, b), (b, a)):
                if cnt[0] == "local" and ln[0] == "call" and ln[1].endswith("::len"):
                    vec = pa.root(f, Call(f, ln[2]).args[0])
                    if not (vec[0] == "call" and vec[1].endswith("Task::children")):
                        continue
                    owner = pa.root(f, Call(f, vec[2]).args[0])
                    if owner != recv:
                        continue
                    ok, pred = _count_idiom(m, pa, f, cnt[1], vec)
                    if ok:
                        return True, "count == children().len() with every increment under `%s` of the loop element" % pred
                    return False, "a counter is compared with children().len() but %s" % pred
    # idiom (ii): a quantifier over the tasks beneath it holds at the write: `children().iter().all(|t| ended(t) || hook(t))`,
    # `!proc.tasks().iter().any(|t| !ended(t) && !hook(t) && t.parent() is self)`. Safety reading: a task beneath it that has
    # not ended and is not a lifecycle-hook act (the property leaves those out) must keep the write from happening
    from rules.common import wait_set
    ws = wait_set(m, pa, f, c, recv)
    if ws is not None:
        from rules.common import wait_combos
        waited, left = wait_combos(ws)
        ok = all(ws["done"](dict({"ended": False, "hook": False, "beneath": True}, **cmb)) == {False} for cmb in waited)
        if ok:
            return True, "%s holds at the write: an open non-hook %s beneath it keeps it from completing" % (
                ws["how"], "task" if not left else "act, or the newest step,")
        return False, "%s is tested, but the write can happen while a task beneath it that has not ended (and is no hook act) exists" % ws["how"]
    # idiom (iii): the node has no child nodes
    for g in gs:
        r = g.root
        if r[0] == "call" and r[1].endswith("::is_empty") and g.truth is True:
            v = pa.root(f, Call(f, r[2]).args[0])
            if v[0] == "call" and v[1].endswith("Node::children"):
                return True, "the node declares no children (`node.children().is_empty()`)"
    return False, "no counting idiom, no `all`, no empty-children test dominates the write"


def _closure_state_pred(m, g):
    """the closure is `|t| t.state().<pred>()`: straight-line, its value is the predicate of the state of its argument"""
    pa = Prov(m, "alias")
    if any(b["t"][0] == "switch" for b in g.blocks):
        return None
    pred = None
    for c in g.calls():
        mt = T.STATE_PRED.match(c.q)
        if mt:
            if pred is not None:
                return None
            sr = pa.root(g, c.args[0])
            if not (sr[0] == "call" and sr[1] == T.Q_STATE):
                return None
            el = pa.root(g, Call(g, sr[2]).args[0])
            if el[:2] != ("param", 2):
                return None
            if not (c.dest[0] == 0 and not c.dest[1]):
                return None
            pred = mt.group(1)
        elif c.q == T.Q_STATE or c.q.endswith("Deref>::deref"):
            continue
        else:
            return None
    return pred


def _count_idiom(m, pa, f, loc, vec):
    preds = set()
    incs = 0
    for d in f.defs().get(loc, []):
        bi, si, kind, payload = d
        if kind != "assign":
            return False, "the counter has a non-assignment definition"
        rv = payload
        if rv[0] == "use" and rv[1][0] == "k":
            if rv[1][1].get("int") != "0":
                return False, "the counter does not start at 0"
            continue
        if rv[0] == "use":
            # count = move (_tmp.0) where _tmp = Add(count, 1)
            src = pa.root(f, rv[1])
            if src[0] == "field":
                src = src[1]
            if not (src[0] == "bin" and src[1] in ("Add", "AddWithOverflow")):
                return False, "the counter is assigned from something else than count + 1"
            incs += 1
            ok = False
            for g in guards_of(m, f, bi, mode="alias"):
                r = g.root
                if r[0] == "call" and T.STATE_PRED.match(r[1]) and g.truth is True:
                    p = T.STATE_PRED.match(r[1]).group(1)
                    sr = pa.root(f, Call(f, r[2]).args[0])
                    if sr[0] == "call" and sr[1] == T.Q_STATE:
                        elem = pa.root(f, Call(f, sr[2]).args[0])
                        it = pa.iter_source(f, ("call", elem[1], elem[2], ())) if elem[0] == "call" else None
                        if it is not None and it[0] == vec and p in ("is_completed", "is_success"):
                            preds.add(p)
                            ok = True
            if not ok:
                return False, "an increment of the counter is not guarded by is_completed/is_success of the loop element"
    if incs == 0:
        return False, "the counter is never incremented"
    return True, "/".join(sorted(preds))


def r5(cx, rule):
    m = cx.m
    eng, tables = engine(cx)
    entries = [
        (m.one(r"^%s::exec$" % TASK), "exec", {}),
        (m.one(r"^%s::update$" % TASK), "update", {}),
        (m.one(ARC_TASK_IMPL + r"review$"), "review", {"ctxok": False}),
        (m.one(ARC_TASK_IMPL + r"next$"), "next", {"ctxok": False}),
        (m.one(ARC_TASK_IMPL + r"error$"), "error", {"ctxok": False}),
        (m.one(r"^acts::scheduler::context::Context::emit_error$"), "emit_error", {"tp": (), "cp": (1,)}),
    ]
    # entries that work on a task which has already been announced in its entry state (a client
    # action on an open act, the timeout tick): a further emission in that same state is a duplicate
    entries.append((m.one(r"^%s::run_hooks_timeout$" % TASK), "tick", {"announced": True}))
    entries[1] = (entries[1][0], "update", {"announced": True})
    dups = {}
    msgdups = {}
    redups = {}
    runs = 0
    eng.set_effects(EMIT_MESSAGE, [q for q in m.fns if EMIT_MESSAGE.search(q)])
    try:
        for f, label, kw in entries:
            kw = dict(kw)
            announced = kw.pop("announced", False)
            for s0 in T.STATES:
                mon0 = Emit2Mon()
                mon0.reentrant = (label == "review")
                if announced and s0 not in ("Running", "Pending", "None"):
                    mon0.init = (s0, s0, True)
                if label == "exec" and s0 in T.TERMINAL:
                    # a task that is popped from the queue in a terminal state was closed by someone else while it waited:
                    # whoever closed it has reported that ending (C01.R6) - a further emission in that state is a duplicate
                    mon0.init = (s0, s0, True)
                viol = eng.run(f, s0, mon0, **kw)
                runs += 1
                for payload, path in viol:
                    s, q, b = payload
                    if s.startswith("msg:"):
                        msgdups.setdefault(s[4:], (label, s0, path, q, b))
                    elif s.startswith("re:"):
                        redups.setdefault((q, b), (label, s0, path, set()))[3].add(s[3:])
                    else:
                        dups.setdefault((q, b, s), (label, s0, path))
    finally:
        eng.set_effects(None)
    if msgdups:
        s, (label, s0, path, q, b) = sorted(msgdups.items())[0]
        cx.ob(rule, "double-message", False,
              "two messages are built for the task in one state (%s) with no state change in between (entry %s from %s): the on_task handler builds the message after the hooks ran, from the state the task has then - a hook that ended the task has already reported that ending from inside" % (
                  "/".join(sorted(msgdups)), label, s0), m.fns[q].loc(b), path=[T.fmt_event(m, e) for e in path[-9:]])
    for (q, b), (label, s0, path, states) in sorted(redups.items()):
        em = [e for e in path if e[0] == "EMIT"]
        who = short_name(em[-1][2]) if em else short_name(q)
        cx.ob(rule, "double-emit-reentrant:%s" % who, False,
              "`%s` emits the task after a call that re-entered the protocol had already ended AND reported it (states %s): a child resumed inline finishes inside its exec, its ending reviews this parent, completes and emits it; back in the outer review the state differs from the one read before, and it is emitted again" % (
                  who, "/".join(sorted(states))), m.fns[q].loc(b), path=[T.fmt_event(m, e) for e in path[-7:]])
    if not msgdups:
        cx.ob(rule, "double-message:none", True, "no path builds two messages for the tracked task in one state (%d runs)" % runs, entries[0][0].loc())
    sites = set()
    for (q, b, s), (label, s0, path) in sorted(dups.items(), key=lambda kv: (kv[0][0], kv[0][1], kv[0][2])):
        # the site of the *first* emission identifies the pair best: last two EMIT_EVENTs of the path
        ems = [e for e in path if e[0] == "EMIT_EVENT"]
        first = ems[-2] if len(ems) >= 2 else None
        outer = _outer_emit(path)
        key = "double-emit:%s:%s" % (outer, s)
        if key in sites:
            continue
        sites.add(key)
        cx.ob(rule, key, False,
              "the task is emitted twice in state %s with no state change in between (entry %s from %s): the client sees two `%s` messages / the process two terminal events" % (
                  s, label, s0, s.lower()), m.fns[q].loc(b), path=[T.fmt_event(m, e) for e in path[-7:]])
    if not dups:
        cx.ob(rule, "double-emit:none", True, "no path of exec/update/review/next/error/emit_error (13 entry states each, %d runs) emits the tracked task twice in one state" % runs, entries[0][0].loc())
    for label in ("exec", "update"):
        cx.ob(rule, "explored:%s" % label, True, "%s explored from all 13 entry states with the double-emission monitor" % label, None)


def _outer_emit(path):
    """key of a double emission: the two functions that asked for the emission (Context::emit_task callers)"""
    ems = [e for e in path if e[0] in ("EMIT", "EMIT_EVENT")]
    names = []
    for e in ems[-4:]:
        if e[0] == "EMIT":
            names.append(short_name(e[2]))
    if len(names) >= 2:
        return "%s+%s" % (names[-2], names[-1])
    return "+".join(short_name(e[2]) for e in ems[-2:])


def r6(cx):
    m = cx.m
    pa = Prov(m, "alias")
    _, tables = engine(cx)
    for name in ("abort_task", "undo_task"):
        f = m.one(r"^acts::scheduler::context::Context::%s$" % name)
        # does the function feed children() of visited tasks back into the set it iterates (work-list),
        # or call itself / scan proc.tasks()?
        recursive = any(c.q == f.q for c in f.calls())
        scans_all = any(c.q.endswith("Process::tasks") for c in f.calls())
        worklist = False
        child_calls = [c for c in f.calls() if c.q.endswith("Task::children")]
        for c in child_calls:
            recv = pa.root(f, c.args[0])
            it = pa.iter_source(f, ("call", recv[1], recv[2], ())) if recv[0] == "call" else None
            if it is not None:
                # children() of a loop element whose loop iterates a local that is re-assigned from collected children
                src = it[0]
                if src[0] == "local" and src[4] > 1:
                    worklist = True
        transitive = recursive or scans_all or worklist
        cx.ob("C03.R6", "%s:transitive" % name, transitive,
              "`%s` reaches every descendant of the tasks it closes (recursion, work-list or full scan)" % name, f.loc(),
              **({} if transitive else {"consequence": "grand-children of an aborted ancestor (e.g. an interrupted act under a running step of a sibling branch) stay open after the process reported its terminal event"}))
        # state classes closed for descendants
        closed = set()
        unguarded = False
        for c in f.calls():
            if c.q == T.Q_SET_STATE:
                recv = pa.root(f, c.args[0])
                if recv[0] == "call" and T.ITER_NEXT.search(recv[1]) if hasattr(T, "ITER_NEXT") else False:
                    pass
        from vlib.model import ITER_NEXT
        for c in f.calls():
            if c.q != T.Q_SET_STATE:
                continue
            recv = pa.root(f, c.args[0])
            if not (recv[0] == "call" and ITER_NEXT.search(recv[1])):
                continue
            it = pa.iter_source(f, ("call", recv[1], recv[2], ()))
            if it is None:
                continue
            src = it[0]
            is_desc = (src[0] == "call" and src[1].endswith("Task::children")) or src[0] == "local"
            if not is_desc:
                continue
            from rules.c02 import gw_prestate
            closed |= gw_prestate(m, tables, pa, c, recv)
        # the descent itself must not depend on the state of the visited task: open tasks hang below
        # finished ones (the next act of a sequence has the finished act as its predecessor)
        for dname, dcalls in (("children", [c for c in f.calls() if c.q.endswith("Task::children")]),):
            for c in dcalls:
                recv = pa.root(f, c.args[0])
                if not (recv[0] == "call" and ITER_NEXT.search(recv[1])):
                    continue
                bad = []
                for g in guards_of(m, f, c.b, mode="alias"):
                    r = g.root
                    if r[0] == "call" and T.STATE_PRED.match(r[1]) and g.truth is not None:
                        sr = pa.root(f, Call(f, r[2]).args[0])
                        if sr[0] == "call" and sr[1] == T.Q_STATE and pa.root(f, Call(f, sr[2]).args[0]) == recv:
                            bad.append("%s=%s" % (T.STATE_PRED.match(r[1]).group(1), g.truth))
                cx.ob("C03.R6", "%s:descent-unconditional" % name, not bad,
                      "`%s` descends into the children of every task it visits, whatever that task's state (descent guarded by %s)" % (name, bad or "nothing"), c.loc,
                      **({} if not bad else {"consequence": "a still open task below a finished one (second act of a sequence, step behind an empty step) is never reached and stays open"}))
        # None counts: a task that sched_task created and queued is not terminal, and unless it is closed here it is
        # initialised and run after the process has ended (exec only refuses closed tasks)
        open_states = set(T.STATES) - T.TERMINAL
        missing = sorted(open_states - closed)
        cx.ob("C03.R6", "%s:classes" % name, not missing,
              "`%s` closes descendants in every open state class (not closed: %s)" % (name, missing or "none"), f.loc())
    # Task::follows collects the steps a cancel has to undo: its recursion must reach through every task
    fo = m.one(r"^%s::follows$" % TASK)
    rec = [c for c in fo.calls() if c.q == fo.q]
    bad = []
    for c in rec:
        recv = pa.root(fo, c.args[0])
        for g in guards_of(m, fo, c.b, mode="alias"):
            r = g.root
            if r[0] == "call" and T.STATE_PRED.match(r[1]) and g.truth is not None:
                sr = pa.root(fo, Call(fo, r[2]).args[0])
                if sr[0] == "call" and sr[1] == T.Q_STATE and pa.root(fo, Call(fo, sr[2]).args[0]) == recv:
                    bad.append("%s=%s" % (T.STATE_PRED.match(r[1]).group(1), g.truth))
    over_children = False
    for c in rec:
        recv = pa.root(fo, c.args[0])
        src = pa.iter_source(fo, ("call", recv[1], recv[2], ())) if recv[0] == "call" else None
        over_children = over_children or (src is not None and ((src[0][0] == "call" and src[0][1].endswith("Task::children")) or src[0][0] == "local"))
    cx.ob("C03.R6", "follows:descent-unconditional", bool(rec) and over_children and not bad,
          "`Task::follows` recurses into every child that is not itself a match, whatever its state (recursion guarded by %s)" % (bad or "nothing"), rec[0].loc if rec else fo.loc())
    back_target_closed(cx, "C03.R6")
    cx.floor("C03.R6", 7)



def r7(cx):
    from rules.c01 import RESUMERS
    m = cx.m
    pa = Prov(m, "alias")
    exc = load_exc("c03_exceptions.json")
    n = 0
    from rules.c01 import resumer_view
    for pat in RESUMERS:
        f = resumer_view(m, m.one(pat))
        execs = [c for c in f.calls() if c.q == T.Q_EXEC]
        scheds = [c for c in f.calls() if c.q == T.Q_SCHED]
        closes = [c for c in f.calls() if c.q == T.Q_SET_STATE and pa.root(f, c.args[1])[0] == "agg" and pa.root(f, c.args[1])[2] == "Completed"]
        for e in execs:
            n += 1
            after = [c for c in scheds + closes if e.target is not None and f.can_reach(e.target, c.b)]
            key = "%s:successor-after-resume" % f.short
            if after and key in exc:
                cx.ob("C03.R7", key, True, "`%s`: the successor can be scheduled after an inline resume, listed exception: %s" % (f.short, exc[key]), e.loc, exception=True)
                continue
            cx.ob("C03.R7", key, not after,
                  "`%s` returns after it resumed a child inline%s" % (f.short, "" if not after else " - but goes on to %s: a child that finishes inside the resume has already had its parent reviewed, closed and the successor scheduled; the successor is started twice and the workflow can be reported completed while the second copy is open" % sorted({short_name(c.q) + " line %s" % c.line for c in after})), e.loc)
    cx.floor("C03.R7", 3)


def back_target_closed(cx, rule):
    m = cx.m
    pa = Prov(m, "alias")
    # Back: the step that is redone is not left open next to its successor. The target found by `backs` is usually a finished
    # earlier step, but it can be an ancestor of the act (an act inside a branch sent back to the step holding the branch):
    # then it is still running and nothing else closes it
    from vlib.model import conditions_of
    from rules.c01 import gdesc
    up = m.one(r"^%s::update$" % TASK)
    n_back = 0
    for rc in [c for c in up.calls() if c.q.endswith("Context::redo_task")]:
        tgt = pa.root(up, rc.args[1])
        src = tgt
        for _ in range(6):
            if src[0] == "call" and re.search(r"(Try>::branch|ok_or|ok_or_else|unwrap|expect|clone)$", src[1]):
                cc = Call(up, src[2])
                src = pa.root(up, cc.args[0]) if cc.args else ("?",)
                continue
            break
        if not (src[0] == "call" and src[1].endswith("Task::backs")):
            continue        # the Cancel arm redoes a step it required to be `is_success`
        n_back += 1
        base = {gdesc(m, g) for g in conditions_of(m, up, rc.b, mode="value") if not g.neutral}
        ok, why = False, "no write of a terminal state on the target before it is redone"
        for w in up.calls():
            if w.q != T.Q_SET_STATE or pa.root(up, w.args[0]) != tgt:
                continue
            v = pa.root(up, w.args[1])
            if not (v[0] == "agg" and v[2] in T.TERMINAL) or rc.b not in up.reach_from([w.b]):
                continue
            extra = []
            for g in conditions_of(m, up, w.b, mode="value"):
                if g.neutral or gdesc(m, g) in base:
                    continue
                r = g.root
                subject = None
                if r[0] == "call" and T.STATE_PRED.match(r[1]):
                    sr = pa.root(up, Call(up, r[2]).args[0])
                    if sr[0] == "call" and sr[1] == T.Q_STATE:
                        subject = pa.root(up, Call(up, sr[2]).args[0])
                if not (subject == tgt and T.STATE_PRED.match(r[1]).group(1) == "is_completed" and g.truth is False):
                    extra.append(gdesc(m, g))
            if not extra:
                ok, why = True, "written %s when it has not ended" % v[2]
                break
            why = "the closing write depends on %s" % extra
        cx.ob(rule, "back:target-closed", ok,
              "Back: the step task that is redone is closed first when it is still open (an enclosing step): %s" % why, rc.loc,
              **({} if ok else {"consequence": "the old task of the step stays in Running for ever beneath a workflow that completes (and a workflow that waits for everything beneath it never ends)"}))
    if n_back == 0:
        cx.undecide(rule, "the Back arm's redo_task on the result of Task::backs was not found")


def r8_action_closes_children(cx):
    m = cx.m
    pa = Prov(m, "alias")
    from rules.common import event_arm_of
    f = m.one(r"^%s::update$" % TASK)
    by_arm = {}
    for c in f.calls():
        if c.q != T.Q_SET_STATE:
            continue
        recv = pa.root(f, c.args[0])
        v = pa.root(f, c.args[1])
        if not (recv[:2] == ("param", 1) and not recv[3] and v[0] == "agg" and v[2] in T.TERMINAL and v[2] != "Error"):
            continue
        arms = event_arm_of(m, f, c.b)
        if not arms or len(arms) != 1:
            continue
        by_arm.setdefault(sorted(arms)[0], []).append((c, v[2]))
    if not by_arm:
        cx.undecide("C03.R8", "no arm of Task::update writes a terminal state on the act itself")
        return
    n = 0
    for arm, writes in sorted(by_arm.items()):
        closes = []
        for c in f.calls():
            a = event_arm_of(m, f, c.b)
            if not a or arm not in a or len(a) != 1:
                continue
            if c.q.endswith("Task::children") and pa.root(f, c.args[0])[:2] == ("param", 1):
                closes.append("children()")
            if re.search(r"Context::(abort_task|undo_task)$", c.q):
                closes.append(short_name(c.q))
        n += 1
        c0, S = writes[0]
        cx.ob("C03.R8", "act-ends-with-open-children:%s" % arm, bool(closes),
              "the %s arm writes %s on the act and %s" % (arm, S, ("closes what is beneath it (%s)" % ", ".join(sorted(set(closes)))) if closes else
                                                            "never looks at the act's children: an act that generated acts (parallel / sequence / block) is closed over them"), c0.loc)
    cx.floor("C03.R8", 4)
