"""C15 Sub-process call and return.

R1 the call: auto-complete is switched off before the child starts, the child's inputs are the
call's options plus exactly the two parent-link keys, a failing start fails the act; R2 the
return: child state -> action table, error code/message copied, options = child outputs; R3 the
return happens only on the terminal edge of the child's process event, before the child is removed,
and the calling act does not auto-complete while flagged.
Not decided: exactly-once return under racing parent activity."""
import re

from vlib.model import Anchor, Call, Prov, guards_of, discr_variants, root_str, short_name
from vlib.valreach import blocks_by_value, values_reaching
from vlib.enumfn import TASK_STATE
from vlib import ts as T
from rules.c02 import engine
from rules.c01 import gdesc


def run(cx):
    cx.rule("C15.R1", "K2", "SubflowPackage::execute: auto-complete off before start; inputs = fill_inputs(options) + the two parent-link keys; start's error is propagated")
    cx.rule("C15.R2", "K5", "return_to_act: Aborted->Abort, Skipped->Skip, Error->Error (with the child's code and message), otherwise Next; options = child outputs")
    cx.rule("C15.R3", "K1", "the return is made exactly on the terminal edge of on_proc, before the child is removed; an act with auto-complete off is not completed by Act::next")
    cx.rule("C15.R5", "K6", "a return that the calling act refuses is not just logged: on the Err edge of do_action the calling act (looked up by the action's pid / tid, still open) is failed with that error and the failure is emitted, so the act never stays open behind a finished child")
    r5_refusal(cx)
    cx.rule("C15.R4", "K1", "the returned action is not refused for its content: in the Next / Abort / Skip / Error arms Task::update refuses only for the state of a task, a missing parent, or the absence of the error-code key (which the return always sets)")
    r4_accepts(cx)
    m = cx.m
    pa = Prov(m, "alias")
    pv = Prov(m, "value")
    _, tables = engine(cx)

    # ---- R1 ---------------------------------------------------------------------------------------
    f = m.one(r"SubflowPackage as acts::package::ActPackageFn>::execute$")
    off = [c for c in f.calls() if c.q.endswith("Task::set_auto_complete") and pa.root(f, c.args[1])[0] == "const" and pa.root(f, c.args[1])[1].get("int") == "0"]
    st = [c for c in f.calls() if c.q.endswith("ProcessExecutor::start")]
    if len(st) != 1:
        raise Anchor("SubflowPackage::execute: expected one start call")
    cx.ob("C15.R1", "call:auto-complete-off", len(off) == 1 and f.dominates(off[0].b, st[0].b) and pa.root(f, off[0].args[0]) == ("call", T.Q_CTX_TASK, _ctx_task_block(f), ()),
          "the calling act switches auto-complete off before the child process is started", off[0].loc if off else f.loc())
    inputs = pa.root(f, st[0].args[2])
    fi = inputs[0] == "call" and inputs[1].endswith("convert::fill_inputs")
    src_ok = False
    if fi:
        a0 = pv.root(f, Call(f, inputs[2]).args[0])
        src_ok = a0[0] == "param" and a0[1] == 1 and a0[3][-1:] == ("options",)
    sets = [c for c in f.calls() if c.q.endswith("Vars::set") and pa.root(f, c.args[0]) == inputs]
    keys = sorted((pv.root(f, c.args[1])[1].get("named") or pv.root(f, c.args[1])[1].get("str") or "?").split("::")[-1] for c in sets if pv.root(f, c.args[1])[0] == "const")
    others = [c for c in f.calls() if re.search(r"Vars::(insert|extend|append|with|remove)$", c.q) and pa.root(f, c.args[0]) == inputs]
    cx.ob("C15.R1", "call:inputs", fi and src_ok and keys == ["ACT_USE_PARENT_PROC_ID", "ACT_USE_PARENT_TASK_ID"] and not others,
          "the child's inputs are `fill_inputs(self.options)` plus exactly the parent pid / tid keys (found keys %s)" % keys, st[0].loc)
    vals = {}
    for c in sets:
        k = pv.root(f, c.args[1])
        v = pv.root(f, c.args[2])
        vals[(k[1].get("named") or "").split("::")[-1]] = v
    pid_ok = "ACT_USE_PARENT_PROC_ID" in vals and vals["ACT_USE_PARENT_PROC_ID"][0] == "call" and vals["ACT_USE_PARENT_PROC_ID"][1].endswith("Process::id")
    tid = vals.get("ACT_USE_PARENT_TASK_ID")
    tid_ok = tid is not None and tid[0] == "call" and tid[1] == T.Q_CTX_TASK and tid[3] == ("id",)
    cx.ob("C15.R1", "call:parent-link", pid_ok and tid_ok, "the parent link is (ctx.proc.id(), ctx.task().id)", st[0].loc)
    # the map that carries the return address goes to the child and nowhere else: whatever `execute` returns becomes data of
    # the calling act (Act::run -> update_data), and update_data writes every name an ancestor holds - in a process that is
    # itself a called sub-process the root holds exactly these two keys (its own return address)
    uses = []
    for c in f.calls():
        for i, a in enumerate(c.args):
            if a[0] != "k" and pa.root(f, a)[:3] == inputs[:3] and not (c.q.endswith("Vars::set") and i == 0) and c.b != st[0].b:
                if (c.callee.get("decl") or "") in ("std::ops::Deref::deref", "std::ops::Drop::drop"):
                    continue
                uses.append(short_name(c.q))
    ret_derives = False
    for bi, b in enumerate(f.blocks):
        for s_ in b["s"]:
            if s_[0] == "A" and s_[1][0] == 0 and s_[2][0] == "agg" and s_[2][2] == "Ok":
                r = pa.root(f, s_[2][4][0]) if s_[2][4] else None
                if r is not None and r[0] == "agg" and r[2] == "Some":
                    ops_ = list(pa.agg_operands(f, r).values())
                    inner = pa.root(f, ops_[0]) if ops_ else None
                    n_ = 0
                    while inner is not None and inner[0] == "call" and inner[:3] != inputs[:3] and n_ < 4:
                        cc_ = Call(f, inner[2])
                        inner = pa.root(f, cc_.args[0]) if cc_.args else None
                        n_ += 1
                    if inner is not None and inner[:3] == inputs[:3]:
                        ret_derives = True
    cx.ob("C15.R1", "call:link-goes-to-child-only", not uses and not ret_derives,
          "the map carrying the parent pid / tid is handed to `start` and to nothing else%s" % (
              "" if (not uses and not ret_derives) else " - but it is also %s: as data of the calling act it is written through to every ancestor holding these names, and the root of a called sub-process holds them as its own return address" % (
                  "returned from execute" if ret_derives else "passed to %s" % uses)), st[0].loc)
    mid = pv.root(f, st[0].args[1])
    cx.ob("C15.R1", "call:target", mid[0] == "param" and mid[1] == 1 and mid[3][-1:] == ("to",), "the model started is `self.to`", st[0].loc)
    from vlib.discard import classify
    v = classify(m, f, st[0])
    cx.ob("C15.R1", "call:start-error", v[0] == "PROPAGATED", "a failing start (missing model) is propagated with `?`, so the calling act fails instead of hanging (%s)" % v[1], st[0].loc)
    # the start path fails for an unknown model: models().find(mid)? in ProcessExecutor::start
    g = m.one(r"^acts::export::executor::process_executor::ProcessExecutor::start$")
    fc = [c for c in g.calls() if c.kind == "virtual" and c.q.endswith("DbCollection::find")]
    ok = len(fc) == 1 and classify(m, g, fc[0])[0] == "PROPAGATED"
    cx.ob("C15.R1", "call:unknown-model", ok, "ProcessExecutor::start propagates the `find` error of an unknown model", fc[0].loc if fc else g.loc())
    cx.floor("C15.R1", 7)

    # ---- R2 ---------------------------------------------------------------------------------------
    f = m.one(r"^acts::scheduler::runtime::Runtime::return_to_act$")
    byv = blocks_by_value(m, tables, f, r"process::Process::state$", TASK_STATE)
    want = {"Aborted": "Abort", "Skipped": "Skip", "Error": "Error"}
    assigns = {}
    for bi, b in enumerate(f.blocks):
        for s in b["s"]:
            if s[0] == "A" and s[2][0] == "agg" and s[2][1].endswith("event::EventAction") and not s[2][4]:
                assigns.setdefault(s[2][2], set()).update(values_reaching(byv, bi))
    for st_, act in want.items():
        got = sorted(k for k, v in assigns.items() if st_ in v)
        cx.ob("C15.R2", "return:%s" % st_, got == [act], "a child that ended %s is returned as action %s (found %s)" % (st_, act, got), f.loc())
    rest = sorted(s for s in T.STATES if s not in want)
    got_next = sorted(assigns.get("Next", set()))
    cx.ob("C15.R2", "return:otherwise", got_next == rest and set(assigns) == {"Abort", "Skip", "Error", "Next"},
          "every other ending is returned as Next (complete) (found Next for %s)" % got_next, f.loc())
    # error code / message copied from proc.err()
    sets = [c for c in f.calls() if c.q.endswith("Vars::set")]
    copied = {}
    for c in sets:
        k = pv.root(f, c.args[1])
        v = pv.root(f, c.args[2])
        name = (k[1].get("named") or "").split("::")[-1] if k[0] == "const" else "?"
        fld = v[3][-1] if (v[0] == "call" and v[1].endswith("Process::err") and v[3]) else None
        copied[name] = (fld, values_reaching(byv, c.b))
    okc = copied.get("ACT_ERR_CODE", (None,))[0] == "ecode" and copied.get("ACT_ERR_MESSAGE", (None,))[0] == "message" and \
        all(v[1] == {"Error"} for v in copied.values())
    cx.ob("C15.R2", "return:error-payload", okc, "for an errored child the options carry `proc.err()`'s ecode and message under the error keys (found %s)" % {k: v[0] for k, v in copied.items()}, f.loc())
    act = [c for c in f.calls() if c.q.endswith("Action::new")]
    oko = False
    if len(act) == 1:
        vr = pa.root(f, act[0].args[3])
        oko = vr[0] in ("call", "local") and _from_outputs(f, pa, vr)
        pid = pa.root(f, act[0].args[0])
        tid = pa.root(f, act[0].args[1])
        oko = oko and pid[0] == "param" and pid[2] == "pid" and tid[0] == "param" and tid[2] == "tid"
    cx.ob("C15.R2", "return:outputs", oko, "the returned action targets (pid, tid) of the parent act and carries the child's `outputs()`", act[0].loc if act else f.loc())
    # the outputs that are handed back: Process::outputs is the root task's outputs whatever way the process ended (an
    # errored / aborted child still has to satisfy the calling act's declared outputs, or its return is refused)
    from vlib.model import conditions_of
    from rules.c01 import gdesc
    po = m.one(r"^acts::scheduler::process::process::Process::outputs$")
    oc = [c for c in po.calls() if c.q.endswith("Task::outputs")]
    if not oc:
        cx.ob("C15.R2", "outputs:root", False, "Process::outputs returns the root task's outputs - no call of Task::outputs found", po.loc())
    else:
        conds = sorted({gdesc(m, g) for g in conditions_of(m, po, oc[0].b, mode="value") if not g.neutral})
        extra = [d for d in conds if not re.search(r"^match\(Process::root\)=Some$|^match\(root\)=Some$|is_some=True$", d)]
        cx.ob("C15.R2", "outputs:root", not extra, "Process::outputs returns the root task's outputs whatever state the process is in (conditions: %s)%s" % (conds, "" if not extra else " - it also depends on %s" % extra), oc[0].loc)
    cx.floor("C15.R2", 7)

    # ---- R3 ---------------------------------------------------------------------------------------
    eng, _ = engine(cx)
    onp = [m.fns[q] for q in eng.sm.handlers.get("proc", [])]
    if len(onp) != 1:
        raise Anchor("on_proc handler not found")
    h = onp[0]
    byv = blocks_by_value(m, tables, h, r"process::Process::state$", TASK_STATE)
    rt = [c for c in h.calls() if c.q.endswith("Runtime::return_to_act")]
    rm = [c for c in h.calls() if c.q.endswith("Cache::remove")]
    ok = len(rt) == 1 and values_reaching(byv, rt[0].b) == set(T.STATES) - {"Running", "Pending"}
    cx.ob("C15.R3", "return:terminal-edge", ok and bool(rm) and h.can_reach(rt[0].b, rm[0].b) and not h.can_reach(rm[0].b, rt[0].b),
          "return_to_act is called when the child's process state is neither running nor pending, and before the child is removed from cache and store (states: %s)" % (
              sorted(values_reaching(byv, rt[0].b)) if rt else None), rt[0].loc if rt else h.loc())
    if rt:
        gs = [gdesc(m, g) for g in guards_of(m, h, rt[0].b, mode="alias") if not g.neutral]
        has_parent = any(re.search(r"^match\(Process::parent\)=Some$", d) for d in gs)
        cx.ob("C15.R3", "return:has-parent-link", has_parent, "the return is made exactly when the child carries a parent link (guards %s)" % gs, rt[0].loc)
        # ... and under nothing else: a terminated child ALWAYS returns (a caller that is not in memory right now - evicted,
        # not yet reloaded after a restart - is loaded by the returned action; skipping the return leaves its act open for ever)
        from vlib.model import conditions_of
        alld = sorted({gdesc(m, g) for g in conditions_of(m, h, rt[0].b, mode="alias") if not g.neutral})
        allowed = [r"^match\(Process::parent\)=Some$", r"^TaskState::is_(running|pending|error|completed)=", r"^match\(.*Process::root.*\)=Some$", r"^match\(.*\)=Some$" if False else r"^$"]
        extra = [d for d in alld if not any(re.search(p_, d) for p_ in allowed)]
        cx.ob("C15.R3", "return:unconditional", not extra,
              "a terminated child with a parent link always returns to the calling act (conditions on the call: %s)%s" % (
                  alld, "" if not extra else " - the return also depends on %s" % extra), rt[0].loc)
        args = [pa.root(h, a) for a in rt[0].args[1:3]]
        cx.ob("C15.R3", "return:link-values", all(a[0] == "call" and a[1].endswith("Process::parent") for a in args), "the (pid, tid) returned to are the values of `proc.parent()`", rt[0].loc)
    p = m.one(r"^acts::scheduler::process::process::Process::parent$")
    keys = sorted({(s[2][1][1].get("named") or "").split("::")[-1] for g in [p] + [x for x in m.fns.values() if x.q.startswith(p.q + "::{closure")]
                   for b in g.blocks for s in b["s"] if s[0] == "A" and s[2][0] == "use" and s[2][1][0] == "k" and s[2][1][1].get("named")})
    cx.ob("C15.R3", "link:keys-agree", keys == ["ACT_USE_PARENT_PROC_ID", "ACT_USE_PARENT_TASK_ID"], "Process::parent reads the same two keys the call writes (found %s)" % keys, p.loc())
    an = m.one(r"act::<impl acts::scheduler::ActTask for acts::model::act::Act>::next$")
    sc = [c for c in an.calls() if c.q == T.Q_SET_STATE and pa.root(an, c.args[1])[0] == "agg" and pa.root(an, c.args[1])[2] == "Completed"]
    ok = len(sc) == 1 and any(g.root[0] == "call" and g.root[1].endswith("Task::is_auto_complete") and g.truth is True for g in guards_of(m, an, sc[0].b, mode="alias"))
    cx.ob("C15.R3", "act:stays-open", ok, "Act::next completes the act only if `is_auto_complete()` (a sub-process act stays open until the return action)", sc[0].loc if sc else an.loc())
    # the same in Act::review: every write of a terminal state on the act itself that its children's endings can cause
    # (Completed when all are done) is under is_auto_complete. (Skipped / the error path pass a child's fate on and are not
    # completions by the children.)
    ar = m.one(r"act::<impl acts::scheduler::ActTask for acts::model::act::Act>::review$")
    sc2 = [c for c in ar.calls() if c.q == T.Q_SET_STATE and pa.root(ar, c.args[1])[0] == "agg" and pa.root(ar, c.args[1])[2] == "Completed"
           and pa.root(ar, c.args[0])[0] == "call" and pa.root(ar, c.args[0])[1] == T.Q_CTX_TASK]
    ok2 = bool(sc2) and all(any(g.root[0] == "call" and g.root[1].endswith("Task::is_auto_complete") and g.truth is True for g in guards_of(m, ar, c.b, mode="alias")) for c in sc2)
    cx.ob("C15.R3", "act:stays-open:review", ok2, "Act::review completes the act only if `is_auto_complete()` (reviewed by a child that ended - a hook msg on a subflow act - it must not complete an act that waits for its sub workflow)", sc2[0].loc if sc2 else ar.loc())
    cx.floor("C15.R3", 7)


def _ctx_task_block(f):
    for c in f.calls():
        if c.q == T.Q_CTX_TASK:
            return c.b
    return -1


def _from_outputs(f, pa, r):
    if r[0] == "call":
        return r[1].endswith("Process::outputs")
    if r[0] == "local":
        return any(d[2] == "call" and (d[3][1].get("q") or "").endswith("Process::outputs") for d in f.defs().get(r[1], []))
    return False



RETURN_EVENTS = {"Next", "Abort", "Skip", "Error"}
ABSENCE_ONLY = re.compile(r"(Context::get_var(::<.*>)?|Task::parent|Context::action)$")


def r4_accepts(cx):
    m = cx.m
    pa = Prov(m, "alias")
    pv = Prov(m, "value")
    f = m.one(r"^acts::scheduler::process::task::Task::update$")

    def arm_of(b):
        arms = None
        for g in guards_of(m, f, b, mode="alias"):
            if g.root[0] == "discr":
                vs = discr_variants(m, g)
                if vs and vs <= {"Push", "Remove", "Submit", "Next", "Back", "Cancel", "Abort", "Skip", "Error", "SetVars", "SetProcessVars"} and not (vs <= {"Continue", "Break"}):
                    r = g.root[1]
                    if r[0] in ("call", "local", "param") and (r[3][-1:] == ("event",) or "event" in r[3]):
                        arms = vs if arms is None else (arms & vs)
        return arms

    from vlib.ts import Summaries
    sm = cx.shared("summaries", lambda: Summaries(m))
    seen_arms = set()
    for b in range(len(f.blocks)):
        a = arm_of(b)
        if a and a <= RETURN_EVENTS:
            seen_arms |= a
    for e in sorted(RETURN_EVENTS):
        if e not in seen_arms:
            cx.undecide("C15.R4", "the %s arm of Task::update was not recognised" % e)

    def scan(g, arms_of, via, depth):
        """refusals raised in g (restricted to the blocks of the return arms when g is Task::update)"""
        for c in g.calls():
            arms = arms_of(c.b)
            if arms is None or not (arms & RETURN_EVENTS):
                continue
            armn = "/".join(sorted(arms))
            if re.search(r"Option::<.*>::ok_or(_else)?$", c.q):
                r = pa.root(g, c.args[0])
                ok = r[0] == "call" and bool(ABSENCE_ONLY.search(r[1])) and not r[3]
                what = short_name(r[1]) if r[0] == "call" else root_str(r)
                key = None
                if ok and "get_var" in r[1]:
                    k = pv.root(g, Call(g, r[2]).args[1])
                    key = (k[1].get("named") or k[1].get("str") or "?").split("::")[-1] if k[0] == "const" else "?"
                    if "Error" in arms:
                        ok = key == "ACT_ERR_CODE"
                if ok:
                    desc = "in the %s arm Task::update fails when `%s`%s is absent - and only then: the option is taken as it comes, no filter or test of its value stands between the lookup and the refusal" % (armn, what, "(%s)" % key if key else "")
                else:
                    desc = ("in the %s arm Task::update refuses on the result of `%s`%s, not on the plain absence of an option / parent: the return of a child is refused for its content "
                            "(a child that ends with an engine-raised error returns an empty code) and the calling act stays open" % (armn, what, "(%s)" % key if key else ""))
                cx.ob("C15.R4", "update:%s:requires:%s%s%s" % (armn, what.split("::<")[0], "(%s)" % key if key else "", via), ok, desc, c.loc)
            elif c.q in m.fns and c.q != g.q and depth < 3 and c.q not in sm.may_write and m.fns[c.q].returns_result() and c.q in sm.may_fail():
                # an admission helper (cannot change a task, can refuse): its refusals are the arm's refusals
                h = m.fns[c.q]
                scan(h, lambda b_, arms=arms: arms, "%s@%s" % (via, h.short), depth + 1)
        for b, kind in g.exit_defs():
            if kind != "ERR_NEW":
                continue
            arms = arms_of(b)
            if arms is None or not (arms & RETURN_EVENTS):
                continue
            extra = []
            from vlib.model import conditions_of
            for gd in conditions_of(m, g, b, mode="alias"):
                if gd.neutral:
                    continue
                r = gd.root
                if r[0] == "discr":
                    continue
                if r[0] == "call" and T.STATE_PRED.match(r[1]):
                    continue
                extra.append(gdesc(m, gd))
            cx.ob("C15.R4", "update:%s:refusal@%s%s" % ("/".join(sorted(arms)), _nth(g, b), via), not extra,
                  "a refusal raised in the %s arm%s depends only on task states%s" % ("/".join(sorted(arms)), (" (in `%s`)" % g.short) if g is not f else "", "" if not extra else " - but also on %s" % extra), g.loc(b))

    scan(f, arm_of, "", 0)
    cx.floor("C15.R4", 3)


def T_summ(cx):
    from vlib.ts import Summaries
    return cx.shared("summaries", lambda: Summaries(cx.m))


def _nth(f, b):
    bs = [x for x, k in f.exit_defs() if k == "ERR_NEW"]
    return "#%d" % bs.index(b)



def r5_refusal(cx):
    m = cx.m
    pa = Prov(m, "alias")
    f = m.one(r"^acts::scheduler::runtime::Runtime::return_to_act$")
    clos = [g for g in m.fns.values() if g.q.startswith(f.q + "::{closure")]
    site = None
    for g in clos:
        for c in g.calls():
            if c.q.endswith("Runtime::do_action"):
                site = (g, c)
    if site is None:
        # maybe called directly
        for c in f.calls():
            if c.q.endswith("Runtime::do_action"):
                site = (f, c)
    if site is None:
        raise Anchor("return_to_act: the do_action call was not found")
    g, c = site
    # the failing of the act may sit in the closure itself or in a helper called on the Err edge (`scher.fail_calling_act(
    # &action, err)`): follow local callees that reach set_err, translating their parameters back to the call site
    def err_edge(gg, b):
        for gd in guards_of(m, gg, b, mode="alias"):
            r = gd.root
            if r[0] == "discr" and r[1][:3] == ("call", c.q, c.b) and discr_variants(m, gd) == {"Err"}:
                return True
        return False

    def lift(chain, r):
        """translate a root of the innermost function of `chain` into a root of g: parameters become the arguments"""
        for (caller, call) in reversed(chain):
            if r[0] != "param":
                return None
            up = pa.root(caller, call.args[r[1] - 1])
            r = pa._wrap(up, tuple(r[3]))
        return r

    ok_edge = ok_task = ok_open = ok_emit = False
    work = [(g, [], None)]
    seen_fns = set()
    while work:
        h, chain, edge_ok = work.pop()
        if h.q in seen_fns:
            continue
        seen_fns.add(h.q)
        se = [x for x in h.calls() if x.q == T.Q_SET_ERR]
        em = [x for x in h.calls() if x.q.endswith("Context::emit_error")]
        if se and em:
            x = se[0]
            ok_edge = edge_ok if chain else err_edge(h, x.b)
            for gd in guards_of(m, h, x.b, mode="alias"):
                r = gd.root
                if r[0] == "call" and T.STATE_PRED.match(r[1]) and T.STATE_PRED.match(r[1]).group(1) == "is_completed" and gd.truth is False:
                    who = pa.root(h, Call(h, r[2]).args[0])
                    if who[0] == "call" and who[1] == T.Q_STATE and pa.root(h, Call(h, who[2]).args[0]) == pa.root(h, x.args[0]):
                        ok_open = True
            # the task is proc(action.pid).task(action.tid)
            from vlib.model import strip_try
            t = strip_try(h, pa, pa.root(h, x.args[0]))
            if t[0] == "call" and t[1].endswith("Process::task"):
                tc = Call(h, t[2])
                tid = pa.root(h, tc.args[1])
                pr = strip_try(h, pa, pa.root(h, tc.args[0]))
                pid = pa.root(h, Call(h, pr[2]).args[1]) if pr[0] == "call" and pr[1].endswith("Cache::proc") else None
                act = pa.root(g, c.args[1])
                if chain:
                    tid = lift(chain, tid) or tid
                    pid = (lift(chain, pid) or pid) if pid is not None else None
                ok_task = pid is not None and tid[:3] == act[:3] and pid[:3] == act[:3] and tuple(y for y in tid[3] if y != "*")[-1:] == ("tid",) and tuple(y for y in pid[3] if y != "*")[-1:] == ("pid",)
            # the error stored is the refusal, and the emit follows on the same context's task
            ctxr = pa.root(h, em[0].args[0])
            ok_emit = h.dominates(x.b, em[0].b) and ctxr[0] == "call" and ctxr[1].endswith("Task::create_context") and strip_try(h, pa, pa.root(h, Call(h, ctxr[2]).args[0])) == t
            break
        if len(chain) < 2:
            for y in h.calls():
                if y.q in m.fns and y.q != h.q and y.q in T_summ(cx).may_write:
                    e = edge_ok if chain else err_edge(h, y.b)
                    if e:
                        work.append((m.fns[y.q], chain + [(h, y)], e))
    cx.ob("C15.R5", "refusal:fails-the-act", ok_edge and ok_task and ok_open and ok_emit,
          "when do_action refuses the return, the calling act (action.pid / action.tid, not yet terminal) gets the refusal as its error and is emitted as failed%s" % (
              "" if (ok_edge and ok_task and ok_open and ok_emit) else " - not found (Err edge: %s, the act of the action: %s, still open: %s, set_err then emit_error on it: %s): a refused return leaves the calling act open for ever" % (ok_edge, ok_task, ok_open, ok_emit)), c.loc)
    cx.floor("C15.R5", 1)
