"""C14 Script boundary keeps values intact; templates substitute every expression.

R1 JSON -> JS: no narrowing numeric cast on a value taken from the JSON number; R2 JS -> JSON:
Int / Float / BigInt are read with as_int / as_float / to_i64 and not narrowed; every JS type has
an arm; R3 the multi-template pattern cannot run across a closing `}}` (lazy, or a class excluding
`}`), the whole-string pattern is anchored at both ends; R4 fill_params returns the typed value
exactly when one template spans the whole string, and strings without templates unchanged.
Not decided: QuickJS number semantics above 2^53, unicode."""
import re

from vlib.model import Anchor, Call, Prov, guards_of, discr_variants, root_str, short_name

WIDTH = {"i8": 8, "u8": 8, "i16": 16, "u16": 16, "i32": 32, "u32": 32, "i64": 64, "u64": 64, "i128": 128, "u128": 128, "isize": 64, "usize": 64, "f32": 32, "f64": 64}


def narrowing(kind, frm, to):
    if frm not in WIDTH or to not in WIDTH:
        return False
    if kind == "IntToInt":
        if WIDTH[to] < WIDTH[frm]:
            return True
        # same width, signedness change (u64 -> i64) loses the upper half
        return WIDTH[to] == WIDTH[frm] and frm[0] != to[0] and frm[0] == "u"
    if kind == "FloatToFloat":
        return WIDTH[to] < WIDTH[frm]
    if kind == "FloatToInt":
        return True
    if kind == "IntToFloat":
        return to == "f32" and WIDTH[frm] > 24
    return False


def casts_in(f):
    for bi, b in enumerate(f.blocks):
        for si, s in enumerate(b["s"]):
            if s[0] == "A" and s[2][0] == "cast":
                yield bi, si, s


def run(cx):
    cx.rule("C14.R1", "K8", "JSON -> JS: a number taken from the JSON value is not narrowed on its way into the script engine")
    cx.rule("C14.R2", "K5", "JS -> JSON: every JS type has an arm; Int / Float / BigInt are read with as_int / as_float / to_i64 without narrowing")
    cx.rule("C14.R3", "K7", "template patterns: `{{..}}` inside a string cannot match across a closing `}}`; the whole-string pattern is anchored")
    cx.rule("C14.R4", "E3", "fill_params: typed value iff one template spans the whole string; strings without templates are returned unchanged")
    cx.rule("C14.R5", "E3", "an output that is exactly one template yields what the template evaluated to - null included: the look-up of a same-named variable is for the declared placeholder `k:` only")
    from rules.c07 import fill_outputs_declared_null
    fill_outputs_declared_null(cx, "C14.R5")
    cx.floor("C14.R5", 1)
    m = cx.m
    pa = Prov(m, "alias")
    pv = Prov(m, "value")
    # ---- R1 ---------------------------------------------------------------------------------------
    f = m.one(r"^<acts::env::value::ActValue as rquickjs::IntoJs<'js>>::into_js$")
    fs = [f] + [g for g in m.fns.values() if g.q.startswith(f.q + "::{closure")]
    n = 0
    srcs = 0
    for g in fs:
        for c in g.calls():
            if re.search(r"serde_json::Number::as_(i64|u64|f64)$", c.q):
                srcs += 1
        for bi, si, s in casts_in(g):
            kind, op, frm, to = s[2][1], s[2][2], s[2][3], s[2][4]
            if kind not in ("IntToInt", "FloatToFloat", "FloatToInt", "IntToFloat"):
                continue
            r = pv.root(g, op)
            from_number = r[0] == "call" and re.search(r"serde_json::Number::as_(i64|u64|f64)$", r[1])
            if not from_number:
                continue
            n += 1
            bad = narrowing(kind, frm, to)
            acc = r[1].split("::")[-1]
            same = sorted(x[1] for x in casts_in(g) if x[2][2][3] == frm and x[2][2][4] == to and x[0] <= bi)
            cx.ob("C14.R1", "into_js:%s:%s->%s#%d" % (acc, frm, to, len([x for x in casts_in(g) if x[2][2][3] == frm and x[2][2][4] == to and (x[0], x[1]) <= (bi, si)])), not bad,
                  "the value of `Number::%s()` is cast %s -> %s on its way into the script engine%s" % (acc, frm, to, ": integers beyond that width arrive truncated" if bad else " (exact for every value a double holds exactly)"),
                  "%s:%d" % (g.file, s[3]))
    cx.ob("C14.R1", "into_js:number-arm", srcs >= 2, "into_js reads the JSON number through as_i64 / as_u64 / as_f64 (%d reads)" % srcs, f.loc())
    # every serde_json::Value variant has an arm
    t0 = None
    for bi, b in enumerate(f.blocks):
        if b["t"][0] == "switch":
            r = pa.root(f, b["t"][1])
            if r[0] == "discr" and r[2] and r[2].endswith("serde_json::Value"):
                t0 = b["t"]
                break
    arms = len(t0[2]) + (1 if f.blocks[t0[3]]["t"][0] != "unreachable" else 0) if t0 else 0
    cx.ob("C14.R1", "into_js:all-variants", arms == 6, "into_js has an arm for each of the 6 JSON value kinds (found %d)" % arms, f.loc())
    # each JSON kind becomes the JS kind of the same name: a number a JS number (int32 or double - never a BigInt or a
    # string, which `===`, arithmetic, Date, Math and JSON.stringify treat differently), a string a JS string, ...
    if t0:
        adt = "serde_json::Value"
        try:
            variants = {str(d): n_ for n_, d in m.variants([a for a in m.adts if a.endswith("serde_json::Value")][0])}
        except Exception:
            variants = {}
        allowed = {"Null": {"new_null", "new_undefined"}, "Bool": {"new_bool"}, "Number": {"new_int", "new_float", "new_number"},
                   "String": {"from_string"}, "Array": {"from_array"}, "Object": {"from_object"}}
        targets = {variants.get(v): tb for v, tb in t0[2] if variants.get(v)}
        for kind, tb in sorted(targets.items()):
            others = [x for k_, x in targets.items() if k_ != kind and x != tb] + ([t0[3]] if t0[3] != tb else [])
            region = f.reach_from([tb], avoid=others)
            made = set()
            for c in f.calls():
                mm = re.search(r"^rquickjs::Value::<'js>::((?:new|from)_[a-z_0-9]+)$|^rquickjs::Value::((?:new|from)_[a-z_0-9]+)$", c.q)
                if c.b in region and mm:
                    made.add(mm.group(1) or mm.group(2))
            # the recursive arms (array / object) also build their elements with into_js: those are calls, not constructors
            ok = bool(made) and made <= allowed.get(kind, set())
            cx.ob("C14.R1", "into_js:kind:%s" % kind, ok,
                  "a JSON %s enters the script engine as a JS value of the same kind (constructors used in that arm: %s; expected within %s)" % (
                      kind.lower(), sorted(made) or "none", sorted(allowed.get(kind, []))), f.loc(tb))
    cx.floor("C14.R1", 9)

    # ---- R2 ---------------------------------------------------------------------------------------
    g = m.one(r"^<acts::env::value::ActValue as rquickjs::FromJs<'js>>::from_js$")
    gs = [g] + [x for x in m.fns.values() if x.q.startswith(g.q + "::{closure")]
    want = {"Int": "as_int", "Float": "as_float", "BigInt": "to_i64", "Bool": "as_bool", "String": "as_string"}
    sw = None
    for bi, b in enumerate(g.blocks):
        if b["t"][0] == "switch":
            r = pa.root(g, b["t"][1])
            if r[0] == "discr" and r[2] and r[2].endswith("rquickjs::Type"):
                sw = bi
                adt = r[2]
                break
    if sw is None:
        raise Anchor("from_js: no match on the JS type")
    variants = {str(d): n_ for n_, d in m.variants(adt)}
    t = g.blocks[sw]["t"]
    covered = {variants[v] for v, _ in t[2] if v in variants}
    default_real = g.blocks[t[3]]["t"][0] != "unreachable"
    cx.ob("C14.R2", "from_js:coverage", (covered == set(variants.values())) or default_real,
          "from_js decides every JS type (explicit arms: %d of %d%s)" % (len(covered), len(variants), ", plus a default arm" if default_real else ""), g.loc())
    for var, acc in want.items():
        tgt = [tb for v, tb in t[2] if variants.get(v) == var]
        ok = False
        if tgt:
            others = {tb for v, tb in t[2] if variants.get(v) != var} | {t[3]}
            region = g.reach_from(tgt, avoid=[x for x in others if x not in tgt])
            calls = [Call(g, b) for b in region if g.blocks[b]["t"][0] == "call"]
            ok = any(c.q.split("::")[-1] == acc for c in calls)
        cx.ob("C14.R2", "from_js:%s" % var, ok, "a JS %s is read with `%s`" % (var, acc), g.loc())
    bad = []
    for x in gs:
        for bi, si, s in casts_in(x):
            if s[2][1] in ("IntToInt", "FloatToFloat", "FloatToInt") and narrowing(s[2][1], s[2][3], s[2][4]):
                bad.append("%s -> %s at %s:%d" % (s[2][3], s[2][4], x.file, s[3]))
    # containers come back element by element: a text round trip (JSON.stringify + serde_json::from_str) re-parses every
    # number from its decimal image, and serde_json's default float parser is not correctly rounded (1/11 comes back changed)
    txt = [c for x in gs for c in x.calls() if re.search(r"json_stringify|serde_json::(de::)?from_(str|slice|reader)|serde_json::(ser::)?to_(string|vec)", c.q) and not c.exp]
    rec = [c for x in gs for c in x.calls() if re.search(r"FromJs<'js>>::from_js$|::get::<.*ActValue.*>$|Object::<'js>::get|Array::<'js>::get|as rquickjs::FromJs", c.q)]
    cx.ob("C14.R2", "from_js:no-text-round-trip", not txt and bool(rec),
          "from_js rebuilds arrays / objects element by element (recursive from_js) and never through a JSON text%s" % (
              "" if (not txt and rec) else " - but it calls %s" % sorted({short_name(c.q) for c in txt})), (txt or [None])[0].loc if txt else g.loc())
    cx.ob("C14.R2", "from_js:no-narrowing", not bad, "from_js contains no narrowing numeric cast (found %s)" % (bad or "none"), g.loc())
    cx.floor("C14.R2", 8)

    # ---- R3 ---------------------------------------------------------------------------------------
    def patterns_in(h):
        out = []
        for c in h.calls():
            if c.q.endswith("Regex::new"):
                p = pv.root(h, c.args[0])
                if p[0] == "const" and p[1].get("str") in h.regexes:
                    out.append((p[1]["str"], h.regexes[p[1]["str"]], c))
        return out

    def anchored(hir):
        return hir[0] == "cat" and hir[1] and hir[1][0] == ["look", "Start"]

    for name, whole in (("get_exprs", False), ("get_expr", True)):
        h = m.one(r"^acts::utils::convert::%s$" % name)
        pats = patterns_in(h)
        if not pats:
            # the pattern may be compiled once in a static of the module (`static RE: LazyLock<Regex> = ..`): the two
            # template patterns are told apart by what they are (the whole-string one is anchored)
            for q, g in m.fns.items():
                if q.startswith("acts::utils::convert::") and g is not h:
                    pats += [x for x in patterns_in(g) if anchored(x[1]) == whole and "{" in x[0]]
        if len(pats) != 1:
            raise Anchor("%s: expected one regex literal" % name)
        pat, hir, c = pats[0]
        if whole:
            ok = hir[0] == "cat" and hir[1][0] == ["look", "Start"] and hir[1][-1] == ["look", "End"] and _delims(hir)
            cx.ob("C14.R3", "%s:anchored" % name, ok, "the whole-string template pattern %r is `^{{ .. }}$`" % pat, c.loc)
        else:
            ok, why = _cannot_cross(hir)
            cx.ob("C14.R3", "%s:no-crossing" % name, ok,
                  "the in-string template pattern %r %s" % (pat, why), c.loc,
                  **({} if ok else {"consequence": "`{{ a }} and {{ b }}` is taken as ONE expression `a }} and {{ b`: several templates in one string are not substituted independently"}))
    cx.floor("C14.R3", 2)

    # ---- R4 ---------------------------------------------------------------------------------------
    fp = m.one(r"^acts::utils::convert::fill_params$")
    # the early `return result` is guarded by range.start == 0 && range.end == value.len()
    rets = []
    for bi, b in enumerate(fp.blocks):
        for s in b["s"]:
            if s[0] == "A" and s[1][0] == 0 and not s[1][1] and s[2][0] == "use" and s[2][1][0] != "k":
                r = pa.root(fp, s[2][1])
                if r[0] == "call" and r[1].endswith("unwrap_or_else"):
                    rets.append(bi)
                elif r[0] == "local" and r[2] == "result":
                    rets.append(bi)
    ok = False
    detail = []
    for bi in rets:
        gsx = guards_of(m, fp, bi, mode="value")
        start0 = any(g.root[0] == "bin" and g.root[1] == "Eq" and g.truth is True and _is_field(g.root[2], "start") and g.root[3][0] == "const" and g.root[3][1].get("int") == "0" for g in gsx)
        endlen = any(g.root[0] == "bin" and g.root[1] == "Eq" and g.truth is True and _is_field(g.root[2], "end") and g.root[3][0] == "call" and g.root[3][1].endswith("::len") for g in gsx)
        detail.append((start0, endlen))
        ok = ok or (start0 and endlen)
    cx.ob("C14.R4", "fill_params:typed-iff-whole", ok and len(rets) == 1, "the evaluated value is returned as is exactly when the template's range is 0..len of the string (found %s)" % detail, fp.loc())
    # no template -> params.clone()
    okc = False
    for bi, b in enumerate(fp.blocks):
        t = b["t"]
        if t[0] == "call" and t[3][0] == 0 and (t[1].get("decl") or "") == "std::clone::Clone::clone":
            r = pa.root(fp, t[2][0])
            if r[0] == "param" and r[1] == 1:
                gsx = guards_of(m, fp, bi, mode="alias")
                if any(g.root[0] == "call" and g.root[1].endswith("::is_empty") and g.truth is True for g in gsx):
                    okc = True
    cx.ob("C14.R4", "fill_params:verbatim", okc, "a string without templates is returned as a clone of the parameter", fp.loc())
    # the evaluated value is inserted as it is: `str::replace(expr, value)` (or a regex replacement wrapped in NoExpand).
    # `Regex::replace*(text, value)` with a plain string EXPANDS `$1`, `$name`, `${..}` in the value: "$100" becomes ""
    fps = [fp] + [g for q, g in m.fns.items() if q.startswith(fp.q + "::{closure")]
    subst = []
    for g in fps:
        for c in g.calls():
            if re.search(r"regex::(regex::string::)?Regex::replace(_all|n)?(::<.*>)?$", c.q):
                subst.append((c, "NoExpand" in c.full))
            elif re.search(r"^std::str::<impl str>::replace(n)?(::<.*>)?$|^alloc::str::<impl str>::replace(n)?(::<.*>)?$|String::replace_range", c.q):
                subst.append((c, True))
    if not subst:
        cx.undecide("C14.R4", "fill_params: no substitution call (str::replace / Regex::replace) was recognised")
    else:
        bad = [c for c, ok_ in subst if not ok_]
        cx.ob("C14.R4", "fill_params:literal-substitution", not bad,
              "an embedded template is replaced by the evaluated value taken literally%s" % (
                  "" if not bad else " - but `%s` is given the value as a replacement STRING, in which the regex crate expands `$1` / `$name` / `${..}`: a value such as \"$100\" or \"$HOME/x\" is mangled" % short_name(bad[0].q)),
              (bad or [subst[0][0]])[0].loc)
    cx.floor("C14.R4", 3)


def _is_field(r, name):
    if r[0] in ("param", "call", "local"):
        return r[3][-1:] == (name,)
    if r[0] == "field":
        return r[2][-1:] == (name,)
    return False


def _delims(h):
    parts = h[1]
    lits = [p[1] for p in parts if p[0] == "lit"]
    return lits[:1] == ["{{"] and lits[-1:] == ["}}"]


def _cannot_cross(h):
    """Concat[.., Lit "{{", body, Lit "}}", ..]: the repetition in `body` must be lazy or range over a
    class that excludes `}`"""
    if h[0] != "cat":
        return False, "is not a concatenation"
    parts = h[1]
    idx = [i for i, p in enumerate(parts) if p[0] == "lit" and p[1].endswith("}}")]
    if not idx:
        return False, "has no closing delimiter"
    body = parts[idx[-1] - 1]
    while body[0] == "cap":
        body = body[2]
    if body[0] != "rep":
        return True, "has no repetition before the closing delimiter"
    _, mn, mx, greedy, sub = body
    if not greedy:
        return True, "uses a lazy repetition before the closing `}}`"
    if sub[0] == "class":
        excl = not any(a <= ord("}") <= b for a, b in sub[1])
        if excl:
            return True, "repeats a class that excludes `}`"
    return False, "uses a greedy repetition over characters that include `}` before the closing `}}`"
