"""C11 The store always holds a complete image of what the engine knows.

R1 write -> persist pairing: every write to a task's state / data / hooks is followed, before
control returns to an entry point, by a persist of the same task (TS `dirty` monitor for the
tracked task of every entry; local post-dominance + lifting for writes to other tasks);
R2 Task::into_data / Process::into_data build every row field from the same-named accessor;
R3 every process cell that is written after start is patched into the process row by
push_task_pri. Depends on C10.R1 (row mappers keep every field)."""
import json
import os
import re

from vlib.model import Anchor, Call, Prov, guards_of, discr_variants, bool_target, root_str, short_name, ITER_NEXT
from vlib import ts as T
from rules.c02 import engine, TASK, ARC_TASK_IMPL, is_dead, site_key

PROC = "acts::scheduler::process::process::Process"
PERSIST_Q = {T.Q_UPSERT, T.Q_PUSH, T.Q_EMIT_TASK, T.Q_EMIT_EVENT}


def run(cx):
    cx.rule("C11.R1", "TS", "tracked task: no entry point returns Ok with a change of the task's state/data/hooks that was not persisted afterwards")
    cx.rule("C11.R1o", "K2", "other tasks: a write to a task reached by navigation is followed by a persist of that same task on every success path (or lifted to the callers)")
    cx.rule("C11.R2", "K4", "into_data: every field of the task / process row is built from the same-named accessor")
    cx.rule("C11.R4", "K3", "nothing lives in memory only: every cell of the live Task / Process that can change while the process runs (a field behind a lock or an atomic) is read by into_data into the stored row")
    r4_no_memory_only_cells(cx)
    cx.rule("C11.R5", "K2", "Store::upsert_task / upsert_proc write the row on every path that reports success (update or create): no silent skip of a write")
    cx.rule("C11.R3", "K3", "every process cell that can change after start (state, end_time, err, env) is patched into the process row whenever a task is stored")
    r2(cx)
    r3(cx)
    r5_upsert_writes(cx)
    cx.rule("C11.R6", "K2", "a process error set after start reaches the stored row: every Process::set_err is followed, before the function returns, by something that stores a task of that process (and with it patches the process row) or the row itself")
    r6_proc_err_stored(cx)
    r1_tracked(cx)
    r1_other(cx)


# ------------------------------------------------------------------------------------------------
PROTOCOL = {"exec", "update", "resume", "create_message", "params", "inputs", "outputs"}


def task_writers(cx):
    """Task methods that write a cell of their receiver (transitively through other Task methods
    called on `self`): {q: set(cells)}. Protocol entry points (exec/update/..) take care of their own
    persistence (R1); the `$params` cache and the loader setters need none (NO_PERSIST); a method
    that persists its receiver after each of its writes is not a dirtying writer either."""
    def make():
        m = cx.m
        pa = Prov(m, "alias")
        W = {}
        methods = [f for f in m.fns.values() if f.crate == "acts" and (f.impl_self or "").endswith("process::task::Task") and "::{closure" not in f.q and not f.impl_trait]
        for f in methods:
            cells = set()
            for c in f.calls():
                if re.search(r"^std::sync::RwLock::<T>::write$", c.q):
                    r = pa.root(f, c.args[0])
                    if r[0] == "param" and r[1] == 1 and r[3]:
                        cells.add(r[3][-1])
            if cells:
                W[f.q] = cells
        changed = True
        while changed:
            changed = False
            for f in methods:
                if f.q.split("::")[-1] in PROTOCOL or f.q in NO_PERSIST:
                    continue
                for c in f.calls():
                    if c.q in W and c.q not in NO_PERSIST and c.q.split("::")[-1] not in PROTOCOL and c.args:
                        r = pa.root(f, c.args[0])
                        if r[0] == "param" and r[1] == 1 and not r[3]:
                            new = W.get(f.q, set()) | W[c.q]
                            if new != W.get(f.q):
                                W[f.q] = new
                                changed = True
        for q in list(W):
            if q.split("::")[-1] in PROTOCOL:
                del W[q]
        # self-persisting methods
        selfp = {}
        for q in list(W):
            f = m.fns[q]
            writes = [c for c in f.calls() if c.q in W and c.q != q and c.args and pa.root(f, c.args[0])[:2] == ("param", 1)]
            direct = [c for c in f.calls() if re.search(r"^std::sync::RwLock::<T>::write$", c.q)]
            if writes and not direct:
                pers = {c.b for c in f.calls() if c.q in PERSIST_Q and len(c.args) > 1 and pa.root(f, c.args[1])[:2] == ("param", 1)}
                rets = f.ret_blocks()
                if pers and all(not any(r in f.reach_from(f.succ(w.b), avoid=pers) for r in rets) for w in writes):
                    selfp[q] = sorted(short_name(w.q) for w in writes)
        for q in selfp:
            del W[q]
        W["__selfp__"] = selfp
        return W
    return cx.shared("c11.W", make)


# writers whose effect needs no persist: one site, one reason
NO_PERSIST = {
    "acts::scheduler::process::task::Task::set_pure_state": "loader: the source is the store",
    "acts::scheduler::process::task::Task::set_pure_err": "loader: the source is the store",
    "acts::scheduler::process::task::Task::set_hooks": "loader: the source is the store",
    "acts::scheduler::process::task::Task::params": "`$params` cache: a pure function of persisted inputs, recomputed on demand",
}


class DirtyMon(T.Monitor):
    """None = clean; otherwise (what, fn, block) of the first unpersisted change"""
    init = None

    def on_event(self, mon, ev):
        k = ev[0]
        if k == "WRITE":
            return mon or ("state %s->%s" % (ev[1], ev[2]), ev[3], ev[4])
        if k == "EFFECT" and len(ev) > 4 and ev[4]:
            return mon or (short_name(ev[1]), ev[2], ev[3])
        if k in ("PERSIST",):
            return None
        return mon

    def on_exit(self, mon, s, kind):
        if mon is not None and kind in ("OK", "UNIT"):
            return mon
        return None


def r1_tracked(cx):
    m = cx.m
    eng, tables = engine(cx)
    W = dict(task_writers(cx))
    selfp = W.pop("__selfp__")
    wq = [q for q in W if q not in NO_PERSIST and q not in (T.Q_SET_STATE, T.Q_SET_ERR) and "set_start_time" not in q and "set_end_time" not in q]
    eng.set_effects(re.compile("^(" + "|".join(re.escape(q) for q in wq) + ")$"), wq)
    eng.no_inline = set(NO_PERSIST) | set(wq)
    entries = [
        (m.one(r"^%s::exec$" % TASK), "exec", {}, T.STATES),
        (m.one(r"^%s::update$" % TASK), "update", {}, T.STATES),
        (m.one(r"^%s::run_hooks_timeout$" % TASK), "tick", {}, T.STATES),
        # entered from another task's flow (a child that ended, an error that climbs)
        (m.one(ARC_TASK_IMPL + r"review$"), "review", {"ctxok": False}, T.STATES),
        (m.one(ARC_TASK_IMPL + r"next$"), "next", {"ctxok": False}, T.STATES),
        (m.one(ARC_TASK_IMPL + r"error$"), "error", {"ctxok": False}, T.STATES),
    ]
    # the scheduler's error handler: `task.set_err(..); ctx.emit_error()` with ctx created from task
    errc = [f for f in m.fns.values() if f.q.startswith("acts::scheduler::scheduler::Scheduler::next::{closure#0}::{closure") and
            any(c.q == T.Q_SET_ERR for c in f.calls())]
    for f in errc:
        entries.append((f, "scheduler error handler", {"tp": (), "cp": (), "tup": ("task",), "cup": ("ctx",)}, T.STATES))
    found = {}
    try:
        for f, label, kw, states in entries:
            for s0 in states:
                for payload, path in eng.run(f, s0, DirtyMon(), **kw):
                    what, q, b = payload
                    found.setdefault((q, b), (what, label, s0, path))
        # `error()` persists the task it is called on (used by R1o): entered dirty in Error, it never returns Ok dirty
        err_fn = m.one(ARC_TASK_IMPL + r"error$")

        class PreDirty(DirtyMon):
            init = ("pre-dirty", err_fn.q, 0)
        bad = eng.run(err_fn, "Error", PreDirty(), ctxok=False)
        cx.ob("C11.R1", "error-persists", not bad, "`<Arc<Task>>::error` entered with an unpersisted Error task never returns Ok without having persisted it", err_fn.loc())
    finally:
        eng.set_effects(None)
        eng.no_inline = set()
    # every dirty site is an obligation; clean sites are summarised
    for (q, b), (what, label, s0, path) in sorted(found.items()):
        f = m.fns[q]
        key = "unpersisted:%s" % _key(m, q, b)
        cx.ob("C11.R1", key, False,
              "`%s` changes the task (%s) and `%s` (entered in %s) returns Ok without a later persist of that task: the stored row is stale" % (
                  f.short, what, label, s0), f.loc(b), path=[T.fmt_event(m, e) for e in path[-7:]])
    for f, label, kw, states in entries:
        cx.ob("C11.R1", "explored:%s" % label, True,
              "%s explored from %d entry states with the dirty monitor (writers: state, err, %d data/hook mutators)" % (label, len(states), len(wq)), f.loc())
    cx.floor("C11.R1", 3)


def _key(m, q, b):
    f = m.fns[q]
    c = Call(f, b)
    name = short_name(c.q).split("::")[-1]
    same = sorted(x.b for x in f.calls() if x.q == c.q)
    return "%s:%s%s" % (f.short, name, ("#%d" % (same.index(b) + 1)) if len(same) > 1 else "")


# ------------------------------------------------------------------------------------------------
def load_cond_writers():
    p = os.path.join(os.path.dirname(os.path.dirname(os.path.abspath(__file__))), "tables", "c11_conditional_writers.json")
    if not os.path.exists(p):
        return {}
    return {e["callee"]: e["reason"] for e in json.load(open(p))["writers"]}


def r1_other(cx):
    """B.10 for receivers that are not the tracked task of an entry: navigated tasks (parent,
    children, siblings, loop elements, freshly created tasks)"""
    m = cx.m
    pa = Prov(m, "alias")
    W = dict(task_writers(cx))
    selfp = W.pop("__selfp__")
    for q, ws in selfp.items():
        cx.ob("C11.R1o", "self-persisting:%s" % short_name(q), True, "`%s` persists its receiver after each of its own writes (%s)" % (short_name(q), ", ".join(ws)), m.fns[q].loc())
    cond = load_cond_writers()
    exc = load_exceptions()
    ERROR_Q = re.compile(ARC_TASK_IMPL + r"error$")

    def self_like(f, r, depth=0):
        """the current task of a protocol entry: self of a Task / <Arc<Task>> method, ctx.task(), or a
        variable a closure captured from one of those"""
        if r[0] == "param" and r[1] == 1 and not r[3] and re.search(r"process::task::Task>?$", f.impl_self or "") and "::{closure" not in f.q:
            return True
        if r[0] == "call" and r[1] == T.Q_CTX_TASK and not r[3]:
            return True
        if r[0] == "upvar" and not r[2] and depth < 3:
            site = m.closure_sites().get(f.q)
            if site is not None:
                parent, cb, csi, ops = site
                for name, (l, p) in f.upvars:
                    if name == r[1]:
                        idx = [e[1] for e in p if isinstance(e, list) and e[0] == "f"]
                        if idx and idx[0] < len(ops) and ops[idx[0]][0] != "k":
                            return self_like(parent, pa.root(parent, ops[idx[0]]), depth + 1)
        return False

    def persist_blocks(f, r):
        pers = set()
        for c in f.calls():
            if c.q in PERSIST_Q and len(c.args) > 1:
                a = pa.root(f, c.args[1])
                if a == r:
                    pers.add(c.b)
                elif a[0] == "call" and a[1] == T.Q_CTX_TASK:
                    # ctx.task() after ctx.set_task(r): the nearest dominating re-targeting decides (A3)
                    st = [x for x in f.calls() if x.q == T.Q_CTX_SET_TASK and f.dominates(x.b, a[2])]
                    if st:
                        last = max(st, key=lambda x: len(f.dom_chain(x.b)))
                        if pa.root(f, last.args[1]) == r:
                            pers.add(c.b)
            elif ERROR_Q.search(c.q) and c.args and pa.root(f, c.args[0]) == r:
                pers.add(c.b)  # C11.R1 error-persists
            elif c.q.endswith("Context::emit_error") and c.args:
                # `let ctx = r.create_context(); ..; ctx.emit_error()` emits (and so stores) the context's task, which is r
                cr = pa.root(f, c.args[0])
                if cr[0] == "call" and cr[1].endswith("Task::create_context") and pa.root(f, Call(f, cr[2]).args[0]) == r:
                    pers.add(c.b)
        return pers

    def ok_exits(f):
        if f.returns_result():
            return [x for x, k in f.exit_defs() if k in ("OK", "CALL", "COPY")]
        return f.ret_blocks()

    work = []
    for f in m.fns.values():
        if f.crate != "acts" or is_dead(m, f) or "tests" in f.q:
            continue
        if not re.search(r"^<?acts::(scheduler|package|cache|env)::", f.q):
            continue
        for c in f.calls():
            if c.q in W and c.q not in NO_PERSIST and c.args:
                r = pa.root(f, c.args[0])
                if self_like(f, r):
                    continue  # the tracked task of a protocol entry: R1 (TS)
                if f.q in W and r[0] == "param" and r[1] == 1:
                    continue  # a helper writing its own receiver: the obligation is at its callers
                if f.q in selfp and r[0] == "param" and r[1] == 1:
                    continue
                if re.search(r"Scheduler::next::\{closure#0\}::\{closure", f.q):
                    continue  # analysed as a TS entry in R1
                work.append((f, c, r))
    for f, c, r in sorted(work, key=lambda x: (x[0].q, x[1].b)):
        key = "%s" % _key(m, f.q, c.b)
        if re.search(r"::load_tasks$|Process::create_task$", f.q) and r[0] in ("local", "call"):
            cx.ob("C11.R1o", key, True, "`%s` on %s in `%s`: a freshly created task (stored by the caller's push) / the loader reads from the store" % (
                short_name(c.q), root_str(r), f.short), c.loc)
            continue
        starts = f.succ(c.b)
        note = ""
        if c.q in cond:
            sws = [bi for bi, b in enumerate(f.blocks) if b["t"][0] == "switch" and _root_is_call(f, pa, b["t"][1], c)]
            if sws:
                starts = [bool_target(f, sws[0], True)]
                note = " (conditional writer: only its `true` result needs a persist)"
        pers = persist_blocks(f, r)
        reach = f.reach_from(starts, avoid=pers)
        ok = not any(x in reach for x in ok_exits(f))
        if ok:
            cx.ob("C11.R1o", key, True, "`%s` on %s in `%s` is followed by a persist of the same task on every success path%s" % (
                short_name(c.q), root_str(r), f.short, note), c.loc)
        elif key in exc:
            cx.ob("C11.R1o", key, True, "`%s` on %s in `%s`: accepted exception: %s" % (short_name(c.q), root_str(r), f.short, exc[key]), c.loc)
        else:
            cx.ob("C11.R1o", key, False,
                  "`%s` changes %s in `%s` and no persist (emit_task / emit_task_event / upsert / push) of that task follows on every success path: "
                  "the stored row is stale until something else happens to store it" % (short_name(c.q), root_str(r), f.short), c.loc)
    # the closures handed to conditional writers return true on every path that mutates
    for cq in cond:
        for c in m.callers().get(cq, []):
            for a in c.args[1:]:
                r = pa.root(c.fn, a)
                if r[0] == "closure" and r[1] in m.fns:
                    g = m.fns[r[1]]
                    muts = [x for x in g.calls() if re.search(r"Vars::(set|insert|remove|append|extend)$|Map::<.*>::(insert|remove)$", x.q)]
                    ok = True
                    for x in muts:
                        # every return reachable from the mutation assigns `true`
                        for b in g.reach_from([x.b]):
                            for s_ in g.blocks[b]["s"]:
                                if s_[0] == "A" and s_[1][0] == 0 and not s_[1][1] and not (s_[2][0] == "use" and s_[2][1][0] == "k" and s_[2][1][1].get("int") == "1"):
                                    ok = False
                    cx.ob("C11.R1o", "cond-writer:%s" % g.short, ok and bool(muts),
                          "the closure given to `%s` returns true on every path that changes the data" % short_name(cq), g.loc())
    cx.floor("C11.R1o", 20)


def _root_is_call(f, pa, op, c):
    r = pa.root(f, op)
    n = 0
    while r[0] == "not" and n < 3:
        r = r[1]
        n += 1
    if r == ("call", c.q, c.b, ()):
        return True
    if r[0] == "local":
        ds = [d for d in f.defs().get(r[1], []) if d[2] in ("assign", "call")]
        return any((d[2] == "call" and d[0] == c.b) or (d[2] == "assign" and d[3][0] == "use" and d[3][1][0] != "k" and pa.root(f, d[3][1]) == ("call", c.q, c.b, ())) for d in ds)
    return False


def load_exceptions():
    p = os.path.join(os.path.dirname(os.path.dirname(os.path.abspath(__file__))), "tables", "c11_exceptions.json")
    if not os.path.exists(p):
        return {}
    return {e["key"]: e["reason"] for e in json.load(open(p))["exceptions"]}


# ------------------------------------------------------------------------------------------------
def r2(cx):
    m = cx.m
    pv = Prov(m, "value")
    f = m.one(r"^%s::into_data$" % TASK)
    agg = [(bi, si, s) for bi, b in enumerate(f.blocks) for si, s in enumerate(b["s"]) if s[0] == "A" and s[2][0] == "agg" and s[2][1].endswith("data::task::Task")]
    if len(agg) != 1:
        raise Anchor("Task::into_data: expected one row literal")
    ops = dict(zip(agg[0][2][2][3], agg[0][2][2][4]))
    loc = "%s:%d" % (f.file, agg[0][2][3])

    def from_call(r, suffix):
        """value derives from a call of `suffix` on self (possibly through to_string/map/into..)"""
        from vlib.mapper import origin_calls
        return None

    from vlib.mapper import origin_calls
    want = {
        "prev": r"Task::prev$", "state": r"Task::state$", "data": r"Task::data$", "err": r"Task::err$",
        "start_time": r"Task::start_time$", "end_time": r"Task::end_time$", "hooks": r"Task::hooks$",
        "name": r"NodeContent::name$", "kind": r"Node::kind$", "node_data": r"Node::to_string$", "id": r"utils::id::Id::id$|Id::<.*>::id$|Id::id$",
    }
    for fld, pat in want.items():
        cs = origin_calls(m, f, ops[fld], pat)
        ok = len(cs) >= 1 and all(_recv_is_self(f, pv, c) for c in cs)
        cx.ob("C11.R2", "task:%s" % fld, ok, "task row field `%s` is built from %s of the same task" % (fld, pat.split("$")[0]), loc,
              found=[short_name(c.q) for c in cs])
    for fld, src in (("pid", "pid"), ("tid", "id"), ("timestamp", "timestamp")):
        r = pv.root(f, ops[fld])
        cx.ob("C11.R2", "task:%s" % fld, r[0] == "param" and r[1] == 1 and r[3] == (src,), "task row field `%s` is self.%s (found %s)" % (fld, src, root_str(r)), loc)
    g = m.one(r"^%s::into_data$" % PROC)
    agg = [(bi, si, s) for bi, b in enumerate(g.blocks) for si, s in enumerate(b["s"]) if s[0] == "A" and s[2][0] == "agg" and s[2][1].endswith("data::proc::Proc")]
    if len(agg) != 1:
        raise Anchor("Process::into_data: expected one row literal")
    ops = dict(zip(agg[0][2][2][3], agg[0][2][2][4]))
    loc = "%s:%d" % (g.file, agg[0][2][3])
    want = {"state": r"Process::state$", "start_time": r"Process::start_time$", "end_time": r"Process::end_time$", "timestamp": r"Process::timestamp$",
            "env": r"Process::env$", "err": r"Process::err$", "model": r"Process::model$", "mid": r"Process::model$", "name": r"Process::model$"}
    for fld, pat in want.items():
        cs = origin_calls(m, g, ops[fld], pat)
        ok = len(cs) >= 1 and all(_recv_is_self(g, pv, c) for c in cs)
        cx.ob("C11.R2", "proc:%s" % fld, ok, "process row field `%s` is built from %s of the same process" % (fld, pat.split("$")[0]), loc)
    r = pv.root(g, ops["id"])
    cx.ob("C11.R2", "proc:id", r[0] == "param" and r[1] == 1 and r[3] == ("id",), "process row field `id` is self.id", loc)
    tf = set(m.struct_fields("acts::store::data::task::Task"))
    pf = set(m.struct_fields("acts::store::data::proc::Proc"))
    cx.ob("C11.R2", "task:coverage", tf == {"id", "pid", "tid", "node_data", "kind", "prev", "name", "state", "data", "err", "start_time", "end_time", "hooks", "timestamp"},
          "the task row has exactly the 14 fields the rule knows (found %s)" % sorted(tf), None)
    cx.ob("C11.R2", "proc:coverage", pf == {"id", "state", "mid", "name", "start_time", "end_time", "timestamp", "model", "env", "err"},
          "the process row has exactly the 10 fields the rule knows (found %s)" % sorted(pf), None)
    cx.floor("C11.R2", 26)


def _recv_is_self(f, pv, c):
    if not c.args:
        return False
    r = pv.root(f, c.args[0])
    if r[0] == "param" and r[1] == 1:
        return True
    # through self.node / self.node.content / the model of self
    if r[0] == "call" and c.args:
        inner = pv.root(f, Call(f, r[2]).args[0]) if Call(f, r[2]).args else None
        return inner is not None and inner[0] == "param" and inner[1] == 1
    if r[0] == "local":
        for d in f.defs().get(r[1], []):
            if d[2] == "call" and d[3][2]:
                a = pv.root(f, d[3][2][0])
                if a[0] == "param" and a[1] == 1:
                    return True
    return False


def r3(cx):
    m = cx.m
    pa = Prov(m, "alias")
    pv = Prov(m, "value")
    f = m.one(r"^acts::cache::cache::Cache::push_task_pri$")
    # fields of the row that are patched: `row.<f> = value derived from Process::<accessor>`
    patched = {}
    for bi, b in enumerate(f.blocks):
        for s in b["s"]:
            if s[0] == "A" and s[1][1] and isinstance(s[1][1][-1], list) and s[1][1][-1][0] == "f":
                base_ty = f.local_ty(s[1][0])
                if "data::proc::Proc" in base_ty:
                    from vlib.mapper import origin_calls
                    src = origin_calls(m, f, s[2][1], r"Process::\w+$") if s[2][0] == "use" else []
                    patched[s[1][1][-1][2]] = [short_name(c.q) for c in src]
    upd = [c for c in f.calls() if c.kind == "virtual" and c.q.endswith("DbCollection::update")]
    cx.ob("C11.R3", "patch:written-back", len(upd) == 1 and all(any(f.can_reach(bi, upd[0].b) for bi, b in enumerate(f.blocks) for s in b["s"]
                                                              if s[0] == "A" and s[1][1] and isinstance(s[1][1][-1], list) and s[1][1][-1][2] == k) for k in patched),
          "push_task_pri writes the patched process row back (update) after patching %s" % sorted(patched), f.loc())
    # ... for every task that is stored, not only for some (env and err change from any task: a script in a step writes
    # `$env.x`, an act fails): nothing but `save` and the success of the row lookup decides whether the row is patched
    if len(upd) == 1:
        from rules.c01 import exact_guards
        exact_guards(cx, "C11.R3", "patch:every-stored-task", f, upd[0].b,
                     required=[r"^save=True$"], allowed=[r"^match\(.*branch.*\)=Continue$"],
                     what="the process row is patched whenever a task is stored (whatever task it is)", loc=upd[0].loc)
    # cells of Process written after start, and the row field each maps to
    cells = {"state": "state", "end_time": "end_time", "err": "err", "env": "env"}
    writers = {}
    for g in m.fns.values():
        if g.crate == "acts" and (g.impl_self or "").endswith("process::process::Process") and "::{closure" not in g.q:
            for c in g.calls():
                if re.search(r"^std::sync::RwLock::<T>::write$", c.q):
                    r = pa.root(g, c.args[0])
                    if r[0] == "param" and r[1] == 1 and r[3] and r[3][-1] in cells:
                        writers.setdefault(r[3][-1], set()).add(g.q)
    LOADER = re.compile(r"Store>::load(_proc)?$|Cache::push_task_pri$|Process::new(_with_timestamp)?$")
    for cell, fld in cells.items():
        live = []
        for wq in writers.get(cell, []):
            for c in _transitive_callers(m, wq):
                if not LOADER.search(c.fn.q) and not is_dead(m, c.fn):
                    live.append(c.fn.short)
        live = sorted(set(live))
        acc = {"state": "Process::state", "end_time": "Process::end_time", "err": "Process::err", "env": "Process::env"}[cell]
        ok = (not live) or (fld in patched and acc in patched[fld])
        cx.ob("C11.R3", "patch:%s" % cell, ok,
              "the process cell `%s` is written after start (by %s) and is %spatched into the stored row from `%s()`" % (
                  cell, live[:6] or "nothing", "" if ok else "NOT ", acc), f.loc(),
              **({} if ok else {"consequence": "the stored process row keeps the value of process start; a reload continues with a stale %s" % cell}))
    cx.floor("C11.R3", 5)


def _transitive_callers(m, q, depth=3):
    """call sites of q outside the Process impl (following Process methods that merely forward)"""
    out = []
    seen = set()
    work = [(q, 0)]
    while work:
        x, d = work.pop()
        if x in seen:
            continue
        seen.add(x)
        for c in m.callers().get(x, []):
            if (c.fn.impl_self or "").endswith("process::process::Process") and d < depth and "::{closure" not in c.fn.q:
                work.append((c.fn.q, d + 1))
                out.append(c)
            else:
                out.append(c)
    return out



# live cells that are stored some other way than as a column of the same row
CELL_ELSEWHERE = {
    ("Process", "tasks"): "the tasks of a process are stored as task rows (C11.R1 / R1o)",
}


def fields_read_from_self(m, f, depth=0, seen=None):
    """fields of `self` (parameter 1) that f reads, directly or through methods called on self (two levels)"""
    pa = Prov(m, "alias")
    seen = seen if seen is not None else set()
    if f.q in seen or depth > 2:
        return set()
    seen.add(f.q)
    out = set()

    def note(place_proj):
        for e in place_proj:
            if isinstance(e, list) and e[0] == "f":
                out.add(e[2])
                return

    for b in f.blocks:
        for s_ in b["s"]:
            if s_[0] != "A":
                continue
            rv = s_[2]
            places = []
            if rv[0] == "ref":
                places.append(rv[1])
            elif rv[0] in ("use", "cast"):
                op = rv[1] if rv[0] == "use" else rv[2]
                if op[0] != "k":
                    places.append(op[1])
            for loc, proj in places:
                r = pa.root_place(f, loc, [])
                if (loc == 1 or (r[0] == "param" and r[1] == 1)) and proj:
                    if loc == 1:
                        note(proj)
                    elif r[3] == () or r[3] == ("*",):
                        note(proj)
    for c in f.calls():
        if c.args and c.callee.get("local"):
            r = pa.root(f, c.args[0])
            if r[0] == "param" and r[1] == 1 and not [x for x in r[3] if x != "*"]:
                g = m.fns.get(c.q)
                if g is not None:
                    out |= fields_read_from_self(m, g, depth + 1, seen)
            elif r[0] == "param" and r[1] == 1 and r[3]:
                fld = [x for x in r[3] if x != "*"]
                if fld:
                    out.add(fld[0])
    return out


def r4_no_memory_only_cells(cx, rule="C11.R4"):
    m = cx.m
    n = 0
    for short, adt, fq in (("Task", "acts::scheduler::process::task::Task", r"^acts::scheduler::process::task::Task::into_data$"),
                           ("Process", "acts::scheduler::process::process::Process", r"^acts::scheduler::process::process::Process::into_data$")):
        f = m.one(fq)
        read = fields_read_from_self(m, f)
        for fld, ty in m.struct_field_types(adt).items():
            if not re.search(r"RwLock|Mutex|Atomic|Cell<", ty):
                continue
            n += 1
            if (short, fld) in CELL_ELSEWHERE:
                cx.ob(rule, "cell:%s.%s" % (short, fld), True, "`%s.%s` is stored elsewhere: %s" % (short, fld, CELL_ELSEWHERE[(short, fld)]), f.loc(), exception=True)
                continue
            cx.ob(rule, "cell:%s.%s" % (short, fld), fld in read,
                  "the cell `%s.%s` (%s) changes while the process runs and is read by %s::into_data into the stored row%s" % (
                      short, fld, ty[:60], short, "" if fld in read else " - it is NOT: what it holds exists in memory only and is gone after a reload"), f.loc())
    cx.floor(rule, 12)


def r5_upsert_writes(cx):
    """every Ok exit of Store::upsert_task / upsert_proc lies behind DbCollection::update or ::create of the row built from
    the live object: a path that returns Ok without writing (a "closed rows are final" shortcut, an "unchanged" test) leaves
    the store behind the engine - e.g. the catch revival Error -> Running would never reach the row"""
    m = cx.m
    pa = Prov(m, "alias")
    for name in ("upsert_task", "upsert_proc"):
        f = m.one(r"^acts::cache::store::<impl acts::store::store::Store>::%s$" % name)
        writes = [c for c in f.calls() if c.kind == "virtual" and re.search(r"DbCollection::(update|create)$", c.q)]
        data = [c for c in f.calls() if c.q.endswith("::into_data")]
        from_live = bool(data) and all(_from_call(f, pa, w.args[1], data) for w in writes)
        oks = [b for b, kind in f.exit_defs() if kind == "OK"]
        bypass = f.reach_from([0], avoid=[w.b for w in writes])
        silent = [b for b in oks if b in bypass]
        cx.ob("C11.R5", "%s:always-writes" % name, bool(writes) and bool(oks) and not silent and from_live,
              "`Store::%s` returns Ok only after it updated or created the row from `into_data()` of the live object%s" % (
                  name, "" if (not silent and from_live) else " - but %s" % ("an Ok return is reachable without a write (%s)" % [f.loc(b) for b in silent] if silent else "the row written is not the one built from the live object")), f.loc())
    cx.floor("C11.R5", 2)


def _from_call(f, pa, op, calls):
    r = pa.root(f, op)
    n = 0
    while r[0] == "call" and n < 6:
        if any(r[2] == c.b for c in calls):
            return True
        c = Call(f, r[2])
        if not c.args:
            return False
        r = pa.root(f, c.args[0])
        n += 1
    if r[0] == "local":
        return any(d[2] == "call" and any(d[0] == c.b for c in calls) for d in f.defs().get(r[1], []))
    return False


def r6_proc_err_stored(cx):
    """the process row is patched only when a task is stored (C11.R3). `proc.set_err(..)` AFTER the last task event of the
    process leaves the row without the error for ever: with keep_processes the kept row of a failed process says err = null"""
    m = cx.m
    LOADER = re.compile(r"Store>::load(_proc)?$|Cache::push_task_pri$|Process::new(_with_timestamp)?$|Store>::load_tasks$")
    STORES = re.compile(r"scheduler::Scheduler::emit_task_event$|context::Context::emit_task$|cache::Cache::(upsert|push|push_task_pri|push_proc)$|Store>::upsert_(proc|task)$|runtime::Runtime::push$")
    n = 0
    for f in sorted(m.fns.values(), key=lambda f: f.q):
        if f.crate != "acts" or f.exp or "::tests::" in f.q or LOADER.search(f.q):
            continue
        for c in f.calls():
            if not c.q.endswith("process::Process::set_err"):
                continue
            n += 1
            stores = [x.b for x in f.calls() if STORES.search(x.q)]
            exits = f.ret_blocks()
            after = f.reach_from([c.target], avoid=stores) if c.target is not None else set()
            silent = [b for b in exits if b in after]
            cx.ob("C11.R6", "proc-err:%s" % f.short, not silent,
                  "`%s` sets the process error and then stores a task of the process (or the row) before it returns%s" % (
                      f.short, "" if not silent else " - it does not: nothing after the write patches the process row, the stored row keeps err = null (a kept / reloaded failed process has no error)"), c.loc)
    cx.floor("C11.R6", 1)
