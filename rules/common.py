"""obligations shared by several properties"""
import re

from vlib.model import Call, Prov, root_str, short_name
from vlib import ts as T

TASK = "acts::scheduler::process::task::Task"


def hook_discipline(cx, rule):
    """the justification of the engine's LIFE_KINDS table: which kinds of hook statements can be
    stored under which lifecycle key"""
    m = cx.m
    pa = Prov(m, "alias")
    want = {"add_hook_catch": {"ErrorCatch"}, "add_hook_timeout": {"Timeout"}}
    forbidden_for_stmts = {"ErrorCatch", "Timeout"}
    n = 0
    for name in ("add_hook_catch", "add_hook_timeout", "add_hook_stmts"):
        for c in m.callers().get("%s::%s" % (TASK, name), []):
            from vlib.model import enum_const_cases
            cases = enum_const_cases(c.fn, pa, c.args[1])
            for key in (sorted({v for v, _ in cases}) if cases else [None]):
                n += 1
                if name in want:
                    ok = key in want[name]
                    txt = "`%s` registers under %s only (found %s in `%s`)" % (name, sorted(want[name]), key, c.fn.short)
                else:
                    ok = key is not None and key not in forbidden_for_stmts
                    txt = "`add_hook_stmts` never registers under ErrorCatch/Timeout (found %s in `%s`)" % (key, c.fn.short)
                cx.ob(rule, "hooks:%s:%s:%s" % (name, c.fn.short, key), ok, txt, c.loc)
    # the three adders build exactly their own kind of batch
    kinds = {"add_hook_catch": "Catch", "add_hook_timeout": "Timeout", "add_hook_stmts": "Statement"}
    for name, kind in kinds.items():
        f = m.one(r"^%s::%s$" % (TASK, name))
        built = {s[2][2] for b in f.blocks for s in b["s"] if s[0] == "A" and s[2][0] == "agg" and s[2][1].endswith("StatementBatch")}
        cx.ob(rule, "hooks:%s:kind" % name, built == {kind}, "`%s` stores a %s batch (found %s)" % (name, kind, sorted(built)), f.loc())
    # writers of the hooks map
    writers = set()
    for f in m.fns.values():
        if f.crate != "acts" or "task::Task" not in (f.impl_self or ""):
            continue
        for c in f.calls():
            if re.search(r"^std::sync::RwLock::<T>::write$", c.q):
                r = pa.root(f, c.args[0])
                if r[0] == "param" and r[3] and r[3][-1] == "hooks":
                    writers.add(f.short)
    allowed = {"Task::add_hook_catch", "Task::add_hook_timeout", "Task::add_hook_stmts", "Task::set_hooks"}
    cx.ob(rule, "hooks:writers", writers <= allowed and len(writers) >= 3, "the hook table of a task is written only by the three adders and the loader's set_hooks (found %s)" % sorted(writers), None)
    return n


def children_in_selector(cx, rule, what):
    """Node::children_in(kind, on) returns exactly the outputs whose kind AND `on` both equal the arguments (an output
    registered for another handler is never returned) - the selection every catch / timeout handler relies on"""
    import re
    from vlib.model import Prov, Anchor
    from vlib.boolfn import paths, is_conjunction_of
    m = cx.m
    pa = Prov(m, "alias")
    f = m.one(r"^acts::scheduler::tree::node::Node::children_in$")
    flt = [c for c in f.calls() if re.search(r"Iterator(>)?::filter(::<.*>)?$", c.q)]
    others = [c for c in f.calls() if re.search(r"Iterator(>)?::(skip|take|step_by|skip_while|take_while|filter_map|find|nth|rev|chain|zip)(::<.*>)?$", c.q)]
    if len(flt) != 1:
        return _children_in_loop_form(cx, rule, what, f, others)
    cl = pa.root(f, flt[0].args[1])
    if cl[0] != "closure" or cl[1] not in m.fns:
        raise Anchor("children_in: filter argument is not a local closure")
    g = m.fns[cl[1]]
    atoms = {}
    for c in g.calls():
        if re.search(r"PartialEq(<.*>)?>::eq$", c.q) and len(c.args) == 2:
            roots = [pa.root(g, a) for a in c.args]
            names = set()
            for r in roots:
                if r[0] == "upvar":
                    names.add("arg:" + r[1])
                elif r[0] == "param" and r[3]:
                    names.add("field:" + [x for x in r[3] if x != "*"][-1])
            if names == {"arg:typ", "field:typ"}:
                atoms["typ"] = c.b
            if names == {"arg:on", "field:on"}:
                atoms["on"] = c.b
    ok = False
    why = "the tests `n.typ == typ` and `n.on == on` were not both found"
    if set(atoms) == {"typ", "on"}:
        ok, why = is_conjunction_of(paths(m, g), atoms.values())
    cx.ob(rule, "%s:selector" % what, ok and not others,
          "Node::children_in returns an output exactly when its kind equals the kind asked for AND its `on` equals the `on` asked for%s" % (
              "" if (ok and not others) else " - but the filter %s%s" % (why, (", extra adaptors %s" % [c.q.split("::")[-1] for c in others]) if others else "")), g.loc())



def _children_in_loop_form(cx, rule, what, f, others):
    """the same obligation when children_in is written as an explicit loop that pushes the matching outputs"""
    import re
    from vlib.model import Prov, Anchor, Call, ITER_NEXT
    from vlib.ctrl import reach_table, bool_truth, deciding
    m = cx.m
    pa = Prov(m, "alias")
    push = [c for c in f.calls() if re.search(r"Vec::<.*>::push$", c.q)]
    if len(push) != 1:
        raise Anchor("children_in: neither one filter nor one push found")

    def names_of(fn, c):
        out = set()
        for a in c.args:
            r = pa.root(fn, a)
            if r[0] == "param" and not [x for x in r[3] if x != "*"]:
                out.add("arg:" + (r[2] or "?"))
            else:
                fs = r[3] if r[0] in ("param", "call", "local") else (r[2] if r[0] in ("upvar", "field") else ())
                fs = [x for x in fs if not (x.startswith("@") or x.isdigit() or x in ("*", "[]"))]
                if fs:
                    out.add("field:" + fs[-1])
        return out

    def classify(r, neg, fn):
        if r[0] == "call" and re.search(r"PartialEq(<.*>)?>::(eq|ne)$", r[1]):
            ns = names_of(fn, Call(fn, r[2]))
            t = bool_truth(neg)
            if r[1].endswith("::ne"):
                t = {k: (not v) for k, v in t.items()}
            if ns == {"arg:typ", "field:typ"}:
                return ("typ", t)
            if ns == {"arg:on", "field:on"}:
                return ("on", t)
        return None

    names, reach = reach_table(m, f, push[0].b, classify)
    ok = names == ["on", "typ"] and {tuple(sorted(x)) for x in reach} == {(("on", True), ("typ", True))}
    extra = []
    from vlib.model import conditions_of
    for g in conditions_of(m, f, push[0].b, mode="alias"):
        if g.neutral:
            continue
        r = g.root
        if classify(r, g.neg, f) is not None:
            continue
        if r[0] == "discr" and r[1][0] == "call" and ITER_NEXT.search(r[1][1]):
            continue
        extra.append(root_str(r))
    cx.ob(rule, "%s:selector" % what, ok and not extra and not others,
          "Node::children_in returns an output exactly when its kind equals the kind asked for AND its `on` equals the `on` asked for%s" % (
              "" if (ok and not extra and not others) else " - but the push is reachable under %s, other conditions %s" % (sorted(str(dict(x)) for x in reach), extra)), push[0].loc)


EVENTS = {"Push", "Remove", "Submit", "Next", "Back", "Cancel", "Abort", "Skip", "Error", "SetVars", "SetProcessVars"}


def event_arm_of(m, f, b):
    """the set of EventAction variants under which block b of f runs (guards on `<x>.event`), or None"""
    from vlib.model import guards_of, discr_variants
    arms = None
    for g in guards_of(m, f, b, mode="alias"):
        if g.root[0] == "discr":
            vs = discr_variants(m, g)
            if vs and vs <= EVENTS:
                r = g.root[1]
                if r[0] in ("call", "local", "param") and "event" in r[3]:
                    arms = vs if arms is None else (arms & vs)
    return arms


def keys_read_by_update(m):
    """{event: set(option keys the arm of Task::update reads with get_var)}, {event: set(required keys: ok_or on the lookup)}"""
    import re
    from vlib.model import Prov, Call
    pv = Prov(m, "value")
    pa = Prov(m, "alias")
    f = m.one(r"^acts::scheduler::process::task::Task::update$")
    read, required = {}, {}
    for c in f.calls():
        if re.search(r"Context::get_var(::<.*>)?$", c.q):
            arms = event_arm_of(m, f, c.b)
            k = pv.root(f, c.args[1])
            key = k[1].get("str") if k[0] == "const" else None
            if arms and key:
                for e in arms:
                    read.setdefault(e, set()).add(key)
    for c in f.calls():
        if re.search(r"Option::<.*>::ok_or(_else)?$", c.q):
            r = pa.root(f, c.args[0])
            if r[0] == "call" and re.search(r"Context::get_var(::<.*>)?$", r[1]):
                arms = event_arm_of(m, f, c.b)
                k = pv.root(f, Call(f, r[2]).args[1])
                key = k[1].get("str") if k[0] == "const" else None
                if arms and key:
                    for e in arms:
                        required.setdefault(e, set()).add(key)
    return read, required


# ---- what a composite waits for before it completes itself --------------------------------------------------------------
def _upvar_outer(m, pa, g, r, depth=0):
    """resolve an upvar root of closure g to (outer fn, root in the outer fn); None when not resolvable"""
    if r[0] != "upvar" or depth > 3:
        return (g, r)
    site = m.closure_sites().get(g.q)
    if not site:
        return None
    parent, cb, csi, ops = site
    for name, (l, p) in g.upvars:
        if name == r[1]:
            idx = [e[1] for e in p if isinstance(e, list) and e[0] == "f"]
            if idx and idx[0] < len(ops) and ops[idx[0]][0] != "k":
                pr = pa.root(parent, ops[idx[0]])
                if r[2]:
                    pr = pr[:-1] + (tuple(pr[-1]) + tuple(r[2]),)
                return _upvar_outer(m, pa, parent, pr, depth + 1)
    return None


def _parent_is(m, pa, g, c, f, recv):
    """call c in closure g is `t.parent().is_some_and(|p| p.id == <the task recv of f>.id)` with t = the closure's element"""
    if not c.q.endswith("Option::<T>::is_some_and") or len(c.args) < 2:
        return False
    a = pa.root(g, c.args[0])
    if not (a[0] == "call" and a[1].endswith("Task::parent") and not a[3]):
        return False
    el = pa.root(g, Call(g, a[2]).args[0])
    if el[:2] != ("param", 2):
        return False
    k = pa.root(g, c.args[1])
    if k[0] != "closure" or k[1] not in m.fns:
        return False
    h = m.fns[k[1]]
    if any(b["t"][0] == "switch" for b in h.blocks):
        return False
    eqs = [x for x in h.calls() if x.q.endswith("PartialEq>::eq") or x.q.endswith("PartialEq<&B>>::eq")]
    if len(eqs) != 1 or not (eqs[0].dest[0] == 0 and not eqs[0].dest[1]):
        return False
    sides = [pa.root(h, x) for x in eqs[0].args]
    p_side = [s for s in sides if s[0] == "param" and s[1] == 2 and tuple(s[3]) == ("id",)]
    u_side = [s for s in sides if s[0] == "upvar" and tuple(s[2]) == ("id",)]
    if len(p_side) != 1 or len(u_side) != 1:
        return False
    out = _upvar_outer(m, pa, h, ("upvar", u_side[0][1], ()))
    if out is None:
        return False
    of, orr = out
    return of is f and orr == recv


def wait_set(m, pa, f, c, recv):
    """the quantifier under which `f` writes Completed on its own task at call c (receiver root recv), normalised:
    None when no quantifier over the tasks beneath it holds at the write, else a dict
      form      'forall' | 'none-open'
      domain    'children' (Task::children of the task itself) | 'process' (every task of the process)
      done(total) -> set of values: may the write happen although a task with the atoms `total` exists?
                   atoms: ended (TaskState::is_completed / is_success of its state), hook (Task::is_event_processed),
                   beneath (its parent is the task itself; always True for domain 'children')
      how       printable description"""
    from vlib import quant
    for qn in quant.quantifiers(m, f):
        if qn.closure is None:
            continue
        h = qn.holds_at(f, c.b)
        if not ((qn.kind == "forall" and h is True) or (qn.kind == "exists" and h is False) or (qn.kind == "none" and h is True)):
            continue
        r = pa.root(f, qn.source.args[0]) if qn.source.args else ("?",)
        for _ in range(6):
            if r[0] == "call" and re.search(r"::(iter|into_iter|deref|as_slice|as_ref|borrow)$", r[1]) and not r[3]:
                cc = Call(f, r[2])
                r = pa.root(f, cc.args[0]) if cc.args else ("?",)
                continue
            break
        domain = None
        if r[0] == "call" and r[1].endswith("Task::children") and pa.root(f, Call(f, r[2]).args[0]) == recv:
            domain = "children"
        elif r[0] == "call" and r[1].endswith("Process::tasks"):
            domain = "process"
        if domain is None:
            continue
        g = qn.closure
        preds = set()

        def classify(x, g=g):
            mt = T.STATE_PRED.match(x.q)
            if mt and x.args:
                sr = pa.root(g, x.args[0])
                if sr[0] == "call" and sr[1] == T.Q_STATE and pa.root(g, Call(g, sr[2]).args[0])[:2] == ("param", 2):
                    if mt.group(1) in ("is_completed", "is_success"):
                        preds.add(mt.group(1))
                        return ("ended", False)
                return None
            if x.q.endswith("Task::is_event_processed") and x.args and pa.root(g, x.args[0])[:2] == ("param", 2):
                return ("hook", False)
            if _parent_is(m, pa, g, x, f, recv):
                return ("beneath", False)
            if x.q.endswith("Task::is_kind") and len(x.args) > 1 and pa.root(g, x.args[0])[:2] == ("param", 2):
                kv = pa.root(g, x.args[1])
                if kv[0] == "agg" and kv[2] == "Act":
                    return ("act", False)
                return None
            if x.q.endswith("Option::<T>::is_some_and") and x.args:
                # `newest_step.is_some_and(|s| s.id == t.id)` with newest_step = <steps directly beneath>.max_by_key(timestamp)
                r_ = pa.root(g, x.args[0])
                o_ = _upvar_outer(m, pa, g, r_) if r_[0] == "upvar" else (g, r_)
                if o_ is not None:
                    of_, rr_ = o_
                    for _ in range(5):
                        if rr_[0] == "call" and re.search(r"(as_ref|Deref>::deref|Clone>::clone|copied|cloned)$", rr_[1]):
                            rr_ = pa.root(of_, Call(of_, rr_[2]).args[0])
                            continue
                        break
                    if rr_[0] == "call" and re.search(r"Iterator(>)?::max_by_key(::<.*>)?$", rr_[1]):
                        return ("newest", False)
            return None
        table = quant.closure_truth(m, g, classify)
        if table is None:
            continue
        positive = qn.kind == "forall"      # the closure says "this one is fine"; otherwise it says "this one is open"

        def done(total, table=table, positive=positive, domain=domain):
            t = dict(total)
            if domain == "children":
                t["beneath"] = True
            vals = quant.table_value(table, t)
            # may the write happen with such a task around?  forall: closure may be True; none-open: closure may be False
            return {(v if positive else (not v)) if v in (True, False) else "?" for v in vals}
        atoms_ = {n_ for asg, _ in table for n_ in asg} | {v_[1] for _, v_ in table if isinstance(v_, tuple)}
        return {"form": "forall" if positive else "none-open", "domain": domain, "done": done, "atoms": atoms_,
                "how": "%s over %s with predicate on %s" % ("`all`" if positive else "`any`/none", "children()" if domain == "children" else "the tasks of the process",
                                                          "/".join(sorted(preds)) or "?"), "quant": qn}
    return None


def wait_combos(ws):
    """assignments of the atoms `act` / `newest` (a workflow that tells the acts next to its steps and the newest step from the
    step tasks a backward jump left behind) under which a task beneath the composite is one it waits for, and those under
    which it is a step left behind; [{}] and [] when the test does not use these atoms"""
    extra = ws["atoms"] & {"act", "newest"}
    if not extra:
        return [{}], []
    return [{"act": True, "newest": False}, {"act": True, "newest": True}, {"act": False, "newest": True}], [{"act": False, "newest": False}]
