"""obligations shared by several properties"""
import re

from vlib.model import Call, Prov, root_str, short_name
from vlib import ts as T

TASK = "acts::scheduler::process::task::Task"


def hook_discipline(cx, rule):
    """the justification of the engine's LIFE_KINDS table: which kinds of hook statements can be
    stored under which lifecycle key"""
    m = cx.m
    pa = Prov(m, "alias")
    want = {"add_hook_catch": {"ErrorCatch"}, "add_hook_timeout": {"Timeout"}}
    forbidden_for_stmts = {"ErrorCatch", "Timeout"}
    n = 0
    for name in ("add_hook_catch", "add_hook_timeout", "add_hook_stmts"):
        for c in m.callers().get("%s::%s" % (TASK, name), []):
            k = pa.root(c.fn, c.args[1])
            key = k[2] if k[0] == "agg" else None
            n += 1
            if name in want:
                ok = key in want[name]
                txt = "`%s` registers under %s only (found %s in `%s`)" % (name, sorted(want[name]), key, c.fn.short)
            else:
                ok = key is not None and key not in forbidden_for_stmts
                txt = "`add_hook_stmts` never registers under ErrorCatch/Timeout (found %s in `%s`)" % (key, c.fn.short)
            cx.ob(rule, "hooks:%s:%s:%s" % (name, c.fn.short, key), ok, txt, c.loc)
    # the three adders build exactly their own kind of batch
    kinds = {"add_hook_catch": "Catch", "add_hook_timeout": "Timeout", "add_hook_stmts": "Statement"}
    for name, kind in kinds.items():
        f = m.one(r"^%s::%s$" % (TASK, name))
        built = {s[2][2] for b in f.blocks for s in b["s"] if s[0] == "A" and s[2][0] == "agg" and s[2][1].endswith("StatementBatch")}
        cx.ob(rule, "hooks:%s:kind" % name, built == {kind}, "`%s` stores a %s batch (found %s)" % (name, kind, sorted(built)), f.loc())
    # writers of the hooks map
    writers = set()
    for f in m.fns.values():
        if f.crate != "acts" or "task::Task" not in (f.impl_self or ""):
            continue
        for c in f.calls():
            if re.search(r"^std::sync::RwLock::<T>::write$", c.q):
                r = pa.root(f, c.args[0])
                if r[0] == "param" and r[3] and r[3][-1] == "hooks":
                    writers.add(f.short)
    allowed = {"Task::add_hook_catch", "Task::add_hook_timeout", "Task::add_hook_stmts", "Task::set_hooks"}
    cx.ob(rule, "hooks:writers", writers <= allowed and len(writers) >= 3, "the hook table of a task is written only by the three adders and the loader's set_hooks (found %s)" % sorted(writers), None)
    return n
