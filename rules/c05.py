"""C05 Client actions: admission rules and at-most-once effect.

R1 admission guards of Process::do_action / Runtime::do_action; R2 (TS) every terminal action on
a terminal act reaches no effect and no Ok return; R3 (TS) validate-before-mutate inside update;
R4 options are cut down to the declared outputs before they reach the context; R5 mutual
exclusion around check-then-act (lock span).
Not decided: the race itself (which of several concurrent identical actions wins)."""
import re

from vlib.model import Anchor, Call, Prov, guards_of, discr_variants, bool_target, root_str, short_name
from vlib import ts as T
from rules.c02 import engine, TASK

TERMINAL_ACTIONS = {"Next", "Submit", "Skip", "Remove", "Abort", "Error", "Back"}
EFFECTS = re.compile(
    r"^acts::scheduler::process::task::Task::(set_data|set_data_with|set_prev|expose|update_data|set_auto_complete|set_emit_disabled|add_hook_\w+)$"
    r"|^acts::cache::store::<impl acts::store::store::Store>::set_message(_with)?$"
    r"|^acts::scheduler::process::process::Process::(set_data|set_data_with|set_state|set_err|with_env_mut|create_task)$"
    r"|^acts::scheduler::context::Context::(dispatch_act|redo_task)$")


class RejectMon(T.Monitor):
    """state = (arm, effect seen?). A terminal action entered on a terminal act must not reach an
    effect and must not return Ok."""
    init = (None, False)

    def __init__(self, terminal_entry):
        self.terminal_entry = terminal_entry
        self.arms = set()
        self.merged = {}
        self.late_errors = {}

    def on_event(self, mon, ev):
        arm, eff = mon
        k = ev[0]
        if k == "BRANCH" and ev[1] == "EventAction" and arm is None and short_name(ev[3]).endswith("Task::update"):
            # arms may be merged (`Remove | Submit => ..`): a merged arm counts for each of its members
            arm = ev[2][0] if len(ev[2]) == 1 else "|".join(ev[2])
            self.arms |= set(ev[2])
            if len(ev[2]) > 1 and set(ev[2]) & TERMINAL_ACTIONS:
                arm = sorted(set(ev[2]) & TERMINAL_ACTIONS)[0]
                self.merged[arm] = tuple(ev[2])
            return (arm, eff)
        if k in ("WRITE", "WRITE_OTHER", "EMIT", "EMIT_EVENT", "EMIT_OTHER", "SCHED", "PERSIST", "PUSH_OTHER", "EFFECT", "HAVOC"):
            if arm in TERMINAL_ACTIONS and self.terminal_entry:
                return ("VIOL", ("effect", arm, T_site(ev)))
            return (arm, True)
        return mon

    def on_exit(self, mon, s, kind):
        arm, eff = mon
        if arm in TERMINAL_ACTIONS and self.terminal_entry and kind in ("OK", "UNIT"):
            return ("ok-return", arm, None)
        if arm in TERMINAL_ACTIONS and eff and kind == "ERR_NEW":
            return ("late-error", arm, None)
        return None


def T_site(ev):
    k = ev[0]
    if k == "WRITE":
        return (k, ev[3], ev[4])
    if k in ("EMIT", "EMIT_EVENT", "PERSIST"):
        return (k, ev[2], ev[3])
    if k == "EFFECT":
        return (k + ":" + short_name(ev[1]), ev[2], ev[3])
    if k == "HAVOC":
        return (k + ":" + ev[1], ev[2], ev[3])
    return (k, ev[1], ev[2])


def run(cx):
    m = cx.m
    cx.rule("C05.R1", "K1", "an action reaches Task::update only after task lookup, kind check and declared-output check; unknown process is an error")
    cx.rule("C05.R2", "TS", "next/submit/skip/remove/abort/error/back on a terminal act: no write, emit, schedule, data or message-status effect, and no Ok return")
    cx.rule("C05.R3", "TS", "validate before mutate: update does not construct an error after an effect of the same (non-cancel) arm")
    cx.rule("C05.R4", "E3", "when the act declares outputs the action options are rebuilt from exactly those keys before they are bound to the context")
    cx.rule("C05.R5", "K10", "a lock is held from the `is_completed` check to the state write (at-most-once under concurrent identical actions)")
    r1(cx)
    r2_r3(cx)
    r4(cx)
    r5(cx)


def r1(cx):
    m = cx.m
    pa = Prov(m, "alias")
    f = m.one(r"^acts::scheduler::process::process::Process::do_action$")
    upd = [c for c in f.calls() if c.q == TASK + "::update"]
    if len(upd) != 1:
        raise Anchor("do_action: expected one call of Task::update, found %d" % len(upd))
    site = upd[0]
    task_root = pa.root(f, site.args[0])
    # (a) lookup: task comes from ok_or(Process::task(..)) ?
    ok = False
    r = task_root
    if r[0] == "call" and T.TRY_BRANCH.search(r[1]) and r[3] and r[3][0] == "@Continue":
        r2 = pa.root(f, Call(f, r[2]).args[0])
        if r2[0] == "call" and re.search(r"Option::<T>::ok_or(_else)?$", r2[1]):
            r3 = pa.root(f, Call(f, r2[2]).args[0])
            ok = r3[0] == "call" and r3[1].endswith("Process::task")
    cx.ob("C05.R1", "lookup", ok, "the task given to update is `self.task(tid)` turned into an error when missing (`ok_or(..)?`)", site.loc,
          task=root_str(task_root))
    # (b) kind check
    kinds = {}
    for c in f.calls():
        if c.q == TASK + "::is_kind" and pa.root(f, c.args[0]) == task_root:
            kr = pa.root(f, c.args[1])
            kinds[kr[2] if kr[0] == "agg" else "?"] = c
    both = "Step" in kinds and "Act" in kinds
    cx.ob("C05.R1", "kind:tests", both, "do_action tests the task kind against Step and against Act (found %s)" % sorted(kinds), f.loc())
    if both:
        sw = {}
        for name, c in kinds.items():
            # the switch consuming the call result
            sb = c.target
            while f.blocks[sb]["t"][0] == "goto":
                sb = f.blocks[sb]["t"][1]
            t = f.blocks[sb]["t"]
            if t[0] != "switch":
                raise Anchor("do_action: is_kind(%s) result is not branched on" % name)
            sw[name] = sb
            bad = bool_target(f, sb, False)
            reach = site.b in f.reach_from([bad])
            cx.ob("C05.R1", "kind:%s:reject" % name, not reach,
                  "when `is_kind(%s)` is false the action cannot reach update (it returns an error)" % name, c.loc)
            # polarity of the event test guarding this kind test
            pol = None
            for g in guards_of(m, f, c.b, mode="alias"):
                rr = g.root
                if rr[0] == "call" and re.search(r"EventAction as std::cmp::PartialEq>::eq$", rr[1]) and g.truth is not None:
                    a = [pa.root(f, x) for x in Call(f, rr[2]).args]
                    const = [T_const_variant(f, x) for x in a]
                    if "Push" in const:
                        pol = g.truth
                # `match action.event { Push => .., _ => .. }`
                if rr[0] == "discr" and (rr[2] or "").endswith("EventAction"):
                    vs_ = discr_variants(m, g)
                    if vs_ == {"Push"}:
                        pol = True
                    elif vs_ and "Push" not in vs_ and len(vs_) >= 8:
                        pol = False
            want = (name == "Step")
            cx.ob("C05.R1", "kind:%s:event" % name, pol is want,
                  "`is_kind(%s)` is required exactly when the action %s push" % (name, "is" if want else "is not"), c.loc)
        allpass = site.b not in f.reach_from([0], avoid=list(sw.values()))
        cx.ob("C05.R1", "kind:all-paths", allpass, "every path to update passes one of the two kind tests", site.loc)
    # (c) declared outputs
    ck = [c for c in f.calls() if re.search(r"::contains_key$", c.q)]
    okc = False
    for c in ck:
        recv = pa.root(f, c.args[0])
        if recv[0] in ("local", "param", "call") and recv[3][-1:] == ("options",):
            key = pa.root(f, c.args[1])
            src = pa.iter_source(f, ("call", key[1], key[2], ())) if key[0] == "call" else None
            from_rets = False
            if src is not None:
                s0 = src[0]
                from_rets = _is_node_outputs(f, pa, s0)
            sb = c.target
            while f.blocks[sb]["t"][0] == "goto":
                sb = f.blocks[sb]["t"][1]
            if f.blocks[sb]["t"][0] != "switch":
                continue
            # `!contains_key` : find the target taken when contains_key is false
            r_sw = pa.root(f, f.blocks[sb]["t"][1])
            neg = False
            while r_sw[0] == "not":
                neg = not neg
                r_sw = r_sw[1]
            bad = bool_target(f, sb, False if not neg else True)
            rejects = site.b not in f.reach_from([bad])
            okc = okc or (from_rets and rejects)
            cx.ob("C05.R1", "outputs:required", from_rets and rejects,
                  "every declared output key of the act must be present in the action options, otherwise the action is refused before update", c.loc,
                  key_source=root_str(src[0]) if src else None)
    if not ck:
        cx.ob("C05.R1", "outputs:required", False, "no declared-output check found in do_action", f.loc())
    # what `node.outputs()` hands to that check is the whole declared list: a filter in the accessor ("only the outputs
    # declared without a value") takes keys out of the admission check
    flt = []
    accs = [g_ for q_, g_ in m.fns.items() if re.search(r"tree::node::(Node|NodeContent)::outputs(::\{closure#\d+\})*$", q_)]
    for g_ in accs:
        flt += [c_ for c_ in g_.calls() if re.search(r"Iterator(>)?::(filter|filter_map|skip|take|skip_while|take_while|step_by)(::<.*>)?$|::retain(::<.*>)?$|::remove(::<.*>)?$", c_.q)]
    cx.ob("C05.R1", "outputs:all-declared", len(accs) >= 2 and not flt,
          "Node::outputs returns every declared output of the node (the list the admission check runs over)%s" % (
              "" if not flt else " - but it drops some (`%s`): an action that omits such a key is admitted" % short_name(flt[0].q)), (flt or [None])[0].loc if flt else (accs[0].loc() if accs else None))
    # (d) unknown process
    g = m.one(r"^acts::scheduler::runtime::Runtime::do_action$")
    pc = [c for c in g.calls() if c.q.endswith("Process::do_action")]
    if len(pc) != 1:
        raise Anchor("Runtime::do_action: expected one call of Process::do_action")
    some = False
    for gd in guards_of(m, g, pc[0].b, mode="alias"):
        if gd.root[0] == "discr" and gd.root[1][0] == "call" and gd.root[1][1].endswith("Cache::proc"):
            some = discr_variants(m, gd) == {"Some"}
            none_t = [tb for v, tb in g.blocks[gd.b]["t"][2] if v == "0"]
    err_on_none = False
    if some and none_t:
        blocks = g.reach_from(none_t)
        err_on_none = any(b in blocks and k == "ERR_NEW" for b, k in g.exit_defs()) and pc[0].b not in blocks
    cx.ob("C05.R1", "unknown-process", some and err_on_none, "an action on a process that is neither cached nor stored returns an error", pc[0].loc)
    cx.floor("C05.R1", 10)


def T_const_variant(f, r):
    if r[0] == "agg":
        return r[2]
    if r[0] == "const" and r[1].get("promoted") is not None:
        try:
            pb = f.promoted[r[1]["promoted"]]
        except Exception:
            return None
        for blk in pb.blocks:
            for s in blk["s"]:
                if s[0] == "A" and s[2][0] == "agg":
                    return s[2][2]
    return None


def _is_node_outputs(f, pa, r):
    if r[0] == "call" and r[1].endswith("Node::outputs"):
        return True
    if r[0] == "local":
        for d in f.defs().get(r[1], []):
            if d[2] == "call" and (d[3][1].get("q") or "").endswith("Node::outputs"):
                return True
            if d[2] == "assign" and d[3][0] == "use" and d[3][1][0] != "k":
                if _is_node_outputs(f, pa, pa.root(f, d[3][1])):
                    return True
            if d[2] == "assign" and d[3][0] == "ref":
                if _is_node_outputs(f, pa, pa.root_place(f, d[3][1][0], d[3][1][1])):
                    return True
    return False


def r2_r3(cx):
    m = cx.m
    eng, tables = engine(cx)
    upd = m.one(r"^%s::update$" % TASK)
    eng.branch_adts = ("EventAction",)
    eng.set_effects(EFFECTS, [q for q in m.fns if EFFECTS.search(q)])
    try:
        seen_arms = set()
        merged_arms = {}
        rejected = {}
        for s0 in T.STATES:
            mon = RejectMon(terminal_entry=(s0 in T.TERMINAL))
            viol = eng.run(upd, s0, mon)
            seen_arms |= mon.arms
            for rep, members in mon.merged.items():
                merged_arms[rep] = members
            for payload, path in viol:
                kind, arm, site = payload
                if kind in ("effect", "ok-return"):
                    rejected.setdefault((arm, kind, site), (s0, path))
                else:
                    rejected.setdefault((arm, kind, None), (s0, path))
        allarms = {n for n, _ in m.variants("acts::event::EventAction")}
        merged = {}
        for k_, v_ in list(rejected.items()):
            pass
        if not TERMINAL_ACTIONS <= seen_arms:
            cx.undecide("C05.R2", "the match on the action kind in Task::update was not recognised (arms seen: %s)" % sorted(seen_arms))
        rep_of = {}
        for rep, members in merged_arms.items():
            for x in members:
                rep_of[x] = rep
        for arm in sorted(TERMINAL_ACTIONS):
            ra = rep_of.get(arm, arm)
            bad = [(k, v) for k, v in rejected.items() if k[0] == ra and k[1] in ("effect", "ok-return")]
            if not bad:
                cx.ob("C05.R2", "reject:%s" % arm, True,
                      "`%s` on an act in any of the 8 terminal states reaches no effect and no Ok return" % arm.lower(), upd.loc())
            for (a, kind, site), (s0, path) in bad[:3]:
                what = "returns Ok" if kind == "ok-return" else "reaches %s at %s" % (site[0], m.fns[site[1]].loc(site[2]))
                cx.ob("C05.R2", "reject:%s" % arm, False,
                      "`%s` on an act that is already %s %s" % (arm.lower(), s0, what), upd.loc(),
                      path=[T.fmt_event(m, e) for e in path[-8:]])
            late = [(k, v) for k, v in rejected.items() if k[0] == ra and k[1] == "late-error"]
            cx.ob("C05.R3", "validate-first:%s" % arm, not late,
                  "`%s`: no error is constructed in update after the arm already changed something%s" % (
                      arm.lower(), (" (entered in %s)" % late[0][1][0]) if late else ""), upd.loc(),
                  **({"path": [T.fmt_event(m, e) for e in late[0][1][1][-8:]]} if late else {}))
        cx.note("C05.R2/R3: update explored from 13 entry states; arms recognised: %s (of %s)" % (sorted(seen_arms), sorted(allarms)))
    finally:
        eng.branch_adts = ()
        eng.set_effects(None)
    cx.floor("C05.R2", 7)
    cx.floor("C05.R3", 7)


from vlib.model import ITER_NEXT as T_ITER


def r4(cx):
    m = cx.m
    pa = Prov(m, "alias")
    f = m.one(r"^acts::scheduler::process::process::Process::do_action$")
    sa = [c for c in f.calls() if c.q.endswith("Context::set_action")]
    if len(sa) != 1:
        raise Anchor("do_action: expected one set_action call")
    act_root = pa.root(f, sa[0].args[1])
    # assignments `action.options = <local>`
    assigns = []
    for bi, b in enumerate(f.blocks):
        for si, s in enumerate(b["s"]):
            if s[0] == "A" and s[1][1] and s[1][1][-1][0] == "f" and s[1][1][-1][2] == "options":
                base = pa.root_place(f, s[1][0], s[1][1][:-1])
                if base == act_root or (base[0] == "local" and act_root[0] == "local" and base[1] == act_root[1]):
                    assigns.append((bi, si, s))
    cx.ob("C05.R4", "rebuild:present", bool(assigns), "do_action overwrites `action.options` with the rebuilt map", sa[0].loc)
    if assigns:
        # guard: declared outputs non-empty
        nonempty = False
        for bi, si, s in assigns:
            for g in guards_of(m, f, bi, mode="alias"):
                r = g.root
                if r[0] == "call" and r[1].endswith("::is_empty") and g.truth is False:
                    if _is_node_outputs(f, pa, pa.root(f, Call(f, r[2]).args[0])):
                        nonempty = True
        # ... and under no other condition: an action for which the cut-down is skipped carries the client's whole map into
        # Task::update (next() writes it to the enclosing scopes, the Error / Abort arms into the act's data)
        from rules.common import event_arm_of
        from rules.c01 import gdesc
        extra = []
        from vlib.model import conditions_of
        for g in conditions_of(m, f, assigns[0][0], mode="alias"):
            if g.neutral:
                continue
            r = g.root
            if r[0] == "call" and r[1].endswith("::is_empty") and g.truth is False:
                continue
            if r[0] == "discr" and r[1][0] == "call" and (T_ITER.search(r[1][1]) or re.search(r"Try>::branch$", r[1][1])):
                continue
            if r[0] == "discr" and r[1][0] == "call" and r[1][1].endswith("Process::task"):
                continue
            if r[0] == "call" and r[1].endswith("Task::is_kind"):
                continue  # the kind admission that precedes it
            if r[0] == "call" and r[1].endswith("::contains_key") and g.truth is True:
                continue  # the declared-output check inside the rebuild loop (a missing key refuses the action: C05.R1)
            if r[0] in ("bin",) and "event" in str(r):
                # `action.event == Push` admission test: both sides go on
                if g.truth is False:
                    continue
            extra.append(gdesc(m, g))
        only_for = event_arm_of(m, f, assigns[0][0])
        cx.ob("C05.R4", "rebuild:when-declared", nonempty and not extra and only_for is None,
              "the rebuild happens exactly when the act declares outputs (`!rets.is_empty()`), for every action%s" % (
                  "" if (nonempty and not extra and only_for is None) else " - but it also depends on %s: the other actions reach Task::update with the client's whole option map" % (
                      extra or ("the action being one of %s" % sorted(only_for)))), f.loc(assigns[0][0]))
        # source: a fresh Vars filled only by set(key of rets, value of action.options[key])
        src = pa.root(f, assigns[0][2][2][1]) if assigns[0][2][2][0] == "use" else None
        fresh = False
        keys_ok = False
        if src is not None and src[0] == "call" and src[1].endswith("Vars::new") and not src[3]:
            fresh = True
            sets = [c for c in f.calls() if (c.q.endswith("Vars::set") or re.search(r"Vars::set::<", c.q)) and pa.root(f, c.args[0]) == src]
            keys_ok = bool(sets)
            own_sets = []
            for c in sets:
                key = pa.root(f, c.args[1])
                it = pa.iter_source(f, ("call", key[1], key[2], ())) if key[0] == "call" else None
                if it is not None and _is_node_outputs(f, pa, it[0]):
                    continue
                if it is not None and it[0][0] == "local":
                    own_sets.append((c, it[0]))
                    continue
                keys_ok = False
            # keys that are not declared outputs: only what the action itself needs, per event (C15: the error return keeps its code)
            from rules.common import keys_read_by_update
            read, required = keys_read_by_update(m)
            kept = {}
            for c, loc in own_sets:
                table = _own_keys_table(m, f, loc[1])
                if table is None:
                    keys_ok = False
                    continue
                for e, ks in table.items():
                    kept.setdefault(e, set()).update(ks)
                bad = {e: sorted(ks - read.get(e, set())) for e, ks in table.items() if ks - read.get(e, set())}
                # the value stored under the key is the client's value of that same key
                v = pa.root(f, c.args[2])
                same = False
                n = 0
                while v[0] == "call" and n < 4:
                    cc = Call(f, v[2])
                    if v[1].endswith("Vars::get_value"):
                        same = pa.root(f, cc.args[1])[:3] == pa.root(f, c.args[1])[:3]
                        break
                    v = pa.root(f, cc.args[0]) if cc.args else ("x",)
                    n += 1
                cx.ob("C05.R4", "rebuild:own-keys", not bad and same,
                      "besides the declared outputs the rebuilt options keep, per action, only keys that this action's arm of Task::update reads (%s)%s" % (
                          ", ".join("%s: %s" % (e, sorted(ks)) for e, ks in sorted(table.items()) if ks) or "none",
                          "" if (not bad and same) else " - but %s" % (("keeps %s which that arm never reads" % bad) if bad else "the value does not come from the same key of the client's options")), c.loc)
            only_for = event_arm_of(m, f, assigns[0][0])
            lost = {e: sorted(ks - kept.get(e, set())) for e, ks in required.items() if ks - kept.get(e, set()) and (only_for is None or e in only_for)}
            cx.ob("C05.R4", "rebuild:required-keys-survive", not lost,
                  "every key an arm of Task::update insists on (ok_or on the lookup: %s) survives the cut-down for that action%s" % (
                      ", ".join("%s: %s" % (e, sorted(ks)) for e, ks in sorted(required.items())),
                      "" if not lost else " - lost: %s: that action is always refused on an act with declared outputs, and the error return of a sub-process to such an act loses its code" % lost), sa[0].loc)
            others = [c for c in f.calls() if re.search(r"Vars::(insert|extend|append|with)$|Map::<.*>::(insert|extend|append)$", c.q)
                      and c.args and pa.root(f, c.args[0]) == src]
            keys_ok = keys_ok and not others
        cx.ob("C05.R4", "rebuild:keys", fresh and keys_ok, "the rebuilt map starts empty and receives only keys taken from the act's declared outputs", sa[0].loc)
        # every path from the `outputs declared` edge to set_action passes the assignment
        ab = {a[0] for a in assigns}
        starts = []
        for bi, si, s_ in assigns:
            for g in guards_of(m, f, bi, mode="alias"):
                r = g.root
                if r[0] == "call" and r[1].endswith("::is_empty") and g.truth is False:
                    starts.append(bool_target(f, g.b, False))
        ok = bool(starts) and any(f.can_reach(a, sa[0].b) for a in ab) and all(sa[0].b not in f.reach_from([st], avoid=ab) for st in starts)
        cx.ob("C05.R4", "rebuild:before-bind", ok, "when outputs are declared every path to `ctx.set_action` passes the assignment of the rebuilt options", sa[0].loc)
    cx.floor("C05.R4", 6)


LOCKS = re.compile(r"^std::sync::Mutex::<T>::lock$|^std::sync::RwLock::<T>::write$|^tokio::sync::Mutex::<T>::(lock|blocking_lock)$|parking_lot::.*::lock$")


def r5(cx):
    m = cx.m
    pa = Prov(m, "alias")
    upd = m.one(r"^%s::update$" % TASK)
    da = m.one(r"^acts::scheduler::process::process::Process::do_action$")
    held = []
    for f, anchor_pat in ((da, TASK + "::update"), (upd, T.Q_SET_STATE)):
        anchors = [c for c in f.calls() if c.q == anchor_pat]
        for c in f.calls():
            if LOCKS.search(c.q) and not c.exp:
                # the guard must be alive at every anchor: the lock call dominates it and no drop of the
                # guard local lies on the way
                gl = _guard_local(f, c)
                if gl is None:
                    continue
                alive = all(f.dominates(c.b, a.b) and not _dropped_between(f, gl, c.b, a.b) for a in anchors)
                if anchors and alive:
                    held.append((f, c))
    cx.ob("C05.R5", "lock-span", bool(held),
          "check-then-act on the act's state is serialised by a lock held across `is_completed` and the write "
          "(found: %s)" % ([x[1].loc for x in held] or "no lock; the per-task/per-process mutexes are commented out"), upd.loc(),
          consequence="two concurrent identical terminal actions can both pass the check and both take effect")


def _guard_local(f, c):
    # lock(..) -> LockResult -> unwrap -> guard local
    if c.dest[1]:
        return None
    loc = c.dest[0]
    for c2 in f.calls():
        if re.search(r"Result::<T, E>::(unwrap|expect)$", c2.q) and c2.args and c2.args[0][0] in ("m", "c") and c2.args[0][1][0] == loc:
            return c2.dest[0]
    return loc


def _dropped_between(f, local, b_from, b_to):
    fwd = f.reach_from([b_from])
    for b in fwd:
        t = f.blocks[b]["t"]
        if t[0] == "drop" and t[1][0] == local and not t[1][1] and f.can_reach(b, b_to) and b != b_to:
            return True
    return False



def _own_keys_table(m, f, loc):
    """local `loc` is assigned, per arm of a match on `<action>.event`, a promoted array of string constants:
    {event: set(keys)} or None"""
    from rules.common import event_arm_of, EVENTS
    table = {}
    covered = set()
    for bi, si, kind, payload in f.defs().get(loc, []):
        if kind != "assign":
            return None
        # follow `_229 = move _243 as &[&str]` <- `&(*_293)` <- uneval promoted
        keys = _promoted_strs(f, payload)
        if keys is None:
            return None
        arms = event_arm_of(m, f, bi)
        if arms is None:
            return None
        for e in arms:
            table.setdefault(e, set()).update(keys)
            covered.add(e)
    return table


def _promoted_strs(f, rv, depth=0):
    if depth > 6:
        return None
    if rv[0] == "use":
        op = rv[1]
    elif rv[0] == "cast":
        op = rv[2]
    elif rv[0] == "ref":
        op = ("c", rv[1])
    else:
        return None
    if op[0] == "k":
        idx = op[1].get("promoted")
        if idx is None:
            return None
        pb = f.promoted[idx]
        out = set()
        for b in pb.blocks:
            for s in b["s"]:
                if s[0] == "A" and s[2][0] == "use" and s[2][1][0] == "k" and "str" in s[2][1][1]:
                    out.add(s[2][1][1]["str"])
        return out
    loc = op[1][0]
    ds = [d for d in f.defs().get(loc, []) if d[2] == "assign"]
    if len(ds) != 1:
        return None
    return _promoted_strs(f, ds[0][3], depth + 1)
