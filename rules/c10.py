"""C10 Store contract: faithful records and one query semantics on every backend.

Decides (DESIGN 5/C10): R1 mapper agreement for the six row types on both back ends, R2 count
and page are computed from the same filtered set, R3 AND accumulation does not use "accumulator
is empty" as "first conjunct", R4 ordering compares typed values, R5 SQLite operator table.
Not decided: equality of answers of the two back ends for arbitrary operation sequences, SQL
engine semantics."""
import re

from vlib.model import Anchor, Call, Prov, guards_of, discr_variants, root_str, short_name
from vlib import mapper as M

COLLECTIONS = ["event", "message", "model", "package", "proc", "task"]
ROW = {c: "acts::store::data::%s::%s" % (c, c.capitalize()) for c in COLLECTIONS}


def row_fields(cx, c):
    return cx.m.struct_fields(ROW[c])


def run(cx):
    m = cx.m
    pv = Prov(m, "value")
    cx.rule("C10.R1a", "K4", "memory doc(): one key per row field, key k is filled from self.k")
    cx.rule("C10.R1g", "K2", "memory create / update store the whole document of the record under its id (update replaces, never merges)")
    cx.rule("C10.R1b", "K4", "SQLite from_row: every row field is read from the column of the same name")
    cx.rule("C10.R1c", "K4", "SQLite create: column list and value list agree position by position and cover every field")
    cx.rule("C10.R1d", "K4", "SQLite update: every (column, value) pair agrees and every field but id is updated")
    cx.rule("C10.R1e", "K4", "SQLite find/query select lists contain every column from_row reads")
    cx.rule("C10.R1f", "K4", "SQLite table definition declares every column")
    cx.rule("C10.R2", "K11", "total count and page rows are computed from the same filtered set")
    cx.rule("C10.R3", "flow", "AND accumulation does not treat an empty accumulator as the first conjunct")
    cx.rule("C10.R4", "E3", "ordering compares typed values, not their string images")
    cx.rule("C10.R5", "K5", "SQLite translation maps each filter operator / connective to the same-named SQL one")

    for c in COLLECTIONS:
        fields = row_fields(cx, c)
        # ---- R1a memory doc ------------------------------------------------------------------
        f = m.one(r"^acts::store::db::mem::r#impl::%s::<impl acts::store::db::mem::DbDocument for .*>::doc$" % c)
        seen = {}
        for call in f.calls():
            if re.search(r"HashMap::<.*>::insert$|HashMap::<K, V, S>::insert$", call.q):
                k = M.const_str(pv.root(f, call.args[1]))
                v = pv.root(f, call.args[2])
                src = M.param_field(v, 1)
                if k is None:
                    raise Anchor("doc() key is not a string literal in %s at %s" % (f.short, call.loc))
                seen[k] = (src, call)
        oks = [b for b, k in f.exit_defs() if k == "OK"]
        for fld in fields:
            if fld not in seen:
                cx.ob("C10.R1a", "mem:%s:%s" % (c, fld), False,
                      "memory row of `%s` has no key `%s`: the field is lost by create/update -> find" % (c, fld), f.loc(),
                      keys=sorted(seen))
            else:
                src, call = seen[fld]
                always = all(f.dominates(call.b, b) for b in oks)
                if not always:
                    cx.ob("C10.R1a", "mem:%s:%s" % (c, fld), False,
                          "memory row key `%s` of `%s` is inserted only on some paths of doc(): a record without it loses the key (update cannot clear it, filters on it fail)" % (fld, c), call.loc)
                else:
                    cx.ob("C10.R1a", "mem:%s:%s" % (c, fld), src == fld,
                          "memory row key `%s` of `%s` is filled from %s" % (fld, c, ("self." + src) if src else root_str(pv.root(f, call.args[2]))), call.loc)
        for k in seen:
            if k not in fields:
                cx.ob("C10.R1a", "mem:%s:+%s" % (c, k), False, "memory row of `%s` has key `%s` that is no field of the row type" % (c, k), seen[k][1].loc)

        # ---- SQLite ----------------------------------------------------------------------------
        idf = m.one(r"^<acts_store_sqlite::collection::%s::CollectionIden as sea_query::Iden>::unquoted$" % c)
        iden_adt, iden = M.iden_table(m, idf)
        cols = {v: s for v, s in iden.items() if v != "Table"}

        # R1b from_row
        f = m.one(r"^acts_store_sqlite::collection::%s::<impl acts_store_sqlite::database::DbRow for .*>::from_row$" % c)
        aggs = M.aggregates_of(f, ROW[c].split("::", 1)[1]) or M.aggregates_of(f, ROW[c])
        aggs = aggs or [a for a in _aggs_by_variant(f, c.capitalize())]
        if len(aggs) != 1:
            raise Anchor("from_row of %s: expected one row literal, found %d" % (c, len(aggs)))
        _, _, ops = aggs[0]
        read_cols = set()
        for fld in fields:
            gets = M.origin_calls(m, f, ops[fld], r"rusqlite::Row::<.*>::get(_unwrap)?$")
            if len(gets) != 1:
                raise Anchor("from_row of %s: field %s does not derive from exactly one column read (%d)" % (c, fld, len(gets)))
            col = M.const_str(pv.root(f, gets[0].args[1]))
            if col is None:
                raise Anchor("from_row of %s: field %s is not read with a literal column name" % (c, fld))
            read_cols.add(col)
            cx.ob("C10.R1b", "sqlite:%s:from_row:%s" % (c, fld), col == fld,
                  "SQLite row field `%s.%s` is read from column `%s`" % (c, fld, col), gets[0].loc)

        coll = "acts_store_sqlite::collection::%s::%sCollection" % (c, c.capitalize())
        # R1c create
        f = m.one(r"^<%s as acts::DbCollection>::create$" % re.escape(coll))
        ccols = _one_call(f, r"InsertStatement::columns$")
        cvals = _one_call(f, r"InsertStatement::values$")
        carr = M.array_operands(f, pv.root(f, ccols.args[1]))
        varr = M.array_operands(f, pv.root(f, cvals.args[1]))
        if carr is None or varr is None:
            raise Anchor("create of %s: columns/values are not array literals" % c)
        pairs = []
        for i in range(max(len(carr), len(varr))):
            col = cols.get(M.variant_of(pv.root(f, carr[i]))) if i < len(carr) else None
            fld = M.param_field(pv.root(f, varr[i]), 2) if i < len(varr) else None
            pairs.append((col, fld))
        for col, fld in pairs:
            cx.ob("C10.R1c", "sqlite:%s:create:%s" % (c, col), col is not None and col == fld,
                  "SQLite insert of `%s`: column `%s` receives data.%s" % (c, col, fld), ccols.loc)
        for fld in fields:
            if fld not in [p[0] for p in pairs]:
                cx.ob("C10.R1c", "sqlite:%s:create:-%s" % (c, fld), False, "SQLite insert of `%s` omits column `%s`" % (c, fld), ccols.loc)

        # R1d update
        f = m.one(r"^<%s as acts::DbCollection>::update$" % re.escape(coll))
        uvals = _one_call(f, r"UpdateStatement::values$")
        uarr = M.array_operands(f, pv.root(f, uvals.args[1]))
        if uarr is None:
            raise Anchor("update of %s: values is not an array literal" % c)
        updated = set()
        for op in uarr:
            t = M.tuple_operands(f, pv.root(f, op))
            if t is None:
                raise Anchor("update of %s: element is not a tuple literal" % c)
            col = cols.get(M.variant_of(pv.root(f, t[0])))
            r = pv.root(f, t[1])
            fld = M.param_field(r, 2)
            updated.add(col)
            cx.ob("C10.R1d", "sqlite:%s:update:%s" % (c, col), col is not None and col == fld,
                  "SQLite update of `%s`: column `%s` receives model.%s" % (c, col, fld if fld else root_str(r)), uvals.loc)
        for fld in fields:
            if fld != "id" and fld not in updated:
                cx.ob("C10.R1d", "sqlite:%s:update:-%s" % (c, fld), False, "SQLite update of `%s` never writes column `%s`" % (c, fld), uvals.loc)

        # R1e select lists
        for meth in ("find", "query"):
            f = m.one(r"^<%s as acts::DbCollection>::%s$" % (re.escape(coll), meth))
            sel = _one_call(f, r"SelectStatement::columns$")
            arr = M.array_operands(f, pv.root(f, sel.args[1]))
            if arr is None:
                raise Anchor("%s of %s: select list is not an array literal" % (meth, c))
            got = {cols.get(M.variant_of(pv.root(f, o))) for o in arr}
            missing = sorted(read_cols - got)
            cx.ob("C10.R1e", "sqlite:%s:%s:select" % (c, meth), not missing,
                  "SQLite %s of `%s` selects every column read by from_row (missing: %s)" % (meth, c, missing or "none"), sel.loc)

        # R1f table definition
        f = m.one(r"^<%s as acts_store_sqlite::database::DbInit>::init$" % re.escape(coll))
        declared = set()
        for call in f.calls():
            if call.q.endswith("ColumnDef::new"):
                declared.add(cols.get(M.variant_of(pv.root(f, call.args[0]))))
        missing = sorted(set(fields) - declared)
        cx.ob("C10.R1f", "sqlite:%s:table" % c, not missing,
              "SQLite table of `%s` declares every column (missing: %s)" % (c, missing or "none"), f.loc())

        # R2 sqlite: count query and row query get the same filter under the same guard
        f = m.one(r"^<%s as acts::DbCollection>::query$" % re.escape(coll))
        cw = [call for call in f.calls() if call.q.endswith("SelectStatement::cond_where")]
        if len(cw) == 1:
            # one statement only is filtered: when that is the row statement and the count statement is a separate one
            # built from scratch (not a clone of the filtered one), the total counts every row of the table
            r1 = _chain_root(m, f, cw[0].args[0])
            rc_ = _count_stmt_root(m, f)
            if rc_ is not None and rc_ != r1 and not (rc_[0] == "call" and "clone" in rc_[1].lower()):
                cx.ob("C10.R2", "sqlite:%s:count-vs-page" % c, False,
                      "SQLite query of `%s`: count statement and row statement receive the same filter under the same guard (only %s is filtered; the count statement %s is not)" % (c, root_str(r1), root_str(rc_)), cw[0].loc)
                continue
        if len(cw) != 2:
            raise Anchor("query of %s: expected two cond_where calls, found %d" % (c, len(cw)))
        recv = []
        flt = []
        gsets = []
        for call in cw:
            recv.append(Prov(m, "alias").root(f, call.args[0]))
            flt.append(pv.root(f, call.args[1]))
            gsets.append(tuple((g.b, tuple(sorted(g.labels))) for g in guards_of(m, f, call.b)))
        same_filter = flt[0] == flt[1] and flt[0][0] == "call" and flt[0][1].endswith("into_query")
        ok = same_filter and recv[0] != recv[1] and gsets[0] == gsets[1]
        cx.ob("C10.R2", "sqlite:%s:count-vs-page" % c, ok,
              "SQLite query of `%s`: count statement and row statement receive the same filter under the same guard" % c, cw[0].loc,
              filters=[root_str(x) for x in flt], receivers=[root_str(x) for x in recv])
        # the count must not be limited: limit/offset are applied to the row statement only
        lim = [call for call in f.calls() if re.search(r"SelectStatement::(limit|offset)$", call.q)]
        count_recv = [r for r, call in zip(recv, cw)]
        bad = []
        for call in lim:
            r = _chain_root(m, f, call.args[0])
            if r == _count_stmt_root(m, f):
                bad.append(call.loc)
        cx.ob("C10.R2", "sqlite:%s:count-unpaged" % c, not bad and len(lim) >= 2,
              "SQLite query of `%s`: limit/offset are applied to the row statement only" % c, f.loc())

    r2_sqlite_count_source(cx)
    r2_page_bookkeeping(cx)
    cx.floor("C10.R1a", 50)
    cx.floor("C10.R1b", 50)
    cx.floor("C10.R1c", 50)
    cx.floor("C10.R1d", 44)
    cx.floor("C10.R1e", 12)
    cx.floor("C10.R1f", 6)

    r1g_mem_store(cx)
    if cx.tier == "thorough":
        postgres_sibling(cx)
    r2_mem(cx)
    r3_sentinel(cx)
    r4_order(cx)
    r4_sqlite_direction(cx)
    r5_ops(cx)
    r5_top_level(cx)
    cx.floor("C10.R2", 20)
    cx.floor("C10.R3", 2)
    cx.floor("C10.R4", 11)
    cx.floor("C10.R5", 8)


def _aggs_by_variant(f, name):
    for bi, b in enumerate(f.blocks):
        for si, s in enumerate(b["s"]):
            if s[0] == "A" and s[2][0] == "agg" and s[2][2] == name and s[2][3]:
                yield (bi, si, dict(zip(s[2][3], s[2][4])))


def _one_call(f, pat):
    cs = [c for c in f.calls() if re.search(pat, c.q)]
    if len(cs) != 1:
        raise Anchor("%s: expected one call matching /%s/, found %d" % (f.short, pat, len(cs)))
    return cs[0]


BUILDER = re.compile(r"sea_query::(SelectStatement|InsertStatement|UpdateStatement)::")


def _chain_root(m, f, op):
    """receiver of a builder chain: follow `&mut Self`-returning builder calls to the statement local"""
    pa = Prov(m, "alias")
    r = pa.root(f, op)
    for _ in range(20):
        if r[0] == "call" and BUILDER.search(r[1]):
            r = pa.root(f, Call(f, r[2]).args[0])
        else:
            break
    return r


def _count_stmt_root(m, f):
    for call in f.calls():
        if call.q.endswith("SelectStatement::expr"):
            return _chain_root(m, f, call.args[0])
    return None


def r2_mem(cx):
    m = cx.m
    f = m.one(r"^<acts::store::db::mem::collect::Collect<T> as acts::store::DbCollection>::query$")
    pv = Prov(m, "value")
    pa = Prov(m, "alias")
    aggs = list(_aggs_by_variant(f, "PageData"))
    if len(aggs) != 1:
        raise Anchor("memory query: expected one PageData literal")
    _, _, ops = aggs[0]
    cr = pv.root(f, ops["count"])
    count_src = None
    if cr[0] == "call" and (cr[1].endswith("Vec::<T, A>::len") or re.search(r"slice::<impl \[T\]>::len$", cr[1])):
        count_src = pa.root(f, Call(f, cr[2]).args[0])
    elif cr[0] == "len":
        count_src = cr[1]
    # rows: follow the iterator chain back to its source vector, noting skip/take
    r = pv.root(f, ops["rows"])
    chain = []
    src = None
    for _ in range(20):
        if r[0] != "call":
            src = r
            break
        name = r[1]
        chain.append(name.split("::")[-1])
        if re.search(r"Iterator::(collect|map|skip|take)$|::iter$|as std::ops::Deref>::deref$", name):
            r = pa.root(f, Call(f, r[2]).args[0])
            if r[0] == "call":
                continue
            src = r
            break
        src = r
        break
    ok = count_src is not None and src == count_src and "skip" in chain and "take" in chain
    cx.ob("C10.R2", "mem:count-vs-page", ok,
          "memory query: `count` is the length of the filtered vector from which the page is then cut by skip/take", f.loc(),
          count=root_str(cr), rows_chain=chain, source=root_str(src) if src else None)
    # the length is taken of the vector *before* skip/take: no skip/take feeds the vector itself
    from vlib.model import strip_try

    def chains(rr, depth=0):
        """the iterator-adaptor names through which the vector denoted by root rr was produced, one list per definition"""
        rr = strip_try(f, pa, rr)
        if depth > 6:
            return [["?"]]
        if rr[0] == "call":
            names = []
            for _ in range(20):
                names.append(rr[1].split("::")[-1])
                if rr[0] == "call" and re.search(r"Iterator::(collect|map|filter_map|filter|skip|take|rev|cloned|copied)$|::iter$|::into_iter$|Deref>::deref$", rr[1]):
                    rr = strip_try(f, pa, pa.root(f, Call(f, rr[2]).args[0]))
                    if rr[0] != "call":
                        if rr[0] == "local":
                            return [names + c_ for c_ in chains(rr, depth + 1)]
                        break
                else:
                    break
            return [names]
        if rr[0] == "local":
            out = []
            for d in f.defs().get(rr[1], []):
                if d[2] == "call":
                    out += chains(("call", d[3][1].get("q", ""), d[0], ()), depth + 1)
                elif d[2] == "assign" and d[3][0] == "agg" and d[3][1].endswith("result::Result") and d[3][2] == "Ok":
                    out += chains(pa.root(f, d[3][4][0]), depth + 1)
                elif d[2] == "assign" and d[3][0] == "use" and d[3][1][0] != "k":
                    out += chains(pa.root(f, d[3][1]), depth + 1)
            return out
        return []

    feeds = chains(count_src) if count_src else []
    bad = [n for n in feeds if "skip" in n or "take" in n]
    cx.ob("C10.R2", "mem:count-before-paging", not bad and bool(feeds),
          "memory query: no skip/take is applied to the vector whose length is reported as count", f.loc(), feeds=feeds)


def r3_sentinel(cx):
    """B.9: a HashSet place P assigned `clone(v)` on the true edge of `is_empty(&P)` and
    `collect(intersection(&P, v))` on the false edge."""
    m = cx.m
    pa = Prov(m, "alias")
    targets = [m.one(r"^acts::store::db::mem::collect::<impl acts::store::query::Cond>::calc$"),
               m.one(r"^acts::store::query::Query::calc$")]
    for f in targets:
        inter = [c for c in f.calls() if re.search(r"HashSet::<.*>::intersection$", c.q)]
        if not inter:
            cx.ob("C10.R3", "%s:and" % f.short, False, "%s has no intersection: AND is not computed" % f.short, f.loc())
            continue
        for c in inter:
            acc = pa.root(f, c.args[0])
            sentinel = None
            for g in guards_of(m, f, c.b, mode="alias"):
                r = g.root
                if r[0] == "call" and r[1].endswith("::is_empty") and g.truth is False:
                    recv = pa.root(f, Call(f, r[2]).args[0])
                    if recv == acc:
                        sentinel = g
            cx.ob("C10.R3", "%s:and-sentinel" % f.short, sentinel is None,
                  "%s: the intersection (AND) is not skipped merely because the accumulator `%s` is empty "
                  "(an empty first conjunct must stay empty)" % (f.short, root_str(acc)), c.loc,
                  consequence="a filter whose first sub-condition matches nothing returns the rows of the remaining sub-conditions")


def r4_order(cx):
    """the comparator of the memory store's sort (the sort_by closure and the local helpers it calls): with two
    numbers it must reach a numeric comparison and must not reach a comparison of `Value::to_string()` images"""
    m = cx.m
    pa = Prov(m, "alias")
    f = m.one(r"^<acts::store::db::mem::collect::Collect<T> as acts::store::DbCollection>::query$")
    sort = [c for c in f.calls() if re.search(r"::sort_by$|::sort_unstable_by$|::sort_by_key$|::sort_by_cached_key$", c.q)]
    if len(sort) != 1:
        raise Anchor("memory query: expected one sort call (found %d)" % len(sort))
    clos = pa.root(f, sort[0].args[1])
    if clos[0] != "closure" or clos[1] not in m.fns:
        raise Anchor("memory query: the sort comparator is not a local closure")
    comp = [m.fns[clos[1]]]
    # closures nested in the comparator (map / fold bodies) belong to it, and so do the local helpers any of them calls
    comp += [g for g in m.fns.values() if g.q.startswith(clos[1] + "::{closure")]
    for g in list(comp):
        for c in g.calls():
            h = m.fns.get(c.q)
            if h is not None and c.callee.get("local") and h not in comp and len(comp) < 10:
                comp.append(h)
    num_v = dict(m.variants("serde_json::Value"))["Number"]
    stringly = []
    numeric = []
    n = 0
    for g in comp:
        # blocks reachable when every sort-key value examined is a Number
        seen = set()
        work = [0]
        while work:
            x = work.pop()
            if x in seen:
                continue
            seen.add(x)
            t = g.blocks[x]["t"]
            if t[0] == "switch":
                r = pa.root(g, t[1])
                if r[0] == "discr" and r[2] == "serde_json::Value":
                    tgt = t[3]
                    for sv, tb in t[2]:
                        if int(sv) == num_v:
                            tgt = tb
                    work.append(tgt)
                    continue
            work += g.succ(x)
        for c in g.calls():
            if not re.search(r"(Ord|PartialOrd)>::(cmp|partial_cmp)$|impl std::cmp::(Ord|PartialOrd) for .*>::(cmp|partial_cmp)$", c.q):
                continue
            if c.b not in seen:
                continue
            roots = [pa.root(g, a) for a in c.args]
            if all(r[0] == "call" and r[1].endswith("ToString>::to_string") and "serde_json::Value" in (Call(g, r[2]).full) for r in roots):
                stringly.append((g, c, roots))
            elif re.search(r"for (i64|u64|f64|i128)>::|Option<(f64|i64|u64)> as", c.full):
                numeric.append((g, c))
    for i, (g, c, roots) in enumerate(stringly):
        cx.ob("C10.R4", "mem:order:string-image" + ("" if i == 0 else "#%d" % (i + 1)), False,
              "memory ordering compares typed values (numbers numerically), not `Value::to_string()` images - this comparison of the text images is reached with two numbers", c.loc,
              operands=[root_str(r) for r in roots])
    if not stringly:
        cx.ob("C10.R4", "mem:order:string-image", True, "with two numeric sort keys the comparator of the memory store never compares `Value::to_string()` images", sort[0].loc)
    cx.ob("C10.R4", "mem:order:numeric", bool(numeric), "with two numeric sort keys the comparator reaches a comparison of numbers (%s)" % ", ".join(sorted({short_name(c.q) for _, c in numeric}) or ["none found"]), sort[0].loc)
    # both directions use the same comparator: swapped operands, or the reversed result, under the `rev` flag of the key
    helper_sites = [(g, c) for g in comp for c in g.calls() if m.fns.get(c.q) in comp and m.fns.get(c.q) is not g and "::{closure" not in c.q and str(m.fns[c.q].local_ty(0)).endswith("cmp::Ordering")]
    if len(helper_sites) == 2 and helper_sites[0][0] is helper_sites[1][0]:
        g0 = helper_sites[0][0]
        r0 = [pa.root(g0, a) for a in helper_sites[0][1].args]
        r1 = [pa.root(g0, a) for a in helper_sites[1][1].args]
        cx.ob("C10.R4", "mem:order:desc-is-swap", r0 == r1[::-1] and r0[0] != r0[1], "descending order is the same comparison with the operands swapped", helper_sites[0][1].loc)
    elif len(helper_sites) == 1:
        g0, hc = helper_sites[0]
        rev = [c for c in g0.calls() if c.q.endswith("Ordering::reverse") and pa.root(g0, c.args[0])[:3] == ("call", hc.q, hc.b)]
        flagged = bool(rev) and any(not gd.neutral and gd.truth is True for gd in guards_of(m, g0, rev[0].b, mode="alias"))
        cx.ob("C10.R4", "mem:order:desc-is-swap", flagged, "descending order is the reversed result of the same comparison, taken exactly under the key's `rev` flag", hc.loc)
    # several keys: the earlier key decides, a later one only breaks ties - `accumulated.then(current)`
    thens = [(g, c) for g in comp for c in g.calls() if c.q.endswith("Ordering::then") or c.q.endswith("Ordering::then_with")]
    for i, (g, c) in enumerate(thens):
        recv, arg = pa.root(g, c.args[0]), pa.root(g, c.args[1])
        cx.ob("C10.R4", "mem:order:key-priority" + ("" if i == 0 else "#%d" % (i + 1)), _is_accumulated(m, g, pa, recv) and not _is_accumulated(m, g, pa, arg),
              "sort keys are combined as `earlier.then(later)`: the first requested key decides, the next ones only break ties (receiver %s, argument %s)" % (root_str(recv), root_str(arg)), c.loc)
    if not thens:
        cx.ob("C10.R4", "mem:order:key-priority", False, "no `Ordering::then` found in the comparator: several sort keys are not combined lexicographically", sort[0].loc)


def _shape(f, pv, r, depth=0):
    """a root without block numbers and module paths, commutative operands sorted: comparable across sibling functions"""
    if depth > 6 or not isinstance(r, tuple) or not r:
        return repr(r)
    if r[0] == "call":
        name = "::".join(re.sub(r"<.*?>", "", r[1]).split("::")[-2:])
        path = tuple(r[3]) if len(r) > 3 else ()
        if name.endswith("div_ceil"):
            args = Call(f, r[2]).args
            return ("call", name, _shape(f, pv, pv.root(f, args[1]), depth + 1) if len(args) > 1 else None, path)
        return ("call", name, path)
    if r[0] == "bin":
        ops = [_shape(f, pv, x, depth + 1) for x in r[2:]]
        if r[1] in ("Add", "Mul", "AddWithOverflow", "MulWithOverflow"):
            ops = sorted(ops, key=repr)
        return ("bin", r[1].replace("WithOverflow", "")) + tuple(ops)
    if r[0] == "field":
        inner = _shape(f, pv, r[1], depth + 1)
        # `(a + b).0` is the checked-arithmetic result of `a + b`
        return inner if isinstance(inner, tuple) and inner[0] == "bin" and tuple(r[2]) == ("0",) else ("field", inner, tuple(r[2]))
    if r[0] == "const":
        return ("const", r[1].get("int", r[1].get("str", "?")))
    return (r[0],)


def _page_fields(m, f, pv):
    for b in f.blocks:
        for s_ in b["s"]:
            if s_[0] == "A" and s_[2][0] == "agg" and s_[2][1].endswith("PageData") and s_[2][3]:
                d = dict(zip(s_[2][3], s_[2][4]))
                return {k: _shape(f, pv, pv.root(f, d[k])) for k in ("page_num", "page_count", "page_size") if k in d}
    return None


def r2_page_bookkeeping(cx):
    """both back ends answer one query alike: each SQLite collection computes page_num / page_count / page_size of the
    page it returns by the same expression over (offset, limit, count) as the memory store (sibling agreement, the
    memory store being the reference; no expression is frozen here)"""
    m = cx.m
    pv = Prov(m, "value")
    ref = _page_fields(m, m.one(r"^<acts::store::db::mem::collect::Collect<T> as acts::store::DbCollection>::query$"), pv)
    if not ref:
        cx.note("C10.R2 page bookkeeping: the memory store does not build PageData as a literal; siblings not compared")
        return
    for c in COLLECTIONS:
        coll = "acts_store_sqlite::collection::%s::%sCollection" % (c, c.capitalize())
        f = m.one(r"^<%s as acts::DbCollection>::query$" % re.escape(coll))
        got = _page_fields(m, f, pv)
        if not got:
            cx.note("C10.R2 sqlite:%s: PageData is not built as a literal; page bookkeeping not compared" % c)
            continue
        diff = sorted(k for k in ref if k in got and got[k] != ref[k])
        cx.ob("C10.R2", "sqlite:%s:page-bookkeeping" % c, not diff,
              "SQLite query of `%s` computes page_num / page_count / page_size as the memory store does (differs: %s)" % (c, ", ".join("%s = %s, memory store %s" % (k, got[k], ref[k]) for k in diff) or "nothing"), f.loc())


def r4_sqlite_direction(cx):
    """SQLite: the direction handed to `SelectStatement::order_by` is `Desc` exactly under the key's `rev` flag (the bool of
    the `(name, rev)` pair taken from `Query::order_by()`): every `Order::Desc` that reaches the call is built where the flag
    is known true, every `Order::Asc` where it is known false. A direction operand of another shape is recorded, not judged."""
    m = cx.m
    pa = Prov(m, "alias")
    for c in COLLECTIONS:
        coll = "acts_store_sqlite::collection::%s::%sCollection" % (c, c.capitalize())
        f = m.one(r"^<%s as acts::DbCollection>::query$" % re.escape(coll))
        calls = [call for call in f.calls() if re.search(r"sea_query::SelectStatement::order_by(::<.*>)?$", call.q)]
        inner = [g for g in m.fns.values() if g.q.startswith(f.q + "::{closure") and any(re.search(r"sea_query::SelectStatement::order_by", x.q) for x in g.calls())]
        if not calls and inner:
            cx.note("C10.R4 sqlite:%s: order_by is called from a closure; direction not judged" % c)
            cx.ob("C10.R4", "sqlite:%s:order-applied" % c, True, "SQLite query of `%s` hands the requested sort keys to `order_by`" % c, f.loc())
            continue
        if not calls:
            cx.ob("C10.R4", "sqlite:%s:order-applied" % c, False, "SQLite query of `%s` hands the requested sort keys to `order_by`" % c, f.loc())
            continue
        cx.ob("C10.R4", "sqlite:%s:order-applied" % c, True, "SQLite query of `%s` hands the requested sort keys to `order_by`" % c, calls[0].loc)
        for call in calls:
            op = call.args[2]
            if op[0] == "k" or not isinstance(op[1], (list, tuple)) or op[1][1]:
                cx.note("C10.R4 sqlite:%s: direction operand of order_by is not a plain local; not judged" % c)
                continue
            loc = op[1][0]
            defs = []
            for bi, b in enumerate(f.blocks):
                for s_ in b["s"]:
                    if s_[0] == "A" and s_[1][0] == loc and not s_[1][1] and s_[2][0] == "agg" and s_[2][1].endswith("Order") and s_[2][2] in ("Asc", "Desc"):
                        defs.append((bi, s_[2][2]))
            if not defs:
                cx.note("C10.R4 sqlite:%s: direction of order_by is not built from Order::Asc / Order::Desc literals; not judged" % c)
                continue
            bad = []
            judged = 0
            for bi, variant in defs:
                flags = [g for g in guards_of(m, f, bi, mode="alias") if g.truth is not None and _is_rev_flag(m, f, pa, g.root)]
                if not flags:
                    continue
                judged += 1
                want = variant == "Desc"
                if any(g.truth is not want for g in flags):
                    bad.append("Order::%s built where the key's rev flag is %s" % (variant, str(not want).lower()))
            if not judged:
                cx.note("C10.R4 sqlite:%s: no Order literal is built under a test of the key's rev flag; not judged" % c)
                continue
            cx.ob("C10.R4", "sqlite:%s:direction" % c, not bad,
                  "SQLite query of `%s`: a key is ordered descending exactly when its `rev` flag is set (%s)" % (c, "; ".join(bad) or "Desc under rev, Asc under !rev"), call.loc)


def _is_rev_flag(m, f, pa, root, depth=0):
    """the condition root is the bool of a `(String, bool)` item that an iterator handed out (the `(name, rev)` pairs of
    `Query::order_by()`)"""
    if root[0] != "call" or not root[1].endswith("Iterator>::next") or len(root) < 4 or not root[3] or root[3][-1] != "1":
        return False
    return "(std::string::String, bool)" in Call(f, root[2]).full


def _is_accumulated(m, g, pa, r):
    """is r the ordering carried over from the earlier keys: a loop-carried local (several definitions, one of them the
    result of `then`), or the accumulator parameter of a fold closure (first argument)?"""
    if r[0] == "local" and r[4] >= 2:
        return True
    if r[0] == "param" and "::{closure" in g.q:
        return r[1] == 2   # _1 is the closure itself, _2 the accumulator, _3 the element
    if r[0] == "call" and (r[1].endswith("Ordering::then") or r[1].endswith("Ordering::then_with")):
        return True
    return False


EXPECT_OPS = {"eq": {"EQ"}, "is_null": {"EQ"}, "ne": {"NE"}, "is_not_null": {"NE"}, "lt": {"LT"}, "lte": {"LE"}, "gt": {"GT"}, "gte": {"GE"}}


def r5_ops(cx):
    m = cx.m
    f = m.one(r"^acts_store_sqlite::collection::into_cond$")
    seen = set()
    for c in f.calls():
        name = c.q.split("::")[-1]
        if name in EXPECT_OPS and ("sea_query" in c.q):
            allowed = None
            for g in guards_of(m, f, c.b):
                if g.root[0] == "discr" and g.root[2] and g.root[2].endswith("ExprOp"):
                    allowed = discr_variants(m, g)
            if allowed is None:
                raise Anchor("into_cond: call %s is not under a match on ExprOp" % name)
            seen |= allowed
            cx.ob("C10.R5", "sqlite:op:%s" % name, allowed == EXPECT_OPS[name],
                  "SQLite translation: `%s` is emitted exactly for filter operator %s (found %s)" % (name, sorted(EXPECT_OPS[name]), sorted(allowed)), c.loc)
    allops = {n for n, _ in m.variants("acts::store::query::ExprOp")}
    cx.ob("C10.R5", "sqlite:op:coverage", seen == allops, "every filter operator has a translation (missing: %s)" % sorted(allops - seen), f.loc())
    # connectives
    f = m.one(r"^acts_store_sqlite::collection::into_query$")
    exp = {"all": {"And"}, "any": {"Or"}}
    for c in f.calls():
        name = c.q.split("::")[-1]
        if name in exp and "Cond" in c.q:
            allowed = None
            for g in guards_of(m, f, c.b):
                if g.root[0] == "discr" and g.root[2] and g.root[2].endswith("CondType"):
                    allowed = discr_variants(m, g)
            if allowed is None:
                continue  # the outer `filter = Cond::all()`
            cx.ob("C10.R5", "sqlite:cond:%s" % name, allowed == exp[name],
                  "SQLite translation: `Cond::%s` is used exactly for %s (found %s)" % (name, sorted(exp[name]), sorted(allowed)), c.loc)


def postgres_sibling(cx):
    """thorough tier: the Postgres back end is a sibling of the SQLite one (same trait, same row types).
    It is outside the statement of C10, so disagreements are NOTEs, never violations."""
    m = cx.m
    pv = Prov(m, "value")
    fs = [f for f in m.fns.values() if f.crate == "acts_store_postgres" and f.q.endswith("::from_row")]
    if not fs:
        cx.note("thorough: acts_store_postgres facts not loaded")
        return
    n = 0
    bad = 0
    for f in sorted(fs, key=lambda f: f.q):
        for c in COLLECTIONS:
            aggs = [a for a in _aggs_by_variant(f, c.capitalize())]
            if len(aggs) != 1:
                continue
            _, _, ops = aggs[0]
            for fld in row_fields(cx, c):
                if fld not in ops:
                    continue
                gets = M.origin_calls(m, f, ops[fld], r"Row>::(try_)?get$|Row::(try_)?get$|::get$")
                cols = [M.const_str(pv.root(f, g.args[1])) for g in gets if len(g.args) > 1]
                cols = [x for x in cols if x]
                n += 1
                if cols and cols[0] != fld:
                    bad += 1
                    cx.note("sibling acts_store_postgres: row field `%s.%s` is read from column `%s` (%s) - same construct as the repaired SQLite mapper" % (c, fld, cols[0], gets[0].loc))
    cx.note("thorough: Postgres sibling cross-check: %d field reads compared, %d disagree" % (n, bad))


def r1g_mem_store(cx):
    m = cx.m
    pa = Prov(m, "alias")
    cr = m.one(r"^<acts::store::db::mem::collect::Collect<T> as acts::store::DbCollection>::create$")
    ins = [c for c in cr.calls() if re.search(r"BTreeMap::<.*>::insert$", c.q)]
    ok = False
    if len(ins) == 1:
        k = Prov(m, "value").root(cr, ins[0].args[1])
        v = Prov(m, "value").root(cr, ins[0].args[2])
        kid = k[0] == "call" and k[1].endswith("DbDocument::id")
        vdoc = _from_doc(cr, Prov(m, "value"), v)
        ok = kid and vdoc
    cx.ob("C10.R1g", "mem:create", ok, "memory create inserts `data.doc()` under `data.id()`", ins[0].loc if ins else cr.loc())
    up = m.one(r"^<acts::store::db::mem::collect::Collect<T> as acts::store::DbCollection>::update$")
    clos = [g for g in m.fns.values() if g.q.startswith(up.q + "::{closure")]
    replaces = False
    merges = []
    for g in clos:
        for bi, b in enumerate(g.blocks):
            for s_ in b["s"]:
                if s_[0] == "A" and s_[1][0] == 2 and s_[1][1] == ["*"] and s_[2][0] == "use":
                    if _from_doc(g, Prov(m, "value"), Prov(m, "value").root(g, s_[2][1])):
                        replaces = True
        for c in g.calls():
            if re.search(r"HashMap::<.*>::(extend|insert|entry|remove|retain)$|Extend<.*>>::extend$", c.q):
                merges.append(short_name(c.q))
    ent = [c for c in up.calls() if re.search(r"BTreeMap::<.*>::entry$", c.q)]
    keyed = bool(ent) and Prov(m, "value").root(up, ent[0].args[1])[0] == "call" and Prov(m, "value").root(up, ent[0].args[1])[1].endswith("DbDocument::id")
    cx.ob("C10.R1g", "mem:update", replaces and not merges and keyed,
          "memory update replaces the stored document of `data.id()` by `data.doc()` as a whole%s" % ("" if not merges else " - but it merges into the old document (%s): keys absent from the new document survive" % merges), up.loc())
    de = m.one(r"^<acts::store::db::mem::collect::Collect<T> as acts::store::DbCollection>::delete$")
    rm = [c for c in de.calls() if re.search(r"BTreeMap::<.*>::remove$", c.q)]
    cx.ob("C10.R1g", "mem:delete", len(rm) == 1 and pa.root(de, rm[0].args[1])[:2] == ("param", 2), "memory delete removes the document with the given id", de.loc())
    cx.floor("C10.R1g", 3)


def _from_doc(f, pv, r, depth=0):
    if depth > 5:
        return False
    if r[0] == "call":
        if r[1].endswith("DbDocument::doc"):
            return True
        c = Call(f, r[2])
        if T_try(r[1]) and c.args:
            return _from_doc(f, pv, pv.root(f, c.args[0]), depth + 1)
        if r[3] and r[3][0] in ("@Continue", "@Ok"):
            return _from_doc(f, pv, ("call", r[1], r[2], ()), depth + 1)
    if r[0] == "field":
        return _from_doc(f, pv, r[1], depth + 1)
    return False


def T_try(q):
    return q.endswith("Try>::branch") or q.endswith("::unwrap") or q.endswith("::expect")



def r2_sqlite_count_source(cx):
    """the reported total of every SQLite query is, on every path, the value read from the count statement (the one
    that received the filter and no limit) - never a number derived from the page"""
    m = cx.m
    pv = Prov(m, "value")
    pa = Prov(m, "alias")
    for f in m.find(r"^<acts_store_sqlite::collection::.* as acts::DbCollection>::query$"):
        c = f.q.split("::")[2]
        aggs = list(_aggs_by_variant(f, "PageData"))
        if len(aggs) != 1:
            raise Anchor("SQLite query of %s: expected one PageData literal" % c)
        _, _, ops = aggs[0]
        r = pv.root(f, ops["count"])
        chain = []
        ok = False
        for _ in range(8):
            if r[0] != "call":
                break
            chain.append(short_name(r[1]))
            if re.search(r"::query_row(::<.*>)?$", r[1]):
                # the statement was prepared from the count statement's SQL
                stmt = pa.root(f, Call(f, r[2]).args[0])
                sql_ok = False
                x = stmt
                for _ in range(8):
                    if x[0] != "call":
                        break
                    if x[1].endswith("build_rusqlite") or "build_rusqlite" in x[1]:
                        who = _chain_root(m, f, Call(f, x[2]).args[0])
                        sql_ok = who == _count_stmt_root(m, f)
                        break
                    cc = Call(f, x[2])
                    nxt = None
                    for a in cc.args[::-1]:
                        ra = pa.root(f, a)
                        if ra[0] == "call":
                            nxt = ra
                            break
                    if nxt is None:
                        break
                    x = nxt
                ok = sql_ok
                break
            cc = Call(f, r[2])
            if not cc.args:
                break
            r = pv.root(f, cc.args[0])
        cx.ob("C10.R2", "sqlite:%s:count-source" % c, ok,
              "SQLite query of `%s`: the reported total is on every path the value returned by the count statement (%s)%s" % (
                  c, " <- ".join(chain) or root_str(r), "" if ok else " - it is computed some other way on some path (e.g. from the page that was fetched)"), f.loc())



def sqlite_updated_columns(m, c):
    """the set of columns the SQLite UPDATE of collection c writes (used by C12.R6)"""
    pv = Prov(m, "value")
    idf = m.one(r"^<acts_store_sqlite::collection::%s::CollectionIden as sea_query::Iden>::unquoted$" % c)
    iden_adt, iden = M.iden_table(m, idf)
    cols = {v: s for v, s in iden.items() if v != "Table"}
    coll = "acts_store_sqlite::collection::%s::%sCollection" % (c, c.capitalize())
    f = m.one(r"^<%s as acts::DbCollection>::update$" % re.escape(coll))
    uvals = _one_call(f, r"UpdateStatement::values$")
    uarr = M.array_operands(f, pv.root(f, uvals.args[1]))
    if uarr is None:
        raise Anchor("update of %s: values is not an array literal" % c)
    out = set()
    for op in uarr:
        t = M.tuple_operands(f, pv.root(f, op))
        if t is None:
            raise Anchor("update of %s: element is not a tuple literal" % c)
        out.add(cols.get(M.variant_of(pv.root(f, t[0]))))
    return out, uvals


def mem_doc_keys(m, c):
    pv = Prov(m, "value")
    f = m.one(r"^acts::store::db::mem::r#impl::%s::<impl acts::store::db::mem::DbDocument for .*>::doc$" % c)
    keys = set()
    for call in f.calls():
        if re.search(r"HashMap::<.*>::insert$|HashMap::<K, V, S>::insert$", call.q):
            k = M.const_str(pv.root(f, call.args[1]))
            if k:
                keys.add(k)
    return keys, f


def r5_top_level(cx):
    """a Query is the AND of its groups (that is what the memory back end computes: Query::calc intersects the group results):
    the SQLite filter is `ALL(group1, group2, ..)` - every group is ADDED to a condition created by `Condition::all()`. Folding
    the groups into the first one makes `(a OR b) AND c` run as `a OR b OR c` when the first group is an OR group."""
    m = cx.m
    pa = Prov(m, "alias")
    f = m.one(r"^acts_store_sqlite::collection::into_query$")
    fs = [f] + [g for q, g in m.fns.items() if q.startswith(f.q + "::{closure")]

    def bases(g, r, depth=0, seen=None):
        """the calls a condition value starts from, following `.add(..)` receivers, moves and loop-carried locals"""
        seen = seen if seen is not None else set()
        if depth > 12:
            return {"?"}
        if r[0] == "call":
            if re.search(r"Condition::add(::<.*>)?$|Iterator(>)?::fold(::<.*>)?$", r[1]):
                c = Call(g, r[2])
                # fold(init, f): the accumulator starts from init
                a = c.args[1] if "fold" in r[1] and len(c.args) > 1 else c.args[0]
                return bases(g, pa.root(g, a), depth + 1, seen)
            return {short_name(r[1])}
        if r[0] == "local":
            if r[1] in seen:
                return set()
            seen.add(r[1])
            out = set()
            for d in g.defs().get(r[1], []):
                if d[2] == "call":
                    out |= bases(g, ("call", d[3][1].get("q") or "", d[0], ()), depth + 1, seen)
                elif d[2] == "assign" and d[3][0] == "use" and d[3][1][0] != "k":
                    out |= bases(g, pa.root(g, d[3][1]), depth + 1, seen)
                else:
                    out.add("?")
            return out
        return {root_str(r)}

    rets = set()
    for bi, b in enumerate(f.blocks):
        for s_ in b["s"]:
            if s_[0] == "A" and s_[1][0] == 0 and not s_[1][1] and s_[2][0] == "use" and s_[2][1][0] != "k":
                rets |= bases(f, pa.root(f, s_[2][1]))
        t = b["t"]
        if t[0] == "call" and t[3][0] == 0 and not t[3][1]:
            rets |= bases(f, ("call", t[1].get("q") or "", bi, ()))
    ok = bool(rets) and all(re.search(r"Condition::all$", x) for x in rets)
    cx.ob("C10.R5", "sqlite:groups-under-all", ok,
          "into_query returns a condition that starts as `Condition::all()` on every path: the groups of a query are ANDed (found bases %s)%s" % (
              sorted(rets), "" if ok else " - a filter that starts from a group itself joins the later groups with THAT group's connective"), f.loc())
