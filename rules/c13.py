"""C13 Processes are isolated; outcome is independent of load, cache size and threads.

The whole property (load, cache capacity, thread count) is NOT decidable statically. Decided
structural necessary conditions: R1 a second start with a live id is refused; R2 no process-
shared mutable static (every static of crate acts is an inventory registration, a tracing
call-site or the task-local CONTEXT); R3 keying: cache key = proc.id(), task row id = (pid, tid),
task rows are loaded / removed by the pid argument. Independence from the cache capacity reduces
to C12 (reload transparency) and inherits its findings."""
import re

from vlib.model import Anchor, Call, Prov, guards_of, discr_variants, root_str, short_name
from vlib import ts as T
from rules.c09 import query_shape
from rules.c17 import _is_param

STORE = "acts::cache::store::<impl acts::store::store::Store>::"


def statics_audit(cx, rule):
    """every static of crate acts is classified; anything with interior mutability (or `static mut`)
    outside the three known classes is a process-shared cell"""
    m = cx.m
    kinds = {}
    for s in m.statics:
        if s["crate"] != "acts":
            continue
        name = s["name"]
        ty = s["ty"]
        kind = None
        if s["mutable"]:
            kind = None
        elif "tracing" in ty or "__CALLSITE" in name or name.endswith("::META"):
            kind = "tracing call-site / metadata"
        elif "inventory" in ty or "inventory" in name.lower():
            kind = "inventory registration"
        elif "tokio::task::LocalKey" in ty or "thread::LocalKey" in ty or s.get("thread_local"):
            kind = "task-local / thread-local (per task, not shared)"
        elif s.get("freeze"):
            kind = "immutable data"
        elif re.match(r"^std::sync::(LazyLock|OnceLock)<", ty) or re.match(r"^(once_cell::sync::(Lazy|OnceCell)|lazy_static::lazy::Lazy)<", ty):
            # written once at first use, read-only afterwards - unless what it holds is itself a cell
            inner = ty[ty.index("<") + 1:]
            if not re.search(r"\b(Mutex|RwLock|RefCell|Cell|UnsafeCell|Atomic[A-Z][A-Za-z0-9]*|DashMap|moka::|Sender|Receiver)\b|sync::atomic", inner):
                kind = "initialised once, immutable afterwards (LazyLock / OnceLock of plain data: a compiled pattern, a table)"
        if kind is None:
            cx.ob(rule, "static:%s" % name.split("acts::", 1)[-1], False,
                  "static `%s` of type `%s` is a process-shared mutable cell: values could cross between processes" % (name, ty[:90]), "%s:%s" % (s["span"][0], s["span"][1]))
        else:
            kinds.setdefault(kind, []).append(name)
    for kind, names in sorted(kinds.items()):
        cx.ob(rule, "statics:%s" % kind.split(" ")[0], True, "%d statics of crate acts are %s (e.g. %s)" % (len(names), kind, names[0].split("acts::", 1)[-1]), None)
    tl = kinds.get("task-local / thread-local (per task, not shared)", [])
    cx.ob(rule, "statics:context", any(n.endswith("context::CONTEXT") for n in tl), "the execution context is a task-local (`CONTEXT`), not a global", None)
    n = sum(len(v) for v in kinds.values())
    if n < 100:
        cx.undecide(rule, "only %d statics found in crate acts (floor 100: tracing call-sites and inventory registrations)" % n)
    return n


def run(cx):
    cx.rule("C13.R1", "K1", "Runtime::start creates and launches a process only if no process with that id is cached or stored; otherwise it returns an error")
    cx.rule("C13.R2", "K3", "no process-shared mutable static in crate acts")
    cx.rule("C13.R4", "K1", "work done for all live processes in one pass (the shared tick) treats each process on its own: plain loop without early exit, no short-circuiting adaptor, no per-process failure propagated out of the pass")
    r4_shared_passes(cx)
    cx.rule("C13.R3", "E3", "keying: the cache is keyed by proc.id(), task rows by (pid, tid); task rows are loaded and removed by pid")
    m = cx.m
    pa = Prov(m, "alias")
    pv = Prov(m, "value")
    f = m.one(r"^acts::scheduler::runtime::Runtime::start$")
    look = [c for c in f.calls() if c.q.endswith("Cache::proc")]
    new = [c for c in f.calls() if c.q.endswith("Process::new")]
    launch = [c for c in f.calls() if c.q.endswith("Runtime::launch")]
    if len(look) != 1 or len(new) != 1 or len(launch) != 1:
        raise Anchor("Runtime::start: expected one lookup, one Process::new, one launch")
    from rules.c01 import gdesc
    for name, c in (("new", new[0]), ("launch", launch[0])):
        gs = guards_of(m, f, c.b, mode="alias")
        ok = any(g.root[0] == "call" and g.root[1].endswith("Option::<T>::is_some") and g.truth is False and pa.root(f, Call(f, g.root[2]).args[0]) == ("call", look[0].q, look[0].b, ())
                 for g in gs) or any(g.root[0] == "discr" and g.root[1] == ("call", look[0].q, look[0].b, ()) and discr_variants(m, g) == {"None"} for g in gs)
        cx.ob("C13.R1", "start:%s-only-if-absent" % name, ok, "`%s` is reached only when the lookup of the id found nothing (guards %s)" % (name, [gdesc(m, g) for g in gs if not g.neutral]), c.loc)
    # the other edge returns Err
    sw = None
    for g in guards_of(m, f, new[0].b, mode="alias"):
        if g.root[0] == "call" and g.root[1].endswith("is_some"):
            sw = g
    ok = False
    if sw is not None:
        from vlib.model import bool_target
        t = bool_target(f, sw.b, True)
        region = f.reach_from([t])
        ok = any(b in region and k == "ERR_NEW" for b, k in f.exit_defs()) and new[0].b not in region and launch[0].b not in region
    cx.ob("C13.R1", "start:duplicate-refused", ok, "when the id is already live the start returns an error and creates nothing", look[0].loc)
    same = pv.root(f, look[0].args[1]) == pv.root(f, new[0].args[0]) or (root_str(pv.root(f, look[0].args[1])) == root_str(pv.root(f, new[0].args[0])))
    cx.ob("C13.R1", "start:same-id", same, "the id looked up is the id the new process gets", new[0].loc, looked_up=root_str(pv.root(f, look[0].args[1])), created=root_str(pv.root(f, new[0].args[0])))
    cx.floor("C13.R1", 4)

    statics_audit(cx, "C13.R2")
    cx.rule("C13.R5", "K3", "a node tree belongs to one process: only Process (and the tree's own types, a task's node, a visitor) hold a NodeTree / Node - never an object that outlives or spans processes (nodes are mutated at run time: generated acts are appended to them)")
    r5_tree_holders(cx)

    # ---- R3 keying -----------------------------------------------------------------------------
    g = m.one(r"^acts::cache::cache::Cache::push_proc_pri$")
    ins = [c for c in g.calls() if re.search(r"moka::sync::Cache::<.*>::insert$", c.q)]
    ok = False
    if len(ins) == 1:
        k = pv.root(g, ins[0].args[1])
        v = pa.root(g, ins[0].args[2])
        ok = k[0] == "call" and k[1].endswith("Process::id") and pa.root(g, Call(g, k[2]).args[0])[:2] == ("param", 2)
    cx.ob("C13.R3", "cache:key", ok, "the process cache is keyed by `proc.id()` of the process it stores", ins[0].loc if ins else g.loc())
    t = m.one(r"^acts::scheduler::process::task::Task::into_data$")
    idc = [c for c in t.calls() if re.search(r"utils::id::Id::.*new$|Id::<.*>::new$|Id::new$", c.q)]
    ok = False
    if idc:
        a = [pv.root(t, x) for x in idc[0].args]
        ok = a[0][0] == "param" and a[0][3] == ("pid",) and a[1][0] == "param" and a[1][3] == ("id",)
    cx.ob("C13.R3", "task-row:id", ok, "a task row's id is built from (self.pid, self.id)", idc[0].loc if idc else t.loc())
    lt = m.one("^" + re.escape(STORE) + r"load_tasks$")
    conds, exprs = query_shape(m, lt)
    ok = conds == ["and"] and len(exprs) == 1 and exprs[0][0] == "eq" and exprs[0][1] == "pid"
    if ok:
        r = exprs[0][2]
        ok = r[0] == "call" and r[1].endswith("Process::id")
    cx.ob("C13.R3", "load:by-pid", ok, "the tasks loaded into a process are exactly the rows with pid == proc.id()", lt.loc())
    tn = [c for c in lt.calls() if c.q.endswith("Task::new")]
    ok = bool(tn) and pa.root(lt, tn[0].args[0])[:2] == ("param", 2)
    cx.ob("C13.R3", "load:into-that-process", ok, "loaded tasks are attached to that same process", tn[0].loc if tn else lt.loc())
    cx.note("C13: independence from cache capacity / eviction reduces to C12 (reload transparency) and inherits its findings; load and thread-count independence are not decided")
    cx.floor("C13.R3", 4)



SHORT_CIRCUIT = re.compile(r"Iterator(>)?::(try_for_each|try_fold|any|all|find|find_map|position|rposition|take_while|map_while|skip_while|scan|try_find|reduce|fold|zip|take|skip|step_by|nth|last|next|peekable)$")
PER_ELEMENT = re.compile(r"Iterator(>)?::(for_each|map|filter|filter_map|cloned|copied|collect|count|inspect|enumerate|flat_map|rev)$|::iter$|::into_iter$|Deref>::deref$")


def pass_shape(m, pa, f, c):
    """how the collection returned by call c of f is traversed in f: list of (verdict, detail, call) with verdict in
    loop-ok | loop-early-exit | for_each | short-circuit | unused"""
    from rules.c16 import natural_loops
    from rules.c07 import loop_exits
    from vlib.model import ITER_NEXT
    src = ("call", c.q, c.b)
    loops = natural_loops(f)
    out = []
    for x in f.calls():
        if ITER_NEXT.search(x.q):
            it = pa.iter_source(f, ("call", x.q, x.b, ()))
            if it is not None and it[0][:3] == src:
                bad_ad = [a for a in it[2] if not PER_ELEMENT.search(a)]
                inner = sorted([(len(body), h, body) for h, body in loops if x.b in body])
                exits = loop_exits(f, inner[0][1], inner[0][2]) if inner else None
                only_end = False
                if exits is not None and len(exits) == 1:
                    t = f.blocks[exits[0][0]]["t"]
                    r = pa.root(f, t[1]) if t[0] == "switch" else None
                    only_end = r is not None and r[0] == "discr" and r[1][:3] == ("call", x.q, x.b)
                out.append(("loop-ok" if (only_end and not bad_ad) else "loop-early-exit", "exits %s, adaptors %s" % (exits, [short_name(a) for a in it[2]]), x))
        elif x.args and re.search(r"Iterator(>)?::", x.q):
            r = pa.root(f, x.args[0])
            depth = 0
            while r[0] == "call" and depth < 6 and r[:3] != src:
                cc = Call(f, r[2])
                if not cc.args:
                    break
                r = pa.root(f, cc.args[0])
                depth += 1
            if r[:3] != src:
                continue
            if re.search(r"Iterator(>)?::for_each$", x.q):
                out.append(("for_each", "", x))
            elif SHORT_CIRCUIT.search(x.q) or not PER_ELEMENT.search(x.q):
                out.append(("short-circuit", short_name(x.q), x))
    return out or [("unused", "", c)]


def r4_shared_passes(cx):
    m = cx.m
    pa = Prov(m, "alias")
    n = 0
    for f in m.fns.values():
        if not f.q.startswith("acts::") or f.q.startswith("acts::cache::cache::Cache::procs"):
            continue
        for c in f.calls():
            if not c.q.endswith("cache::Cache::procs"):
                continue
            n += 1
            for verdict, detail, x in pass_shape(m, pa, f, c):
                key = "pass:%s:%s" % (short_name(f.q), verdict if verdict != "loop-early-exit" else "loop")
                if verdict in ("loop-ok", "loop-early-exit"):
                    cx.ob("C13.R4", "pass:%s:loop" % short_name(f.q), verdict == "loop-ok",
                          "`%s` visits every live process: the loop over Cache::procs() ends only when the iterator does (%s) - one process cannot cut the pass short for the others" % (short_name(f.q), detail), x.loc)
                elif verdict == "short-circuit":
                    cx.ob("C13.R4", "pass:%s:adaptor:%s" % (short_name(f.q), x.q.split("::")[-1]), False,
                          "`%s` runs the live processes through `%s`, which stops at / depends on other elements: a failing process ends the pass for every process behind it" % (short_name(f.q), detail), x.loc)
                else:
                    cx.ob("C13.R4", key, True, "`%s` %s" % (short_name(f.q), "visits every live process with for_each" if verdict == "for_each" else "takes the list of live processes without iterating it here"), x.loc)
    if n == 0:
        raise Anchor("no pass over Cache::procs() found")
    cx.floor("C13.R4", 1)


TREE_HOLDERS = {
    "acts::scheduler::process::process::Process": "the process owns its tree",
    "acts::scheduler::process::task::Task": "a task points at its node of its process's tree",
    "acts::scheduler::tree::node::Node": "links inside one tree",
    "acts::scheduler::tree::node::NodeOutput": "links inside one tree",
    "acts::scheduler::tree::node_tree::NodeTree": "the tree itself",
    "acts::scheduler::tree::visit::Visitor": "a walk over one tree (exists for the duration of a call)",
}


def r5_tree_holders(cx):
    m = cx.m
    n = 0
    for name, a in sorted(m.adts.items()):
        if not name.startswith("acts::"):
            continue
        hit = []
        for v in a["variants"]:
            for f_, t in zip(v["fields"], v.get("ftys", [])):
                if re.search(r"tree::node_tree::NodeTree\b|tree::node::Node\b", t):
                    hit.append((f_, t))
        if not hit:
            continue
        n += 1
        ok = name in TREE_HOLDERS
        cx.ob("C13.R5", "holder:%s" % name.split("acts::", 1)[-1], ok,
              "`%s` holds a node tree / node (%s)%s" % (name.split("::")[-1], ", ".join("%s: %s" % (f_, t[:60]) for f_, t in hit[:2]),
                                                       (": " + TREE_HOLDERS[name]) if ok else " - it is not one of the per-process holders: a tree kept there (a cache of built trees, a registry) is shared by every process built from it, and acts generated at run time by one process are scheduled by the others"), None)
    cx.floor("C13.R5", 5)
