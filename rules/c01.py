"""C01 Progress: a quiescent, unfinished process is always waiting on a client.

The whole property is a liveness statement over all workflow shapes and schedules and is NOT
decided. Decided structural necessary conditions: R1 no lost wake-up (a task that goes to sleep
re-tests its wake-up condition before its exec returns), R2 the three wake-up edges exist under
exactly their guard sets, R3 every completion-counting loop also resumes ready sleepers with the
sequence set_state(Running) -> emit -> exec, R4 an interrupt is announced before exec returns,
R5 the queue does not drop signals and a failing exec is turned into a task error."""
import re

from vlib.model import Anchor, Call, Prov, guards_of, discr_variants, root_str, short_name
from vlib import ts as T
from rules.c02 import engine, TASK, ARC_TASK_IMPL

REVIEW_DECL = "scheduler::ActTask::review"


def gdesc(m, g):
    """printable, line-free descriptor of a guard"""
    r = g.root
    k = r[0]
    if k == "call":
        if r[3] and r[3][0] == "@Continue" and "Try>::branch" in r[1]:
            # the value of `x?`: name it after x
            a = Prov(m, "alias").root(g.fn, Call(g.fn, r[2]).args[0])
            if a[0] == "call":
                return "%s?=%s" % (short_name(a[1]), g.truth if g.truth is not None else sorted(g.labels))
        return "%s=%s" % (short_name(r[1]), g.truth if g.truth is not None else sorted(g.labels))
    if k == "local":
        return "var:%s=%s" % (r[2], g.truth if g.truth is not None else sorted(g.labels))
    if k == "discr":
        inner = r[1]
        name = short_name(inner[1]) if inner[0] == "call" else (inner[2] if inner[0] in ("local", "param") else inner[0])
        if inner[0] == "param" and inner[3]:
            name = "%s.%s" % (inner[2], ".".join(inner[3]))
        vs = discr_variants(m, g)
        return "match(%s)=%s" % (name, "|".join(sorted(vs)) if vs else sorted(g.labels))
    if k == "bin":
        return "%s(%s,%s)=%s" % (r[1], root_str(r[2]), root_str(r[3]), g.truth)
    if k == "upvar":
        return "var:%s=%s" % (r[1], g.truth)
    return "%s=%s" % (root_str(r), g.truth)


def exact_guards(cx, rule, key, f, site_block, required, allowed, what, loc):
    """B.4: non-neutral dominating guards must be a superset of `required` and a subset of
    required+allowed (each a regex over gdesc strings)"""
    m = cx.m
    # deciding conditions (control dependence over the path-sensitive CFG, vlib/ctrl.py) rather than dominating guards: the
    # same set for `a || b`, for a named temporary and for a condition moved into a `match`
    from vlib.model import conditions_of
    conds = [g for g in conditions_of(m, f, site_block, mode="value") if not g.neutral]
    descs = sorted({gdesc(m, g) for g in conds})
    must = sorted({gdesc(m, g) for g in conds if g.necessary})
    missing = [p for p in required if not any(re.search(p, d) for d in must)]
    extra = [d for d in descs if not any(re.search(p, d) for p in list(required) + list(allowed))]
    cx.ob(rule, key, not missing and not extra, what + " (guards: %s)" % descs, loc,
          **({"missing": missing} if missing else {}), **({"unexpected": extra} if extra else {}))


class SleepMon(T.Monitor):
    """asleep after WRITE(->Pending) on the tracked task until READY_CHECK or another write"""
    init = None

    def on_event(self, mon, ev):
        if ev[0] == "WRITE":
            return (ev[3], ev[4]) if ev[2] == "Pending" else None
        if ev[0] == "READY_CHECK":
            return None
        if ev[0] == "HAVOC" and mon is not None:
            return mon
        return mon

    def on_exit(self, mon, s, kind):
        if mon is not None and s == "Pending" and kind in ("OK", "UNIT"):
            return ("asleep", mon)
        return None


class AnnounceMon(T.Monitor):
    init = False

    def on_event(self, mon, ev):
        if ev[0] in ("EMIT", "EMIT_EVENT"):
            return True
        if ev[0] == "WRITE":
            return False
        return mon

    def on_exit(self, mon, s, kind):
        if not mon and kind in ("OK", "UNIT") and s not in T.TERMINAL and s != "None":
            return ("unannounced", s)
        return None


def run(cx):
    m = cx.m
    cx.rule("C01.R1", "TS", "lost wake-up: after a task writes Pending on itself, every Ok exit of exec has re-tested is_ready")
    cx.rule("C01.R2", "K1", "the wake-up edges (child end -> parent review, upward review, empty catch -> review) exist under exactly their guard sets")
    cx.rule("C01.R3", "K1", "every loop over children that counts completion also resumes pending+ready children by set_state(Running) -> emit -> exec")
    cx.rule("C01.R4", "TS", "after init a non-terminal task has been announced (emitted) on every Ok path, so a client can answer an interrupt")
    cx.rule("C01.R5", "K6", "the task queue blocks instead of dropping, and a failing exec becomes a task error that is propagated")
    r1(cx)
    r2(cx)
    r3(cx)
    r4(cx)
    r5(cx)
    cx.rule("C01.R6", "TS", "a task that ends during exec / update is emitted in its final state before control returns (the ending is told: the parent is reviewed from there)")
    r6(cx)
    cx.rule("C01.R7", "K1", "a parent whose children are all terminal is closed by its review: the completing write of Step / Act / Branch / Workflow::review depends on nothing but the task running and the all-children-terminal fact (a review that withholds the completion for some other reason leaves the task running with nothing left to wake it)")
    r7_review_closes(cx)
    cx.rule("C01.R9", "K1", "a completion scan covers every way a child can have ended: for each terminal state of the child, an iteration either counts it or leaves the function (error / skip are passed on) - a terminal state that is neither counted nor passed on (Act::review counted `is_success` only: a submitted or removed act in a generated group) leaves the composite running with nothing left to wake it")
    r9_scan_covers(cx)
    cx.rule("C01.R8", "K1", "wait / wake agreement: a composite waits (before it completes itself) only for tasks that report back to it when they end - a lifecycle-hook act does not review its parent, so no completion test may wait for one; a quantified test over the tasks of the process waits only for tasks directly beneath the task")
    r8_wait_wake(cx)


class EndToldMon(T.Monitor):
    """(state, site) of a terminal write on the tracked task that has not been emitted yet"""
    init = None

    def on_event(self, mon, ev):
        if ev[0] == "WRITE":
            return (ev[2], ev[3], ev[4]) if ev[2] in T.TERMINAL else None
        if ev[0] == "EMIT_EVENT" and mon is not None and ev[1] == mon[0]:
            return None
        return mon

    def on_exit(self, mon, s, kind):
        if mon is not None and kind in ("OK", "UNIT") and s == mon[0]:
            return mon
        return None


def r6(cx, rule="C01.R6", only=None, floor=15):
    m = cx.m
    eng, _ = engine(cx)
    from rules.c02 import site_key
    found = {}
    sites = set()

    class Collect(T.Monitor):
        init = 0

        def on_event(self, mon, ev):
            if ev[0] == "WRITE" and ev[2] in T.TERMINAL:
                sites.add((ev[3], ev[4]))
            return mon
    for f, label in ((m.one(r"^%s::exec$" % TASK), "exec"), (m.one(r"^%s::update$" % TASK), "update")):
        for s0 in T.STATES:
            for payload, path in eng.run(f, s0, EndToldMon()):
                S, q, b = payload
                found.setdefault((q, b), (S, label, s0, path))
            eng.run(f, s0, Collect())
    for (q, b) in sorted(sites):
        if only is not None and not re.search(only, q):
            continue
        f = m.fns[q]
        k = site_key(m, q, b)
        if (q, b) in found:
            S, label, s0, path = found[(q, b)]
            cx.ob(rule, "end-told:%s" % k, False,
                  "the task is written %s at `%s` and `%s` (entered in %s) returns Ok without emitting it in that state: nobody learns that it ended "
                  "(no terminal event, its parent is never reviewed)" % (S, k, label, s0), f.loc(b), path=[T.fmt_event(m, e) for e in path[-6:]])
        else:
            cx.ob(rule, "end-told:%s" % k, True, "after the terminal write at `%s` every Ok exit of exec / update has emitted the task in that state" % k, f.loc(b))
    cx.floor(rule, floor)


def r1(cx):
    m = cx.m
    eng, _ = engine(cx)
    exec_fn = m.one(r"^%s::exec$" % TASK)
    pa = Prov(m, "alias")
    # go-to-sleep sites: writes of Pending reachable from exec on the tracked task
    mon = SleepMon()
    viol = eng.run(exec_fn, "None", mon)
    sleepers = set()

    class Collect(T.Monitor):
        init = 0

        def on_event(self, mon_, ev):
            if ev[0] == "WRITE" and ev[2] == "Pending":
                sleepers.add((ev[3], ev[4]))
            return mon_
    eng.run(exec_fn, "None", Collect())
    bad = {}
    for payload, path in viol:
        _, site = payload
        bad.setdefault(site, path)
    from rules.c02 import site_key
    for (q, b) in sorted(sleepers):
        f = m.fns[q]
        k = site_key(m, q, b)
        if (q, b) in bad:
            cx.ob("C01.R1", "sleep:%s" % k, False,
                  "the task writes Pending at `%s` and exec returns Ok without re-testing `is_ready`: a sibling that finished earlier is never seen "
                  "(e.g. an else-branch declared last, a needs-branch whose needed sibling already ended)" % k, f.loc(b),
                  path=[T.fmt_event(m, e) for e in bad[(q, b)][-6:]])
        else:
            cx.ob("C01.R1", "sleep:%s" % k, True, "after writing Pending at `%s` every Ok exit of exec has passed `is_ready` on the same task" % k, f.loc(b))
    cx.floor("C01.R1", 2)


def r2(cx):
    m = cx.m
    pa = Prov(m, "alias")
    # A: <Arc<Task>>::next -> parent.review
    f = m.one(ARC_TASK_IMPL + r"next$")
    sites = [c for c in f.calls() if (c.callee.get("decl") or "").endswith(REVIEW_DECL)]
    if len(sites) != 1:
        cx.ob("C01.R2", "next:parent-review", False, "`<Arc<Task>>::next` calls the parent's review exactly once (found %d)" % len(sites), f.loc())
    else:
        c = sites[0]
        recv = pa.root(f, c.args[0])
        is_parent = _from_parent(f, pa, recv)
        cx.ob("C01.R2", "next:parent-review:receiver", is_parent, "the task reviewed at the end of `next` is `ctx.task().parent()`", c.loc, receiver=root_str(recv))
        exact_guards(cx, "C01.R2", "next:parent-review:guards", f, c.b,
                     required=[r"^TaskState::is_completed=True$", r"^match\(.*\)=Some$"],
                     allowed=[r"^var:is_next=False$", r"ActTask>::next\?=False$", r"^Task::is_event_processed=False$", r"^Try.*branch", r"^match\(.*branch.*\)=Continue$"],
                     what="a finished task wakes its parent unless it scheduled a successor itself or is a hook act", loc=c.loc)
    # B: <Arc<Task>>::review -> parent.review
    f = m.one(ARC_TASK_IMPL + r"review$")
    sites = [c for c in f.calls() if (c.callee.get("decl") or "").endswith(REVIEW_DECL) and not re.search(r"ActTask for acts::model::", c.q)]
    if len(sites) != 1:
        cx.ob("C01.R2", "review:upward", False, "`<Arc<Task>>::review` climbs to the parent's review exactly once (found %d)" % len(sites), f.loc())
    else:
        c = sites[0]
        recv = pa.root(f, c.args[0])
        cx.ob("C01.R2", "review:upward:receiver", _from_parent(f, pa, recv), "the upward review goes to `ctx.task().parent()`", c.loc, receiver=root_str(recv))
        exact_guards(cx, "C01.R2", "review:upward:guards", f, c.b,
                     required=[r"^var:is_review=True$|ActTask>::review\?=True$", r"^match\(.*\)=Some$"],
                     allowed=[r"^Task::is_event_processed=False$", r"^match\(.*branch.*\)=Continue$"],
                     what="a review that closed its task continues with the parent", loc=c.loc)
    # C: empty catch -> review
    f = m.one(r"^acts::scheduler::process::task::hook::StatementBatch::run$")
    sites = [c for c in f.calls() if (c.callee.get("decl") or "").endswith(REVIEW_DECL)]
    if len(sites) != 1:
        cx.ob("C01.R2", "catch:empty-review", False, "the catch hook reviews the revived task when the catch has no steps (found %d sites)" % len(sites), f.loc())
    else:
        c = sites[0]
        exact_guards(cx, "C01.R2", "catch:empty-review:guards", f, c.b,
                     required=[r"^match\(self\)=Catch$", r"^match\(Task::err\)=Some$", r"is_empty=True$"],
                     allowed=[r"^Task::with_data=False$", r"^match\(.*branch.*\)=Continue$",
                              # the catch matches (any spelling; what it must be is C06.R4's obligation)
                              r"PartialEq.*::eq=True$", r"::is_none=", r"::is_some=", r"^match\(.*\bon\b.*\)="],
                     what="a matching catch without steps continues the flow by reviewing the revived task", loc=c.loc)
    cx.floor("C01.R2", 5)


def _from_parent(f, pa, r, depth=0):
    if r[0] == "call" and r[1].endswith("Task::parent"):
        return True
    if r[0] == "call" and depth < 6 and (Call(f, r[2]).callee.get("decl") == "std::clone::Clone::clone"):
        return _from_parent(f, pa, pa.root(f, Call(f, r[2]).args[0]), depth + 1)
    if r[0] == "local" and depth < 4:
        ds = [d for d in f.defs().get(r[1], []) if d[2] in ("assign", "call")]
        return bool(ds) and all(
            (d[2] == "call" and ((d[3][1].get("q") or "").endswith("Task::parent") or (d[3][2] and _from_parent(f, pa, pa.root(f, d[3][2][0]), depth + 1))))
            or (d[2] == "assign" and d[3][0] in ("use",) and d[3][1][0] != "k" and _from_parent(f, pa, pa.root(f, d[3][1]), depth + 1))
            or (d[2] == "assign" and d[3][0] in ("ref",) and _from_parent(f, pa, pa.root_place(f, d[3][1][0], d[3][1][1]), depth + 1))
            for d in ds)
    return False


RESUMERS = [r"step::<impl acts::scheduler::ActTask for acts::model::step::Step>::next$",
            r"step::<impl acts::scheduler::ActTask for acts::model::step::Step>::review$",
            r"act::<impl acts::scheduler::ActTask for acts::model::act::Act>::next$"]


def resumer_view(m, f):
    """the scan with a resume helper of the tree inlined: a local function that executes its own receiver (`Task::resume`:
    is_ready -> set Running -> emit -> exec) called on the loop element is the inline resume sequence spelled as a call"""
    pa = Prov(m, "alias")

    def is_resume_helper(c):
        g = m.fns.get(c.q)
        if g is None or c.q == T.Q_EXEC or len(g.blocks) > 80:
            return False
        for x in g.calls():
            if x.q == T.Q_EXEC and x.args:
                r = pa.root(g, x.args[0])
                if r[0] == "param" and r[1] == 1 and not [y for y in r[3] if y != "*"]:
                    return True
        return False
    return m.inlined_view(f, is_resume_helper)


def r3(cx):
    m = cx.m
    pa = Prov(m, "alias")
    for pat in RESUMERS:
        f = resumer_view(m, m.one(pat))
        execs = [c for c in f.calls() if c.q == T.Q_EXEC]
        if len(execs) != 1:
            cx.ob("C01.R3", "resume:%s" % f.short, False, "`%s` resumes sleeping children (found %d exec calls)" % (f.short, len(execs)), f.loc())
            continue
        c = execs[0]
        elem = pa.root(f, c.args[0])
        src = pa.iter_source(f, ("call", elem[1], elem[2], ())) if elem[0] == "call" else None
        over_children = False
        plain = False
        if src is not None:
            s0 = src[0]
            over_children = s0[0] == "call" and s0[1].endswith("Task::children")
            plain = all(re.search(r"::iter$|::into_iter$|Deref>::deref$", a) for a in src[2])
        cx.ob("C01.R3", "resume:%s:loop" % f.short, over_children and plain,
              "`%s` looks at every child of its task (plain loop over `children()`, no filter)" % f.short, c.loc,
              iterates=root_str(src[0]) if src else None, adaptors=src[2] if src else None)
        gs = [g for g in guards_of(m, f, c.b, mode="alias") if not g.neutral]
        pend = ready = False
        for g in gs:
            r = g.root
            if r[0] == "call" and r[1].endswith("TaskState::is_pending") and g.truth is True:
                sr = pa.root(f, Call(f, r[2]).args[0])
                if sr[0] == "call" and sr[1] == T.Q_STATE and pa.root(f, Call(f, sr[2]).args[0]) == elem:
                    pend = True
            if r[0] == "call" and r[1] == T.Q_IS_READY and g.truth is True and pa.root(f, Call(f, r[2]).args[0]) == elem:
                ready = True
        cx.ob("C01.R3", "resume:%s:condition" % f.short, pend and ready,
              "the resumed child is exactly one that `is_pending()` and `is_ready()`", c.loc, guards=[gdesc(m, g) for g in gs])
        exact_guards(cx, "C01.R3", "resume:%s:guards" % f.short, f, c.b,
                     required=[r"^TaskState::is_pending=True$", r"^Task::is_ready=True$"],
                     allowed=[r"^TaskState::is_running=True$", r"^match\(.*Iterator.*next\)=Some$", r"^match\(.*branch.*\)=Continue$",
                              r"^TaskState::is_none=False$", r"^TaskState::is_running=False$"],
                     what="no further condition keeps a ready sleeper from being resumed", loc=c.loc)
        # sequence
        w = [x for x in f.calls() if x.q == T.Q_SET_STATE and pa.root(f, x.args[0]) == elem and pa.root(f, x.args[1])[0] == "agg" and pa.root(f, x.args[1])[2] == "Running"]
        e = [x for x in f.calls() if x.q == T.Q_EMIT_EVENT and pa.root(f, x.args[1]) == elem]
        ok = bool(w) and bool(e) and any(f.dominates(a.b, b.b) for a in w for b in e) and any(f.dominates(b.b, c.b) for b in e)
        cx.ob("C01.R3", "resume:%s:sequence" % f.short, ok, "the resume sequence is set_state(Running) -> emit_task_event -> exec on the same child", c.loc)
        # the scan reaches every child: the loop is left only when the children are exhausted or after a child was resumed
        from rules.c16 import natural_loops
        from rules.c07 import loop_exits
        inner = sorted([(len(body), h, body) for h, body in natural_loops(f) if elem[0] == "call" and elem[2] in body])
        bad = None
        if inner and w and elem[0] == "call":
            _, h, body = inner[0]
            bad = []
            for frm, to in loop_exits(f, h, body):
                t = f.blocks[frm]["t"]
                r = pa.root(f, t[1]) if t[0] == "switch" else None
                if r is not None and r[0] == "discr" and r[1][:3] == elem[:3]:
                    continue  # the iterator is exhausted
                if any(f.dominates(x.b, frm) for x in w):
                    continue  # after a wake-up (return / `?` of the resume sequence)
                if r is not None and r[0] == "discr" and r[1][0] == "call" and "Try>::branch" in r[1][1]:
                    # the `?` on the result of a helper that was inlined back: the Err it can pass on was made on the resume
                    # path (every definition of the operand that is not an `Ok(..)` literal lies behind a wake-up)
                    op = pa.root(f, Call(f, r[1][2]).args[0])
                    if op[0] == "local":
                        errdefs = []
                        for bi, si, kind, payload in f.defs().get(op[1], []):
                            if kind == "assign" and payload[0] == "agg" and str(payload[1]).endswith("result::Result") and payload[2] == "Ok":
                                continue
                            errdefs.append(bi)
                        if errdefs and all(any(f.dominates(x.b, bi) for x in w) for bi in errdefs):
                            continue
                rets = set(f.ret_blocks())
                if any(not (set(f.reach_from([to], avoid=[x.b])) & rets) for x in w):
                    continue  # into the wake-up: nothing returns from there without having resumed the child
                bad.append("line %s" % f.loc(frm).split(":")[-1])
        cx.ob("C01.R3", "resume:%s:every-child" % f.short, bad == [],
              "`%s` leaves its scan of the children only when they are exhausted or after it resumed one%s" % (
                  f.short, "" if bad == [] else " - but it also leaves it at %s: children behind that point are never examined, a ready sleeper among them is never woken" % (bad,)), c.loc)
    cx.floor("C01.R3", 15)


def r4(cx):
    m = cx.m
    eng, _ = engine(cx)
    init_fn = m.one(ARC_TASK_IMPL + r"init$")
    viol = eng.run(init_fn, "None", AnnounceMon(), ctxok=False)
    seen = {}
    for payload, path in viol:
        seen.setdefault(payload[1], path)
    for s in ("Ready", "Pending", "Interrupt", "Running"):
        cx.ob("C01.R4", "announce:%s" % s, s not in seen,
              "`init` never returns Ok with its task in state %s without having emitted it" % s, init_fn.loc(),
              **({"path": [T.fmt_event(m, e) for e in seen[s][-6:]]} if s in seen else {}))
    cx.floor("C01.R4", 4)


def r5(cx):
    m = cx.m
    pa = Prov(m, "alias")
    # queue: send awaits mpsc::Sender::send
    sends = [c for c in m.calls_to(r"^tokio::sync::mpsc::Sender::<T>::(send|try_send|send_timeout|blocking_send)$") if "scheduler::queue::queue::Queue" in c.fn.q]
    names = sorted({c.q.split("::")[-1] for c in sends})
    cx.ob("C01.R5", "queue:backpressure", names == ["send"],
          "Queue::send hands the signal to `mpsc::Sender::send` (waits for room) and to nothing that can drop it (found %s)" % names,
          sends[0].loc if sends else None)
    # Scheduler::next: Err of exec -> set_err + emit_error
    nxt = [f for f in m.fns.values() if f.q.startswith("acts::scheduler::scheduler::Scheduler::next::{closure#0}") and f.q.count("{closure") == 1]
    if len(nxt) != 1:
        raise Anchor("Scheduler::next body not found")
    f = nxt[0]
    ex = [c for c in f.calls() if c.q == T.Q_EXEC]
    ok = False
    loc = f.loc()
    if len(ex) == 1:
        loc = ex[0].loc
        for c in f.calls():
            if T.UNWRAP_OR_ELSE.search(c.q):
                r0 = pa.root(f, c.args[0])
                rc = pa.root(f, c.args[1])
                if r0 == ("call", T.Q_EXEC, ex[0].b, ()) and rc[0] == "closure" and rc[1] in m.fns:
                    g = m.fns[rc[1]]
                    se = [x for x in g.calls() if x.q == T.Q_SET_ERR]
                    ee = [x for x in g.calls() if x.q.endswith("Context::emit_error")]
                    ok = bool(se) and bool(ee) and all(g.dominates(a.b, b.b) for a in se for b in ee)
    cx.ob("C01.R5", "scheduler:exec-error", ok, "a failing `exec` in the scheduler loop marks the task as error and then propagates it (`set_err` before `emit_error`)", loc)
    cx.floor("C01.R5", 2)


def r7_review_closes(cx):
    m = cx.m
    pa = Prov(m, "alias")
    allowed = [r"^TaskState::is_running=True$", r"^TaskState::is_completed=False$", r"^Eq\(count,.*len\(\)\)=True$",
               r"^match\(.*Iterator.*next\)=(None|Some)$", r"^match\(.*branch.*\)=Continue$",
               # what the scan tests on each CHILD before it counts it (a failed / skipped / resumable child ends the scan)
               r"^TaskState::is_(error|skip|success|pending)=False$", r"^Task::is_ready=False$", r"is_empty=True$",
               ]
    # an act that is completed from outside (auto-complete off: a subflow act is closed by its sub workflow's return, C15.R3)
    # is not closed by its children - acceptable ONLY IF the wait ends when the act is answered: the Error arm of
    # Task::update (the one answer after which the act can live on, kept alive by its catch) switches auto-complete back on
    # before the error is handled. Without that a subflow act whose catch took the sub workflow's error stays running for
    # ever (seeded change C01-e; my own first version of repair 94bb39d)
    if _error_arm_ends_the_wait(m, pa):
        allowed.append(r"^Task::is_auto_complete=True$")
    else:
        cx.note("C01.R7: the Error arm of Task::update does not switch auto-complete back on: an `is_auto_complete` guard on a review's completing write is not accepted")
    n = 0
    for q, f in sorted(m.fns.items()):
        if not re.search(r"ActTask for acts::model::\w+::\w+>::review$", q):
            continue
        for c in f.calls():
            if c.q != T.Q_SET_STATE:
                continue
            r = pa.root(f, c.args[1])
            recv = pa.root(f, c.args[0])
            if r[0] == "agg" and r[2] == "Completed" and recv[0] == "call" and recv[1] == T.Q_CTX_TASK:
                n += 1
                from rules.common import wait_set
                ws = wait_set(m, pa, f, c, recv)
                if ws is not None:
                    # the quantifier that holds at the write is the all-children-terminal fact itself (its content is R8's)
                    allowed = allowed + [r"Iterator>::(any|all)=(True|False)$"]
                exact_guards(cx, "C01.R7", "closes:%s" % f.short, f, c.b, required=[r"^TaskState::is_running=True$"], allowed=allowed,
                             what="`%s` completes its task as soon as all children are terminal" % f.short, loc=c.loc)
    cx.floor("C01.R7", 4)


def r8_wait_wake(cx):
    m = cx.m
    pa = Prov(m, "alias")
    from vlib.model import conditions_of
    from rules.common import wait_set
    from rules import c03
    # (1) who reports back: Task::next reviews the parent of the task that ended, Task::review runs the node's review
    nx = m.one(ARC_TASK_IMPL + r"next$")
    rv = m.one(ARC_TASK_IMPL + r"review$")
    sup = []
    wake = [c for c in nx.calls() if re.search(r"ActTask.*::review$", c.q)]
    if not wake:
        raise Anchor("Task::next: the review of the parent was not found")
    for c in wake:
        if any(re.search(r"is_event_processed=False$", gdesc(m, g)) for g in conditions_of(m, nx, c.b, mode="value") if g.necessary):
            sup.append("Task::next reviews the parent only when the ended task is no hook act")
    node_rev = [c for c in rv.calls() if re.search(r"ActTask for acts::model::\w+::\w+>::review$", c.q)]
    if not node_rev:
        raise Anchor("Task::review: the dispatch to the node's review was not found")
    if all(any(re.search(r"is_event_processed=False$", gdesc(m, g)) for g in conditions_of(m, rv, c.b, mode="value") if g.necessary) for c in node_rev):
        sup.append("Task::review returns at once when the ended task is a hook act")
    cx.note("C01.R8: hook acts %s" % ("do not report back (%s)" % "; ".join(sup) if sup else "report back like any other task"))
    # (2) what is waited for
    n = 0
    waits_quantified = []
    for q, f in sorted(m.fns.items()):
        if not re.search(r"ActTask for acts::model::(step::Step|act::Act|branch::Branch|workflow::Workflow)>::(next|review|run)$", q):
            continue
        for c in f.calls():
            if c.q != T.Q_SET_STATE:
                continue
            r = pa.root(f, c.args[1])
            recv = pa.root(f, c.args[0])
            if not (r[0] == "agg" and r[2] == "Completed" and recv[0] == "call" and recv[1] == T.Q_CTX_TASK):
                continue
            ws = wait_set(m, pa, f, c, recv)
            n += 1
            if ws is not None:
                waits_quantified.append(f.short)
                from rules.common import wait_combos
                waited, left = wait_combos(ws)
                allc = waited + left

                def _d(base, combos=allc):
                    return all(ws["done"](dict(base, **cmb)) == {True} for cmb in combos)
                ended = _d({"ended": True, "hook": False, "beneath": True}) and _d({"ended": True, "hook": True, "beneath": True})
                cx.ob("C01.R8", "ended-not-waited:%s" % f.short, ended, "`%s`: a task that has ended does not hold the completion back (%s)" % (f.short, ws["how"]), c.loc)
                hook = (not sup) or _d({"ended": False, "hook": True, "beneath": True})
                cx.ob("C01.R8", "waits-for-hook:%s" % f.short, hook,
                      "`%s`: an open hook act does not hold the completion back (it would never report back) (%s)" % (f.short, ws["how"]), c.loc)
                if ws["domain"] == "process":
                    far = _d({"ended": False, "hook": False, "beneath": False})
                    cx.ob("C01.R8", "beneath-only:%s" % f.short, far,
                          "`%s`: of all tasks of the process only those directly beneath the task are waited for (a deeper task reports to its own parent, a task of an abandoned round to nobody) (%s)" % (f.short, ws["how"]), c.loc)
                continue
            fact, how = c03.all_children_fact(m, pa, f, c, recv)
            if not (fact and how.startswith("count ==")):
                cx.ob("C01.R8", "waits-for-none:%s" % f.short, True, "`%s` completes its task without waiting for a task beneath it (%s): nothing can be waited for in vain" % (f.short, how), c.loc)
            if fact and how.startswith("count =="):
                cx.ob("C01.R8", "waits-for-hook:%s" % f.short, not sup,
                      "`%s` completes its task when count == children().len(): every child is waited for, a lifecycle-hook act among them, but %s - once the hook act is the last child to end nothing wakes the task again" % (
                          f.short, "; ".join(sup) if sup else "hook acts report back"), c.loc)
    # (3) a task that waits for EVERY task beneath it also waits for the old task of a step that Back redoes: it must be closed
    if any("Workflow" in x for x in waits_quantified):
        c03.back_target_closed(cx, "C01.R8")
    cx.floor("C01.R8", 8)


def r9_scan_covers(cx):
    m = cx.m
    pa = Prov(m, "alias")
    _, tables = engine(cx)
    from vlib.model import ITER_NEXT
    n = 0
    for q, f in sorted(m.fns.items()):
        if not re.search(r"ActTask for acts::model::(step::Step|act::Act)>::(next|review)$", q):
            continue
        # the counter compared with children().len() at a completing write
        cnts = set()
        for c in f.calls():
            if c.q != T.Q_SET_STATE:
                continue
            v = pa.root(f, c.args[1])
            if not (v[0] == "agg" and v[2] == "Completed"):
                continue
            for g in guards_of(m, f, c.b, mode="alias"):
                r = g.root
                if r[0] == "bin" and r[1] == "Eq" and g.truth is True:
                    for a, b in ((r[2], r[3]), (r[3], r[2])):
                        if a[0] == "local" and b[0] == "call" and b[1].endswith("::len"):
                            cnts.add(a[1])
        for cnt in sorted(cnts):
            incs = set()
            for bi, si, kind, payload in f.defs().get(cnt, []):
                if kind == "assign" and payload[0] == "use" and payload[1][0] != "k":
                    incs.add(bi)
                elif kind == "assign" and payload[0] in ("bin", "checked"):
                    incs.add(bi)
            # the loop element: receiver of Task::state in the guards of an increment
            elem = None
            for bi in incs:
                for g in guards_of(m, f, bi, mode="alias"):
                    r = g.root
                    if r[0] == "call" and T.STATE_PRED.match(r[1]):
                        sr = pa.root(f, Call(f, r[2]).args[0])
                        if sr[0] == "call" and sr[1] == T.Q_STATE:
                            e = pa.root(f, Call(f, sr[2]).args[0])
                            if e[0] == "call" and ITER_NEXT.search(e[1]):
                                elem = e
            if elem is None or not incs:
                cx.undecide("C01.R9", "`%s`: the counting loop's element / increments were not recognised" % f.short)
                continue
            n += 1
            start = elem[2]
            rets = set(f.ret_blocks())
            uncovered = []
            for v in sorted(T.TERMINAL):
                seen = set()
                work = list(f.succ(start))
                bad = False
                while work and not bad:
                    x = work.pop()
                    if x in seen:
                        continue
                    seen.add(x)
                    if x in incs or x in rets:
                        continue
                    if x == start:
                        bad = True
                        break
                    t = f.blocks[x]["t"]
                    if t[0] in ("resume", "abort", "unreachable"):
                        continue
                    if t[0] == "switch":
                        r = pa.root(f, t[1])
                        neg = False
                        while r[0] == "not":
                            neg = not neg
                            r = r[1]
                        if r[0] == "call" and T.STATE_PRED.match(r[1]) and not r[3]:
                            sr = pa.root(f, Call(f, r[2]).args[0])
                            if sr[0] == "call" and sr[1] == T.Q_STATE and pa.root(f, Call(f, sr[2]).args[0]) == elem:
                                val = tables[T.STATE_PRED.match(r[1]).group(1)][v]
                                val = (not val) if neg else val
                                tgt = t[3]
                                for sv, tb in t[2]:
                                    if int(sv) == (1 if val else 0):
                                        tgt = tb
                                work.append(tgt)
                                continue
                    work += [sx for sx in f.succ(x)]
                if bad:
                    uncovered.append(v)
            cx.ob("C01.R9", "scan-covers:%s" % f.short, not uncovered,
                  "`%s`: every terminal state of a child is counted or passed on by the scan (neither for: %s)" % (f.short, uncovered or "none"), f.loc(),
                  **({} if not uncovered else {"consequence": "a child that ended this way is never counted: count == children().len() cannot become true and nothing else wakes the task"}))
    cx.floor("C01.R9", 4)


def _error_arm_ends_the_wait(m, pa):
    from rules.common import event_arm_of
    f = m.one(r"^%s::update$" % TASK)
    on = [c for c in f.calls() if c.q.endswith("Task::set_auto_complete") and len(c.args) > 1
          and pa.root(f, c.args[1])[0] == "const" and pa.root(f, c.args[1])[1].get("int") == "1" and event_arm_of(m, f, c.b) == {"Error"}]
    errs = [c for c in f.calls() if (c.callee.get("decl") or "").endswith("scheduler::ActTask::error") and event_arm_of(m, f, c.b) == {"Error"}]
    if not on or not errs:
        return False
    # on every path to the error handling either auto-complete is already on or it is switched on
    for e in errs:
        ok = False
        for c in on:
            if e.b in f.reach_from([c.b]):
                extra = [g for g in guards_of(m, f, c.b, mode="alias") if not g.neutral and g not in guards_of(m, f, e.b, mode="alias")
                         and not (g.root[0] == "call" and g.root[1].endswith("Task::is_auto_complete") and g.truth is False)]
                same = [g for g in extra if not any(g.root == h.root and g.truth == h.truth for h in guards_of(m, f, e.b, mode="alias"))]
                if not same:
                    ok = True
        if not ok:
            return False
    return True
