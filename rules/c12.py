"""C12 Restart / reload transparency at quiescent points.

R1 loader coverage: every persisted field of a task / process row that carries state is consumed
by the loader and applied through a setter; R2 the two process loaders (`load`, `load_proc`)
restore the same fields; R3 string round trips of the persisted enums; R4 node re-binding does
not hand out detached nodes. Depends on C10.R1 (row mappers) and C20.R1 (model re-parse).
Not decided: equality of the continued message stream."""
import re

from vlib.model import Anchor, Call, Prov, guards_of, discr_variants, root_str, short_name
from vlib.enumfn import EnumEval, Undecided, TASK_STATE
from vlib import ts as T

TASK = "acts::scheduler::process::task::Task"
PROC = "acts::scheduler::process::process::Process"
ROW_TASK = "acts::store::data::task::Task"
ROW_PROC = "acts::store::data::proc::Proc"

# which loader action must consume which persisted field (field -> callee suffix); fields that are
# derived from others (name/kind from the node, id from pid+tid, mid/name from the model) are not state
TASK_LOAD = {
    "tid": "Task::new", "node_data": "Node::from_str", "state": "Task::set_pure_state", "prev": "Task::set_prev",
    "data": "Task::set_data", "err": "Task::set_pure_err", "start_time": "Task::set_start_time", "end_time": "Task::set_end_time",
    "hooks": "Task::set_hooks", "timestamp": "=timestamp",
}
PROC_LOAD = {
    "state": "Process::set_pure_state", "start_time": "Process::set_start_time", "end_time": "Process::set_end_time",
    "env": "Process::set_env", "err": "Process::set_pure_err", "model": "Process::load", "timestamp": "Process::new_with_timestamp",
}


def consumed_fields(m, f, row_fields):
    """{row field: set(callee suffixes / '=field') } : where values derived from a row field flow"""
    pv = Prov(m, "value")
    out = {}

    def field_of(r):
        fs = ()
        if r[0] in ("call", "param"):
            fs = r[3]
        elif r[0] == "local":
            fs = r[3]
        elif r[0] == "field":
            fs = r[2]
            inner = field_of(r[1])
            if inner:
                return inner
        elif r[0] in ("some",):
            return field_of(r[1])
        for x in reversed(fs):
            if x in row_fields:
                return x
        return None

    def note(fld, where):
        out.setdefault(fld, set()).add(where)

    # flows into calls (possibly through intermediate pure calls: from_str, into, map_err, ?, ..)
    def slice_fields(op, depth=0, seen=None):
        seen = seen if seen is not None else set()
        r = pv.root(f, op)
        res = set()
        work = [r]
        n = 0
        while work and n < 60:
            n += 1
            x = work.pop()
            if x in seen:
                continue
            seen.add(x)
            fld = field_of(x)
            if fld:
                res.add(fld)
                continue
            if x[0] == "call":
                c = Call(f, x[2])
                for a in c.args:
                    work.append(pv.root(f, a))
            elif x[0] in ("not", "some"):
                work.append(x[1])
            elif x[0] == "field":
                work.append(x[1])
            elif x[0] == "local":
                for d in f.defs().get(x[1], []):
                    if d[2] == "call":
                        for a in d[3][2]:
                            work.append(pv.root(f, a))
                    elif d[2] == "assign" and d[3][0] == "use" and d[3][1][0] != "k":
                        work.append(pv.root(f, d[3][1]))
        return res

    for c in f.calls():
        name = short_name(c.q)
        if c.q.startswith("std::") or c.q.startswith("core::") or c.q.startswith("<std::") or c.q.startswith("serde_json::") or c.q.startswith("<serde"):
            continue
        for a in c.args[0:]:
            for fld in slice_fields(a):
                note(fld, name)
    # direct field assignments: task.timestamp = t.timestamp
    for bi, b in enumerate(f.blocks):
        for s in b["s"]:
            if s[0] == "A" and s[1][1] and isinstance(s[1][1][-1], list) and s[1][1][-1][0] == "f" and s[2][0] == "use" and s[2][1][0] != "k":
                for fld in slice_fields(s[2][1]):
                    note(fld, "=" + s[1][1][-1][2])
    return out


def run(cx):
    m = cx.m
    cx.rule("C12.R1", "K4", "loader coverage: every state-carrying field of the task / process row is consumed by the loader through the matching setter")
    cx.rule("C12.R2", "K11", "the two process loaders (bulk `load`, lazy `load_proc`) restore the same fields")
    cx.rule("C12.R3", "K5", "persisted enums survive their string / integer images (state, node kind, message state, message status)")
    cx.rule("C12.R4", "struct", "re-binding a task to its node never yields a node without links")
    r1_r2(cx)
    r3(cx)
    r4(cx)
    cx.rule("C12.R5", "K2", "the model snapshot kept in the node tree (and stored with the process) is taken after every in-place completion of the model (generated ids)")
    r5(cx)
    cx.rule("C12.R6", "K4", "what the loaders restore is kept current in the store: every task / process column they consume is written by the UPDATE of that collection, not only by the INSERT made when the row was first pushed (before hooks, data or state existed)")
    r6(cx)
    cx.rule("C12.R7", "K3", "a reload loses nothing: every cell of the live Task / Process that can change while the process runs is part of the stored row (shared with C11.R4)")
    from rules.c11 import r4_no_memory_only_cells
    r4_no_memory_only_cells(cx, "C12.R7")
    cx.rule("C12.R8", "E3", "the order in which a task's children are visited is a function of stored data (sorted by the stored creation stamp): it is the same after a reload, whatever order the store returns the rows in")
    r8_children_order(cx)


def r6(cx, rule="C12.R6", only=None, floor=12):
    from rules.c10 import sqlite_updated_columns, mem_doc_keys
    m = cx.m
    live = {"task": "acts::scheduler::process::task::Task", "proc": "acts::scheduler::process::process::Process"}
    for c, table in (("task", TASK_LOAD), ("proc", PROC_LOAD)):
        upd, site = sqlite_updated_columns(m, c)
        keys, df = mem_doc_keys(m, c)
        ftys = m.struct_field_types(live[c])
        for fld in sorted(table):
            ty = ftys.get(fld)
            # only what can change after the first insert has to be rewritten: the live cell is behind a lock / atomic
            if ty is None or not re.search(r"RwLock|Mutex|Atomic", ty):
                continue
            if only is not None and (c, fld) not in only:
                continue
            cx.ob(rule, "kept-current:%s:%s" % (c, fld), fld in upd and fld in keys,
                  "the `%s` of a %s, a cell that changes while the process runs and that the loader restores, is rewritten by every update of its row (SQLite UPDATE: %s, memory document: %s)" % (
                      fld, c, "yes" if fld in upd else "NO - the column keeps the value of the first insert (made when the task was pushed, before init)", "yes" if fld in keys else "NO"), site.loc)
    cx.floor(rule, floor)


def _matches(where_set, want):
    if want.startswith("="):
        return want in where_set
    return any(w.endswith(want) or w == want for w in where_set)


def r1_r2(cx):
    m = cx.m
    tfields = m.struct_fields(ROW_TASK)
    pfields = m.struct_fields(ROW_PROC)
    lt = m.one(r"^acts::cache::store::<impl acts::store::store::Store>::load_tasks$")
    got = consumed_fields(m, lt, set(tfields))
    for fld, want in TASK_LOAD.items():
        if fld not in tfields:
            cx.ob("C12.R1", "task:%s" % fld, False, "the task row has no field `%s`" % fld, lt.loc())
            continue
        ok = _matches(got.get(fld, set()), want)
        cx.ob("C12.R1", "task:%s" % fld, ok,
              "load_tasks applies the stored `%s` through `%s` (flows into: %s)" % (fld, want, sorted(got.get(fld, [])) or "nothing"), lt.loc())
    unknown = [f_ for f_ in tfields if f_ not in TASK_LOAD and f_ not in ("id", "pid", "name", "kind")]
    cx.ob("C12.R1", "task:all-fields-classified", not unknown,
          "every field of the task row is either restored or derived (unclassified: %s)" % (unknown or "none"), lt.loc())
    loaders = {}
    for name in ("load", "load_proc"):
        f = m.one(r"^acts::cache::store::<impl acts::store::store::Store>::%s$" % name)
        got = consumed_fields(m, f, set(pfields))
        loaders[name] = (f, got)
        for fld, want in PROC_LOAD.items():
            ok = _matches(got.get(fld, set()), want)
            cx.ob("C12.R1", "proc:%s:%s" % (name, fld), ok,
                  "`%s` applies the stored `%s` through `%s` (flows into: %s)" % (name, fld, want, sorted(got.get(fld, [])) or "nothing"), f.loc())
        # tasks are loaded too
        cx.ob("C12.R1", "proc:%s:tasks" % name, any(c.q.endswith("::load_tasks") for c in f.calls()), "`%s` loads the task rows of the process" % name, f.loc())
    unknown = [f_ for f_ in pfields if f_ not in PROC_LOAD and f_ not in ("id", "name", "mid")]
    cx.ob("C12.R1", "proc:all-fields-classified", not unknown,
          "every field of the process row is either restored or derived (unclassified: %s)" % (unknown or "none"), loaders["load"][0].loc())
    # R2 sibling agreement
    a, b = loaders["load"][1], loaders["load_proc"][1]
    for fld in pfields:
        if fld in ("id", "name", "mid"):
            continue
        sa = {w for w in a.get(fld, set()) if not w.endswith("Process::new") or True}
        sb = b.get(fld, set())
        norm = lambda ws: {w for w in ws if re.search(r"Process::(set_\w+|load|new_with_timestamp)$|=", w)}
        cx.ob("C12.R2", "agree:%s" % fld, norm(sa) == norm(sb),
              "`load` and `load_proc` restore `%s` the same way (load: %s; load_proc: %s)" % (fld, sorted(norm(sa)) or "-", sorted(norm(sb)) or "-"),
              loaders["load_proc"][0].loc())
    cx.floor("C12.R1", 26)
    cx.floor("C12.R2", 7)


def r3(cx):
    m = cx.m
    ev = EnumEval(m)
    # TaskState <-> str
    to_s = m.one(r"^acts::scheduler::state::state_to_str$")
    from_s = m.one(r"^acts::scheduler::state::str_to_state$")
    images = {}
    for n, _ in m.variants(TASK_STATE):
        try:
            s = ev.call(to_s, [("enum", TASK_STATE, n)])
            back = ev.call(from_s, [s])
        except Undecided as e:
            raise Anchor("cannot tabulate the TaskState string functions: %s" % e)
        images[n] = s[1]
        cx.ob("C12.R3", "state:%s" % n, back == ("enum", TASK_STATE, n),
              "TaskState::%s is stored as %r and read back as the same state (found %s)" % (n, s[1], back[2] if back[0] == "enum" else back), to_s.loc())
    cx.ob("C12.R3", "state:injective", len(set(images.values())) == len(images), "the 13 state names are pairwise different", to_s.loc())
    # MessageStatus <-> i8
    MS = "acts::store::data::message::MessageStatus"
    to_i = m.one(r"^acts::store::data::message::<impl std::convert::From<acts::store::data::message::MessageStatus> for i8>::from$")
    from_i = m.one(r"^<acts::store::data::message::MessageStatus as std::convert::From<i8>>::from$")
    for n, _ in m.variants(MS):
        try:
            i = ev.call(to_i, [("enum", MS, n)])
            back = ev.call(from_i, [i])
        except Undecided as e:
            raise Anchor("cannot tabulate the MessageStatus integer functions: %s" % e)
        cx.ob("C12.R3", "status:%s" % n, back == ("enum", MS, n), "MessageStatus::%s is stored as %s and read back as the same status (found %s)" % (n, i[1], back), to_i.loc())
    # NodeKind <-> str
    NK = "acts::scheduler::tree::node::NodeKind"
    disp = m.one(r"^<acts::scheduler::tree::node::NodeKind as std::fmt::Display>::fmt$")
    froms = m.find(r"^<acts::scheduler::tree::node::NodeKind as std::convert::From<&str>>::from$")
    names = _display_strings(m, disp, NK)
    if froms and names:
        for n, s in names.items():
            try:
                back = ev.call(froms[0], [("str", s)])
            except Undecided as e:
                raise Anchor("cannot tabulate NodeKind::from(&str): %s" % e)
            cx.ob("C12.R3", "kind:%s" % n, back == ("enum", NK, n), "NodeKind::%s is printed as %r and parsed back as the same kind (found %s)" % (n, s, back), disp.loc())
    else:
        cx.undecide("C12.R3", "NodeKind string functions not found")
    cx.floor("C12.R3", 22)


def _display_strings(m, f, adt):
    """`match self { V => "lit", .. }` in a Display impl: {variant: literal}"""
    t = f.blocks[0]["t"]
    b0 = 0
    n = 0
    while t[0] != "switch" and n < 5:
        b0 = f.succ(b0)[0]
        t = f.blocks[b0]["t"]
        n += 1
    if t[0] != "switch":
        return {}
    byd = {str(d): v for v, d in m.variants(adt)}
    out = {}
    for v, tb in t[2]:
        for s in f.blocks[tb]["s"]:
            if s[0] == "A" and s[2][0] == "use" and s[2][1][0] == "k" and "str" in s[2][1][1]:
                out[byd[v]] = s[2][1][1]["str"]
    return out


def r4(cx):
    m = cx.m
    pa = Prov(m, "alias")
    f = m.one(r"^acts::scheduler::tree::node::Node::from_str$")
    # the value returned when the id is not in the static tree
    news = [c for c in f.calls() if c.q.endswith("Node::new")]
    lookups = [c for c in f.calls() if c.q.endswith("NodeTree::node")]
    relink = [c for c in f.calls() if re.search(r"Node::(set_parent|set_next|set_prev|push_child)$", c.q)]
    fallback_fresh = False
    if news and lookups:
        # is there a return path that yields the freshly built node (the `None` edge of the lookup)?
        for b, kind in f.exit_defs():
            for s in f.blocks[b]["s"]:
                if s[0] == "A" and s[1][0] == 0 and s[2][0] == "use":
                    r = pa.root(f, s[2][1])
                    if r[0] == "call" and (r[1].endswith("Arc::<T>::new") or r[1].endswith("Node::new")):
                        fallback_fresh = True
    ok = not fallback_fresh or bool(relink)
    cx.ob("C12.R4", "from_str:detached", ok,
          "Node::from_str does not return a freshly built node without parent/next/children links for an id that is absent from the static tree",
          f.loc(), consequence="acts generated at run time (parallel / sequence / block / pushed acts) come back detached after a reload: "
                               "their `next` and children are lost, remaining sequence items are silently skipped")
    # a row whose node is not part of the model gets a node of its own, built from THAT row. Run-time node ids are not unique
    # within a process (every act a generator makes copies the template's id, the content - $index / $value - differs), so
    # the loader must not register such a node in the shared tree and hand it to the next row with the same id
    writes = [short_name(c.q) for c in f.calls() if c.args and pa.root(f, c.args[0])[:2] == ("param", 2) and not re.search(r"NodeTree::node$|Deref>::deref$", c.q)]
    cx.ob("C12.R4", "from_str:own-node", not writes and bool(lookups),
          "Node::from_str only looks the id up in the tree; it does not add to the tree (calls on the tree: %s)" % (writes or "the lookup only"), f.loc(),
          **({} if not writes else {"consequence": "after a reload every task of a generated act is bound to the content of whichever row with that id was read first: u1's approval announces u2's $index / $value"}))
    cx.floor("C12.R4", 2)


def r5(cx):
    """build_workflow keeps `tree.model = workflow.clone()`; the builders complete the model in place
    (ids are generated for nodes without one). The snapshot is what Process::into_data stores and what
    a reload re-parses, so it must be taken after the last mutation of the model parameter."""
    m = cx.m
    pa = Prov(m, "alias")
    pv = Prov(m, "value")
    f = m.one(r"^acts::scheduler::tree::build::build_workflow$")
    snaps = []
    for bi, b in enumerate(f.blocks):
        for si, s in enumerate(b["s"]):
            if s[0] == "A" and s[1][1] and isinstance(s[1][1][-1], list) and s[1][1][-1][0] == "f" and s[1][1][-1][2] == "model":
                base = pa.root_place(f, s[1][0], [e for e in s[1][1][:-1]])
                if base[0] == "param" and base[1] == 2:
                    src = pv.root(f, s[2][1]) if s[2][0] == "use" else None
                    snaps.append((bi, si, src))
    if not snaps:
        raise Anchor("build_workflow: no assignment to tree.model found")
    # the clone that feeds the snapshot
    clone_blocks = []
    for bi, si, src in snaps:
        r = src
        n = 0
        while r is not None and r[0] == "call" and n < 5:
            c = Call(f, r[2])
            if (c.callee.get("decl") or "") == "std::clone::Clone::clone" and c.args and pa.root(f, c.args[0])[:2] == ("param", 1):
                clone_blocks.append(c.b)
                break
            r = pv.root(f, c.args[0]) if c.args else None
            n += 1
        if r is not None and r[0] == "param" and r[1] == 1 and not clone_blocks:
            # value-mode provenance looks through clone(): find the clone call of the parameter that dominates the snapshot
            for c in f.calls():
                if (c.callee.get("decl") or "") == "std::clone::Clone::clone" and c.args and pa.root(f, c.args[0])[:2] == ("param", 1) and f.dominates(c.b, bi):
                    clone_blocks.append(c.b)
    if not clone_blocks:
        raise Anchor("build_workflow: tree.model is not a clone of the model parameter")
    cb = max(clone_blocks, key=lambda b: len(f.dom_chain(b)))
    # mutations of the model parameter reachable after the clone
    after = f.reach_from(f.succ(cb))
    muts = []
    for b in after:
        for s in f.blocks[b]["s"]:
            if s[0] == "A" and s[2][0] in ("ref", "addr") and len(s[2]) > 2 and s[2][2] and s[2][1][0] == 1:
                muts.append(f.loc(b))
            if s[0] == "A" and s[1][0] == 1 and s[1][1] and s[1][1] != ["*"]:
                muts.append(f.loc(b))
    cx.ob("C12.R5", "model-snapshot:after-completion", not muts,
          "the model cloned into `tree.model` is not changed afterwards (mutable uses of the model after the clone: %s)" % (sorted(set(muts)) or "none"),
          f.loc(cb), **({} if not muts else {"consequence": "ids generated for nodes without an explicit id are missing from the stored model: a reload re-parses it, generates different ids and cannot re-bind the stored tasks to their nodes"}))
    # Process::into_data stores that snapshot
    g = m.one(r"^%s::into_data$" % PROC)
    ok = any(c.q.endswith("Process::model") for c in g.calls()) and any(c.q.endswith("Workflow::to_json") for c in g.calls())
    pm = m.one(r"^%s::model$" % PROC)
    cx.ob("C12.R5", "model-snapshot:stored", ok, "the process row stores `self.model().to_json()`, i.e. the tree's snapshot", g.loc())
    cx.floor("C12.R5", 2)


def r8_children_order(cx):
    """Process::children(tid) feeds every next / review / siblings / abort walk; Step::review wakes pending branches one at a
    time in that order. The rows of a reloaded process arrive in store order (the memory store: by `pid:tid`, tids are random),
    so the order must be re-derived from a stored field: the result is sorted, by `timestamp`, before it is returned."""
    m = cx.m
    pa = Prov(m, "alias")
    f = m.one(r"^acts::scheduler::process::process::Process::children$")
    sorts = [c for c in f.calls() if re.search(r"slice::<impl \[T\]>::sort(_unstable)?_by(_key|_cached_key)?(::<.*>)?$", c.q)]
    ok = False
    why = "no sort of the result found"
    for c in sorts:
        cl = None
        for a in c.args[1:]:
            r = pa.root(f, a)
            if r[0] == "closure" and r[1] in m.fns:
                cl = m.fns[r[1]]
        if cl is None:
            continue
        # the comparator reads the field `timestamp` of both elements and nothing else
        flds = set()
        for bi, b in enumerate(cl.blocks):
            # `sort_by_key(|t| t.timestamp)`: the key is returned, not passed to a comparison
            for st in b["s"]:
                if st[0] == "A" and st[1][0] == 0 and not st[1][1] and st[2][0] == "use" and st[2][1][0] != "k":
                    r_ = pa.root(cl, st[2][1])
                    if r_[0] == "param" and r_[3]:
                        flds |= {x for x in r_[3] if x not in ("*",) and not x.startswith("@") and not x.isdigit()}
            t = b["t"]
            if t[0] == "call":
                for a in t[2]:
                    if a[0] == "k":
                        continue
                    r = pa.root(cl, a)
                    if r[0] == "param" and r[3]:
                        flds |= {x for x in r[3] if x not in ("*",) and not x.startswith("@") and not x.isdigit()}
        # what is sorted is what is returned
        sorted_root = pa.root(f, c.args[0])
        ret_is_sorted = any(s_[0] == "A" and s_[1][0] == 0 and not s_[1][1] and s_[2][0] == "use" and s_[2][1][0] != "k"
                            and _same_local(f, pa, s_[2][1], c.args[0]) for b in f.blocks for s_ in b["s"])
        if flds and flds <= {"timestamp"} and ret_is_sorted:
            ok = True
        else:
            why = "sorted by %s, returned value is the sorted vector: %s" % (sorted(flds) or "?", ret_is_sorted)
    cx.ob("C12.R8", "children:sorted-by-stored-stamp", ok,
          "Process::children returns the children sorted by their stored `timestamp`%s" % (
              "" if ok else " - it does not (%s): the order then depends on how the tasks got into memory (push order / store row order), and a reloaded process wakes and visits siblings in another order than the one that was never interrupted" % why), f.loc())
    cx.floor("C12.R8", 1)


def _same_local(f, pa, op_a, op_b):
    """do the two operands denote the same local (through refs / derefs)?"""
    def base(op):
        if op[0] == "k":
            return None
        loc, proj = op[1]
        for _ in range(6):
            ds = [d for d in f.defs().get(loc, []) if d[2] in ("assign", "call")]
            if len(ds) == 1 and ds[0][2] == "assign" and ds[0][3][0] in ("ref", "addr"):
                loc = ds[0][3][1][0]
                continue
            if len(ds) == 1 and ds[0][2] == "assign" and ds[0][3][0] == "use" and ds[0][3][1][0] != "k":
                loc = ds[0][3][1][1][0]
                continue
            if len(ds) == 1 and ds[0][2] == "call" and (ds[0][3][1].get("decl") or "") in ("std::ops::Deref::deref", "std::ops::DerefMut::deref_mut") and ds[0][3][2]:
                a0 = ds[0][3][2][0]
                if a0[0] != "k":
                    loc = a0[1][0]
                    continue
            break
        return loc
    a, b = base(op_a), base(op_b)
    return a is not None and a == b
