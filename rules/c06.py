"""C06 Errors propagate upward unless a matching catch takes them, exactly once.

R1 error discipline: no `Result<_, ActError>` is discarded in crate acts outside the one-site-
one-reason table; the scheduler turns a failing exec into a propagated task error; R2 emit_error
hands the task's own error to the parent and continues there, only while the task is still in
error after its emission (so a catch stops the climb); R3 state Error runs the ErrorCatch hooks
and only those; the once-flag test comes before the code match; R4 the code match compares the
error's code with the catch's `on`, a catch without `on` takes everything.
Not decided: which catch wins under nesting across tasks; "flow continues as if no error"."""
import json
import os
import re

from vlib.model import Anchor, Call, Prov, guards_of, discr_variants, root_str, short_name
from vlib import ts as T
from vlib.discard import classify, is_acterror_result
from vlib.valreach import blocks_by_value, values_reaching
from vlib.enumfn import TASK_STATE
from rules.c02 import engine, TASK, ARC_TASK_IMPL, is_dead, _closure_reads_const
from rules.c01 import gdesc

HOOK = "acts::scheduler::process::task::hook::StatementBatch::run"


def run(cx):
    cx.rule("C06.R1", "K6", "no Result<_, ActError> is discarded in crate acts outside tables/error_discards.json; a failing exec becomes a propagated task error")
    cx.rule("C06.R2", "E3", "emit_error: the parent receives the task's own error and its `error()` runs, both only while the task is still in error after being emitted")
    cx.rule("C06.R3", "K5", "state Error runs exactly the ErrorCatch hooks; the catch tests its once-flag before matching the code")
    cx.rule("C06.R4", "K1", "a catch takes an error iff it has no `on` or `on` equals the error's code; it then schedules its own catch steps")
    r1(cx)
    r2(cx)
    r3(cx)
    r4(cx)
    cx.rule("C06.R5", "K2", "a task's own catches are registered before anything in its init can fail (package lookup, params validation, `uses` check, setup): an error raised while the act / step is being initialised finds its catch")
    r5_registered_first(cx)


def r1(cx):
    m = cx.m
    p = os.path.join(os.path.dirname(os.path.dirname(os.path.abspath(__file__))), "tables", "error_discards.json")
    table = {e["key"]: e["reason"] for e in json.load(open(p))["discards"]}
    seen = {}
    total = 0
    used = set()
    kinds = {}
    from vlib.ts import Summaries
    sm = cx.shared("summaries", lambda: Summaries(m))
    how_of = {e["key"]: e["how"] for e in json.load(open(p))["discards"]}
    pending = []
    for f in sorted(m.fns.values(), key=lambda f: f.q):
        if f.crate != "acts" or f.exp or "tests" in f.q:
            continue
        for c in f.calls():
            if c.exp:
                continue
            ty = f.local_ty(c.dest[0]) if not c.dest[1] else ""
            if not is_acterror_result(ty):
                continue
            total += 1
            v = classify(m, f, c)
            kinds[v[0]] = kinds.get(v[0], 0) + 1
            if v[0] in ("DISCARDED", "UNKNOWN"):
                base = "%s<-%s" % (f.short, short_name(c.q))
                seen[base] = seen.get(base, 0) + 1
                key = base if seen[base] == 1 else "%s#%d" % (base, seen[base])
                if key in table:
                    used.add(key)
                    cx.ob("C06.R1", "discard:%s" % key, True, "discarded error (%s) at a listed site: %s" % (v[1], table[key]), c.loc)
                elif c.q in m.fns and m.fns[c.q].returns_result() and c.q not in sm.may_fail():
                    # nothing is lost: the callee has no path that constructs or propagates an error (may-fail summary)
                    cx.ob("C06.R1", "discard:%s" % key, True, "the dropped Result of `%s` is always Ok (the callee cannot fail: may-fail summary)" % short_name(c.q), c.loc)
                else:
                    pending.append((key, f, c, v))
    # a listed site whose code was moved (extracted into a helper, closure turned into a function): an unlisted discard of
    # the same callee, consumed the same way, while the listed site no longer exists, is that site at its new place
    free = [k for k in table if k not in used]
    for key, f, c, v in pending:
        cal = short_name(c.q)
        moved = [k for k in free if k.split("<-", 1)[1].split("#")[0] == cal and how_of.get(k) == v[1]]
        if moved:
            free.remove(moved[0])
            used.add(moved[0])
            cx.ob("C06.R1", "discard:%s" % moved[0], True, "discarded error (%s) at a listed site that moved to `%s`: %s" % (v[1], f.short, table[moved[0]]), c.loc)
        else:
            cx.ob("C06.R1", "discard:%s" % key, False,
                  "`%s` drops the error of `%s` (%s) and the site is not in the exception table: the failure never reaches the task / the client" % (
                      f.short, short_name(c.q), v[1]), c.loc)
    cx.note("C06.R1: %d calls returning Result<_, ActError> classified: %s" % (total, kinds))
    if total < 250:
        cx.undecide("C06.R1", "only %d ActError-returning call sites found (floor 250)" % total)
    for k in table:
        if k not in used:
            cx.note("C06.R1: table entry no longer matches a discard: %s" % k)
    # the scheduler's handler (same obligation as C01.R5)
    pa = Prov(m, "alias")
    nxt = [f for f in m.fns.values() if f.q.startswith("acts::scheduler::scheduler::Scheduler::next::{closure#0}") and f.q.count("{closure") == 1]
    ok = False
    loc = None
    if len(nxt) == 1:
        f = nxt[0]
        for c in f.calls():
            if c.q == T.Q_EXEC:
                loc = c.loc
                v = classify(m, f, c)
                ok = v[0] == "HANDLED"
    cx.ob("C06.R1", "scheduler:exec-error", ok, "the Result of `task.exec` in the scheduler loop is consumed by a handler that calls set_err and emit_error", loc)
    cx.floor("C06.R1", 20)


def r2(cx):
    m = cx.m
    pa = Prov(m, "alias")
    pv = Prov(m, "value")
    _, tables = engine(cx)
    f = m.one(r"^acts::scheduler::context::Context::emit_error$")
    se = [c for c in f.calls() if c.q == T.Q_SET_ERR]
    er = [c for c in f.calls() if (c.callee.get("decl") or "").endswith("scheduler::ActTask::error")]
    em = [c for c in f.calls() if c.q == T.Q_EMIT_TASK]
    if len(se) != 1 or len(er) != 1 or len(em) != 1:
        raise Anchor("emit_error: expected one emit_task, one set_err, one error() call (found %d/%d/%d)" % (len(em), len(se), len(er)))
    task = pa.root(f, em[0].args[1])
    is_ctx_task = task[0] == "call" and task[1] == T.Q_CTX_TASK
    cx.ob("C06.R2", "emit:self", is_ctx_task, "emit_error first emits the context's task", em[0].loc)
    # the error handed over
    errv = pv.root(f, se[0].args[1])
    from_task = False
    r = errv
    if r[0] == "call" and r[1].endswith("Task::err"):
        from_task = pa.root(f, Call(f, r[2]).args[0]) == task
    cx.ob("C06.R2", "parent:same-error", from_task, "the parent is given the task's own `err()` (code and message unchanged)", se[0].loc, value=root_str(errv))
    parent = pa.root(f, se[0].args[0])
    # the receiver is `task.parent()`, or the variable of a climb that starts there and steps with `.parent()` of itself
    def _is_parent_chain(r):
        if r[0] == "call" and r[1].endswith("Task::parent"):
            return pa.root(f, Call(f, r[2]).args[0]) == task
        if r[0] == "local":
            ok_start = ok_step = False
            for bi, si, kind, payload in f.defs().get(r[1], []):
                src = None
                if kind == "call":
                    src = ("call", payload[1].get("q") or "", bi, ())
                elif kind == "assign" and payload[0] == "use":
                    src = pa.root(f, payload[1])
                if src is None or not (src[0] == "call" and src[1].endswith("Task::parent")):
                    continue
                owner = pa.root(f, Call(f, src[2]).args[0])
                if owner == task:
                    ok_start = True
                elif owner[0] == "local" and owner[1] == r[1]:
                    ok_step = True
            return ok_start and ok_step
        return False
    base = parent
    if base[0] == "local" and base[3]:
        base = base[:3] + ((),) + base[4:]
    is_parent = _is_parent_chain(parent) or _is_parent_chain(base)
    cx.ob("C06.R2", "parent:is-parent", is_parent and pa.root(f, er[0].args[0]) == parent, "the error goes to `task.parent()` (or, past ancestors that have ended, to the next one up) and that same task's `error()` continues the climb", er[0].loc)
    cx.ob("C06.R2", "parent:order", f.dominates(se[0].b, er[0].b) and f.dominates(em[0].b, se[0].b), "order: emit the task, then mark the parent, then run the parent's error()", er[0].loc)
    # both under `still in error` re-checked after the emission
    rechecked = False
    for g in guards_of(m, f, se[0].b, mode="alias"):
        r = g.root
        if r[0] == "call" and r[1].endswith("TaskState::is_error") and g.truth is True:
            sr = pa.root(f, Call(f, r[2]).args[0])
            if sr[0] == "call" and sr[1] == T.Q_STATE and pa.root(f, Call(f, sr[2]).args[0]) == task:
                # this state read happens after the emission
                if f.dominates(em[0].b, sr[2]):
                    rechecked = True
    cx.ob("C06.R2", "climb:recheck", rechecked, "the climb happens only if the task is still in error *after* it was emitted (a catch that revives it stops the climb)", se[0].loc)
    # the climb is decided by the failing task alone: still in error after its emission, has a parent, has an error. Nothing
    # about the PARENT decides it (a parent that is already in error - an earlier failure was taken by a catch further up -
    # still has to pass this one on)
    from vlib.model import conditions_of
    from vlib import ctrl
    conds_ = sorted({gdesc(m, g) for g in conditions_of(m, f, se[0].b, mode="alias") if not g.neutral})
    ok_pat = r"^TaskState::is_error=True$|^match\(Task::parent\)=Some$|^match\(Task::err\)=Some$|^match\(.*branch.*\)=Continue$|^match\(parent\)=Some$|^match\(err\)=Some$|^match\(.*Clone.*clone\)=Some$"
    extra_ = [d for d in conds_ if not re.search(ok_pat, d)]
    how = ""
    if parent[0] == "local" and not extra_:
        # the receiver is the variable of a climbing loop: ask about ONE iteration (paths stop where the variable steps to its
        # own parent). The one accepted dependence on the receiving ancestor: one that has ENDED OTHER THAN BY AN ERROR is
        # passed over (it was reported terminal and keeps its state) and the climb goes on with its parent. An ancestor that
        # is open, or in error (its own catch may take this error), takes the error in its iteration
        steps = set()
        for bi, si, kind, payload in f.defs().get(parent[1], []):
            src = None
            if kind == "call":
                src = ("call", payload[1].get("q") or "", bi, ())
            elif kind == "assign" and payload[0] == "use":
                src = pa.root(f, payload[1])
            if src is not None and src[0] == "call" and src[1].endswith("Task::parent"):
                owner = pa.root(f, Call(f, src[2]).args[0])
                if owner[0] == "local" and owner[1] == parent[1]:
                    steps.add(src[2])

        def classify(r, neg, fn):
            if r[0] == "call" and T.STATE_PRED.match(r[1]):
                sr = pa.root(f, Call(f, r[2]).args[0])
                if sr[0] == "call" and sr[1] == T.Q_STATE and pa.root(f, Call(f, sr[2]).args[0]) == parent:
                    return ("P:" + T.STATE_PRED.match(r[1]).group(1), ctrl.bool_truth(neg))
            return None
        try:
            names, reach = ctrl.reach_table(m, f, se[0].b, classify, mode="alias", avoid=steps)
        except ValueError:
            names, reach = ["?"], set()
        tbl = [dict(t) for t in reach]
        if names:
            # feasible states of the ancestor: open (not completed, not error), error (completed and error), ended otherwise
            def reaches(comp, err):
                return any(all(t.get(k, v) == v for k, v in (("P:is_completed", comp), ("P:is_error", err))) for t in tbl)
            unknown = [n_ for n_ in names if n_ not in ("P:is_completed", "P:is_error")]
            if unknown or not reaches(False, False) or not reaches(True, True):
                extra_ = ["state of the receiving ancestor: %s (an open ancestor %s the error, an ancestor in error %s it)" % (
                    names, "takes" if reaches(False, False) else "DOES NOT take", "takes" if reaches(True, True) else "DOES NOT take")]
            else:
                how = " - one iteration of the climb: an open ancestor and an ancestor in error take the error, one that ended otherwise %s (atoms %s)" % (
                    "takes it too" if reaches(True, False) else "is passed over and the climb goes on with its parent", names)
    cx.ob("C06.R2", "climb:unconditional", not extra_,
          "an error that is still standing climbs to the parent whatever state the parent is in (conditions: %s)%s" % (conds_, how if not extra_ else " - the climb also depends on %s" % extra_), se[0].loc)
    cx.floor("C06.R2", 6)


def r3(cx):
    m = cx.m
    pa = Prov(m, "alias")
    _, tables = engine(cx)
    f = m.one(r"^%s::run_hooks$" % TASK)
    byv = blocks_by_value(m, tables, f, r"process::task::Task::state$", TASK_STATE)
    by_key = {}
    for c in f.calls():
        if c.q == T.Q_RUN_HOOKS_BY:
            k = pa.root(f, c.args[1])
            key = k[2] if k[0] == "agg" else "?"
            recv = pa.root(f, c.args[0])
            by_key.setdefault(key, []).append((c, values_reaching(byv, c.b), recv))
    ec = by_key.get("ErrorCatch", [])
    ok = len(ec) == 1 and ec[0][1] == {"Error"} and ec[0][2][0] == "param" and ec[0][2][1] == 1
    cx.ob("C06.R3", "hooks:error->catch", ok, "the ErrorCatch hooks of a task run exactly when that task is in state Error (found %s)" % (
        [(sorted(v), root_str(r)) for _, v, r in ec]), ec[0][0].loc if ec else f.loc())
    others = sorted({k for k, lst in by_key.items() if k != "ErrorCatch" and any("Error" in v for _, v, _ in lst)})
    cx.ob("C06.R3", "hooks:error-only-catch", not others, "no other lifecycle hooks run for a task in state Error (found %s)" % (others or "none"), f.loc())
    # catch arm: flag test dominates the code match
    h = m.one("^" + re.escape(HOOK) + "$")
    revive = [c for c in h.calls() if c.q == T.Q_SET_STATE and pa.root(h, c.args[1])[0] == "agg" and pa.root(h, c.args[1])[2] == "Running"]
    if len(revive) != 1:
        raise Anchor("catch arm: expected one revival")
    flag_sw = None
    for g in guards_of(m, h, revive[0].b, mode="value"):
        if g.root[0] == "call" and g.root[1].endswith("Task::with_data") and g.truth is False and _closure_reads_const(m, h, Call(h, g.root[2]), "utils::consts::IS_CATCH_PROCESSED"):
            flag_sw = g.b
    match_calls = [c for c in h.calls() if re.search(r"Option::<T>::is_none$", c.q) or re.search(r"PartialEq.*::eq$", c.q)]
    in_catch = [c for c in match_calls if any(g.root[0] == "discr" and g.root[1][0] == "param" and discr_variants(m, g) == {"Catch"} for g in guards_of(m, h, c.b, mode="alias"))]
    ok = flag_sw is not None and bool(in_catch) and all(h.dominates(flag_sw, c.b) for c in in_catch)
    cx.ob("C06.R3", "catch:flag-before-match", ok, "the once-flag is tested before any catch compares codes (so after the first taken catch no other catch of that task acts)", revive[0].loc)
    cx.floor("C06.R3", 3)


def r4(cx):
    m = cx.m
    pa = Prov(m, "alias")
    pv = Prov(m, "value")
    h = m.one("^" + re.escape(HOOK) + "$")
    revive = [c for c in h.calls() if c.q == T.Q_SET_STATE and pa.root(h, c.args[1])[0] == "agg" and pa.root(h, c.args[1])[2] == "Running"][0]
    # the revival is reached exactly when (`on` is none) or (the error's code equals `on`) - in any spelling: `c.on.is_none()
    # || &err.ecode == c.on.as_ref().unwrap()`, a `match c.on { None => true, Some(on) => .. }`, `is_some_and`, ...
    from vlib.ctrl import reach_table, bool_truth

    def classify(r, neg, fn):
        if r[0] == "call" and re.search(r"Option::<T>::(is_none|is_some)$", r[1]) and _field_of(fn, pa, Call(fn, r[2]).args[0]) == "on":
            t = bool_truth(neg)
            if r[1].endswith("is_some"):
                t = {k: (not v) for k, v in t.items()}
            return ("on_none", t)
        if r[0] == "discr" and (r[2] or "").endswith("option::Option"):
            inner = r[1]
            fld = None
            if inner[0] in ("param", "call", "local", "field"):
                x = inner
                n = 0
                while x[0] == "call" and not x[3] and n < 4 and re.search(r"Option::<.*>::(as_ref|as_deref)$|Deref>::deref$", x[1]):
                    x = pa.root(fn, Call(fn, x[2]).args[0])
                    n += 1
                fld = _root_field(x)
            if fld == "on":
                return ("on_none", {"0": True, "1": False, "otherwise": False})
        if r[0] == "call" and re.search(r"PartialEq.*::(eq|ne)$", r[1]):
            flds = {_field_of(fn, pv, a) for a in Call(fn, r[2]).args}
            if flds == {"ecode", "on"}:
                t = bool_truth(neg)
                if r[1].endswith("::ne"):
                    t = {k: (not v) for k, v in t.items()}
                return ("code_eq", t)
        return None

    names, reach = reach_table(m, h, revive.b, classify)
    want = set()
    for on_none in (False, True):
        for code_eq in (False, True):
            if on_none or code_eq:
                want.add((("code_eq", code_eq), ("on_none", on_none)))
    ok_atoms = names == ["code_eq", "on_none"]
    cx.ob("C06.R4", "match:catch-all", "on_none" in names, "the catch hook tests whether the catch has an `on` at all (a catch without `on` takes every error)", revive.loc)
    cx.ob("C06.R4", "match:code", "code_eq" in names, "the error's `ecode` is compared with the catch's `on`", revive.loc, atoms=names)
    if ok_atoms:
        got = {tuple(sorted(x)) for x in reach}
        cx.ob("C06.R4", "match:polarity", got == want,
              "the catch acts exactly on (`on` is none) or (`on` equals the code); a non-matching catch does nothing%s" % (
                  "" if got == want else " - but the revival is reachable under %s" % sorted(str(dict(x)) for x in got)), revive.loc)
    # the catch steps scheduled are this catch's outputs
    sched = [c for c in h.calls() if c.q == T.Q_SCHED and any(g.root[0] == "discr" and g.root[1][0] == "param" and discr_variants(m, g) == {"Catch"} for g in guards_of(m, h, c.b, mode="alias"))]
    ok = False
    for c in sched:
        node = pa.root(h, c.args[1])
        src = pa.iter_source(h, ("call", node[1], node[2], ())) if node[0] == "call" else None
        if src is not None and src[0][0] == "call" and src[0][1].endswith("Node::children_in"):
            kc = Call(h, src[0][2])
            kind = pa.root(h, kc.args[1])
            on = pv.root(h, kc.args[2])
            ok = kind[0] == "agg" and kind[2] == "Catch" and (_root_field(on) == "on")
    from rules.common import children_in_selector
    children_in_selector(cx, "C06.R4", "catch")
    cx.ob("C06.R4", "catch:steps", ok and len(sched) == 1, "the steps started are the node's Catch outputs registered for this catch's `on`", sched[0].loc if sched else h.loc())
    cx.floor("C06.R4", 5)


def _root_field(r):
    """the last *named* field of a root's path (`(c.on as Some).0` is still `on`)"""
    if r[0] == "some":
        r = r[1]
    fs = ()
    if r[0] in ("param", "call", "local"):
        fs = r[3]
    elif r[0] == "upvar":
        fs = r[2]
    elif r[0] == "field":
        fs = r[2]
    fs = [x for x in fs if not (x.startswith("@") or x.isdigit() or x in ("*", "[]"))]
    return fs[-1] if fs else None


def _field_of(f, prov, op):
    r = prov.root(f, op)
    n = 0
    while r[0] == "call" and n < 5:
        c = Call(f, r[2])
        if re.search(r"Option::<.*>::(as_ref|unwrap|as_deref)$", r[1]) or (c.callee.get("decl") or "") in ("std::ops::Deref::deref",):
            r = prov.root(f, c.args[0])
            n += 1
            continue
        break
    return _root_field(r)


def _switch_of(f, c):
    sb = c.target
    n = 0
    while f.blocks[sb]["t"][0] == "goto" and n < 4:
        sb = f.blocks[sb]["t"][1]
        n += 1
    if f.blocks[sb]["t"][0] != "switch":
        raise Anchor("result of %s is not branched on" % short_name(c.q))
    return sb


def r5_registered_first(cx):
    """every error exit of <Act|Step as ActTask>::init lies behind the completed registration of the node's catches; the one
    exception is the evaluation of the node's own `if` condition (the node has not started: nothing of it is set up)"""
    from rules.c16 import natural_loops
    from vlib.model import ITER_NEXT
    from vlib.ts import Summaries, TRY_BRANCH
    m = cx.m
    pa = Prov(m, "alias")
    sm = cx.shared("summaries", lambda: Summaries(m))
    inits = [f for f in m.fns.values() if re.search(r"<impl (\S+::)?ActTask for .*>::init$", f.q) and f.crate == "acts"]
    n = 0
    for f in sorted(inits, key=lambda f: f.q):
        clos = [g for g in m.fns.values() if g.q.startswith(f.q + "::{closure")]
        reg_here = [c for c in f.calls() if c.q.endswith("Task::add_hook_catch")]
        reg_clos = [g for g in clos if any(c.q.endswith("Task::add_hook_catch") for c in g.calls())]
        if not reg_here and not reg_clos:
            continue
        n += 1
        done = set()       # blocks at whose entry the registration is complete (or there is nothing to register)
        loops = natural_loops(f)
        for c in reg_here:
            around = [(h, body) for h, body in loops if c.b in body]
            if not around:
                # a single registration outside any loop: complete right after the call
                if c.target is not None:
                    done.add(c.target)
                continue
            h, body = min(around, key=lambda x: len(x[1]))
            for b in body:
                for sx in f.succ(b):
                    if sx not in body and f.blocks[sx]["t"][0] != "unreachable":
                        # leaving the loop other than through the end of the iteration is not "complete"
                        t = f.blocks[b]["t"]
                        r = pa.root(f, t[1]) if t[0] == "switch" else None
                        if r is not None and r[0] == "discr" and r[1][0] == "call" and ITER_NEXT.search(r[1][1]):
                            done.add(sx)
        for c in f.calls():
            for a in c.args[1:]:
                r = pa.root(f, a)
                if r[0] == "closure" and any(r[1] == g.q for g in reg_clos) and re.search(r"Iterator(>)?::for_each(::<.*>)?$", c.q) and c.target is not None:
                    done.add(c.target)
        # `if !self.catches.is_empty() { register }`: the empty edge has nothing to register
        for bi, b in enumerate(f.blocks):
            t = b["t"]
            if t[0] != "switch":
                continue
            r = pa.root(f, t[1])
            neg = False
            while r[0] == "not":
                neg = not neg
                r = r[1]
            if r[0] == "call" and r[1].endswith("::is_empty"):
                who = pa.root(f, Call(f, r[2]).args[0])
                if who[0] == "param" and who[1] == 1 and [x for x in who[3] if x != "*"][-1:] == ["catches"]:
                    from vlib.model import bool_target
                    tb = bool_target(f, bi, not neg)   # the edge on which is_empty() is true
                    if tb is not None:
                        done.add(tb)
        before = f.reach_from([0], avoid=done)
        for b, kind in f.exit_defs():
            if kind == "OK":
                continue
            t = f.blocks[b]["t"]
            src = None
            if kind == "ERR_PROP":
                r = pa.root(f, t[2][0])
                if r[0] == "call" and TRY_BRANCH.search(r[1]):
                    r = pa.root(f, Call(f, r[2]).args[0])
                while r[0] == "call" and re.search(r"Result::<T, E>::(map_err|map|or_else|and_then)$|Option::<T>::ok_or(_else)?$", r[1]):
                    r = pa.root(f, Call(f, r[2]).args[0])
                src = r
            elif kind == "CALL":
                src = ("call", t[1].get("q") or "", b, ())
                if src[1] in m.fns and src[1] not in sm.may_fail():
                    continue
            what = short_name(src[1]) if (src and src[0] == "call") else ("a refusal raised in init" if kind == "ERR_NEW" else "an error")
            # the exception: the node's own `if` condition
            if src and src[0] == "call" and src[1].endswith("Context::eval") or (src and src[0] == "call" and re.search(r"Context::eval(::<.*>)?$", src[1])):
                cond_of_if = False
                for gd in guards_of(m, f, b, mode="alias"):
                    r = gd.root
                    if r[0] == "discr" and r[1][0] == "param" and r[1][1] == 1 and [x for x in r[1][3] if x != "*"][-1:] in (["if"], ["r#if"]) and discr_variants(m, gd) == {"Some"}:
                        cond_of_if = True
                if cond_of_if:
                    cx.ob("C06.R5", "%s:%s:if-condition" % (f.short, what), True, "the node's own `if` condition is evaluated before anything of the node is set up (a node whose condition cannot be evaluated has not started)", f.loc(b))
                    continue
            ok = b not in before
            cx.ob("C06.R5", "%s:registered-before:%s" % (f.short, what), ok,
                  "`%s` can fail with %s only after the node's catches are registered%s" % (
                      f.short, what, "" if ok else " - but this exit is reachable before the registration loop has run: the error by-passes the node's own catch, climbs to the step / workflow and ends the process in error"), f.loc(b))
    cx.floor("C06.R5", 4)
    if n < 2:
        cx.undecide("C06.R5", "expected the init of Act and Step to register catches, found %d" % n)
