"""C17 Retention: finished processes leave exactly what the configuration says.

R1 the removal sits on the terminal edge of on_proc and on the !keep_processes edge; R2 remove_proc
deletes exactly the task rows of that pid and then the process row, and touches neither messages
nor events; deleting a model deletes exactly the events registered for its id; R3 actions on a
removed process are refused (load_proc maps a missing row to None; C05.R1 unknown-process)."""
import re

from vlib.model import Anchor, Call, Prov, guards_of, discr_variants, root_str, short_name
from vlib.valreach import blocks_by_value, values_reaching
from vlib.enumfn import TASK_STATE
from vlib import ts as T
from rules.c02 import engine
from rules.c01 import gdesc
from rules.c09 import query_shape

STORE = "acts::cache::store::<impl acts::store::store::Store>::"


def run(cx):
    cx.rule("C17.R1", "K1", "a finished process is removed from cache and store exactly when keep_processes is off, on the terminal edge of its process event")
    cx.rule("C17.R2", "E3", "remove_proc deletes the task rows selected by pid == <pid> and then the process row, nothing else; removing a model deletes the events selected by mid == <id>")
    cx.rule("C17.R3", "K1", "a process that is neither cached nor stored is reported as missing (actions on it are refused)")
    m = cx.m
    pa = Prov(m, "alias")
    pv = Prov(m, "value")
    eng, tables = engine(cx)
    h = m.fns[eng.sm.handlers["proc"][0]]
    byv = blocks_by_value(m, tables, h, r"process::Process::state$", TASK_STATE)
    rm = [c for c in h.calls() if c.q.endswith("Cache::remove")]
    if len(rm) != 1:
        raise Anchor("on_proc: expected one Cache::remove")
    c = rm[0]
    got = values_reaching(byv, c.b)
    cx.ob("C17.R1", "remove:terminal", got == set(T.STATES) - {"Running", "Pending"}, "the removal is reached exactly when the process state is neither running nor pending (found %s)" % sorted(got), c.loc)
    gs = [g for g in guards_of(m, h, c.b, mode="alias") if not g.neutral]
    keep = [g for g in gs if g.root[0] == "call" and g.root[1].endswith("Config::keep_processes")]
    cx.ob("C17.R1", "remove:keep-off", len(keep) == 1 and keep[0].truth is False, "the removal is on the `!keep_processes()` edge (guards %s)" % [gdesc(m, g) for g in gs], c.loc)
    others = [gdesc(m, g) for g in gs if g not in keep and not (g.root[0] == "call" and T.STATE_PRED.match(g.root[1])) and not re.search(r"Process::root", gdesc(m, g))]
    cx.ob("C17.R1", "remove:nothing-else", not others, "no other condition decides the removal (found %s)" % (others or "none"), c.loc)
    pid = pa.root(h, c.args[1])
    cx.ob("C17.R1", "remove:this-process", pid[0] == "call" and pid[1].endswith("Process::id"), "the process removed is the one the event is about (`proc.id()`)", c.loc)
    # Cache::remove -> procs.remove(pid) + store.remove_proc(pid)
    cr = m.one(r"^acts::cache::cache::Cache::remove$")
    rp = [x for x in cr.calls() if x.q == STORE + "remove_proc"]
    mk = [x for x in cr.calls() if re.search(r"moka::sync::Cache::<.*>::(remove|invalidate)$", x.q)]
    same = bool(rp) and bool(mk) and pa.root(cr, rp[0].args[1]) == ("param", 2, cr.names.get(2), ()) and pv.root(cr, mk[0].args[1])[:2] == ("param", 2)
    cx.ob("C17.R1", "remove:cache-and-store", same, "Cache::remove drops the cache entry and the stored rows of the same pid", cr.loc())
    cx.floor("C17.R1", 5)

    # ---- R2 -------------------------------------------------------------------------------------
    f = m.one("^" + re.escape(STORE) + r"remove_proc$")
    conds, exprs = query_shape(m, f)
    okq = conds == ["and"] and len(exprs) == 1 and exprs[0][0] == "eq" and exprs[0][1] == "pid" and _is_param(pv, f, exprs[0][2], "pid")
    cx.ob("C17.R2", "remove_proc:query", okq, "the task rows to delete are selected by pid == <the pid argument> and nothing else (found %s)" % [(e[0], e[1], root_str(e[2])) for e in exprs], f.loc())
    colls = {}
    for x in f.calls():
        if re.search(r"Store::(tasks|procs|messages|events|models|packages)$", x.q):
            colls[x.b] = x.q.split("::")[-1]
    dels = [x for x in f.calls() if x.kind == "virtual" and x.q.endswith("DbCollection::delete")]
    targets = []
    for x in dels:
        recv = pa.root(f, x.args[0])
        coll = colls.get(recv[2]) if recv[0] == "call" else None
        arg = pa.root(f, x.args[1])
        targets.append((coll, arg))
    task_del = [t for t in targets if t[0] == "tasks"]
    proc_del = [t for t in targets if t[0] == "procs"]
    ok_t = len(task_del) == 1 and task_del[0][1][0] == "call" and task_del[0][1][3][-1:] == ("id",)
    ok_p = len(proc_del) == 1 and proc_del[0][1][0] == "param" and proc_del[0][1][2] == "pid"
    cx.ob("C17.R2", "remove_proc:tasks", ok_t, "exactly the ids of the rows returned by that query are deleted from the task collection", f.loc())
    cx.ob("C17.R2", "remove_proc:proc", ok_p, "then the process row with the given pid is deleted", f.loc())
    # the selection reaches every row of the process: one unbounded query, or - if it is paged - pages that never
    # advance an offset (deleting the rows of a page shifts the survivors down: an advancing offset skips them)
    lim = [x for x in f.calls() if x.q.endswith("Query::set_limit")]
    off = [x for x in f.calls() if x.q.endswith("Query::set_offset")]
    adv = [x for x in off if not (pv.root(f, x.args[1])[0] == "const" and pv.root(f, x.args[1])[1].get("int") == "0")]
    qs = [x for x in f.calls() if x.kind == "virtual" and x.q.endswith("DbCollection::query")]
    from rules.c16 import natural_loops
    in_loop = any(x.b in body for x in qs for _, body in natural_loops(f))
    ok_all = (not lim and not off and not in_loop) or (lim and in_loop and not adv)
    cx.ob("C17.R2", "remove_proc:every-row", bool(ok_all),
          "remove_proc reaches every task row of the process: one query without limit / offset%s" % (
              "" if ok_all else " - but it pages the deletion%s" % (" with an offset that advances (line %s) over rows that have just been deleted: the survivors that moved into the freed positions are skipped and stay in the store" % adv[0].line if adv else " in a way the rule does not know")), (adv or lim or qs or [None])[0].loc if (adv or lim or qs) else f.loc())
    touched = sorted(set(colls.values()))
    cx.ob("C17.R2", "remove_proc:collections", touched == ["procs", "tasks"], "remove_proc touches only the task and process collections (found %s): message and event records stay" % touched, f.loc())
    # model removal
    g = m.one(r"^acts::export::executor::model_executor::ModelExecutor::rm$")
    conds, exprs = query_shape(m, g)
    keyname = None
    for x in g.calls():
        if x.q.endswith("Expr::eq"):
            k = pv.root(g, x.args[0])
            keyname = (k[1].get("named") or "").split("::")[-1] or k[1].get("str")
    okq = conds == ["and"] and len(exprs) == 1 and exprs[0][0] == "eq" and (exprs[0][1] == "mid") and _is_param(pv, g, exprs[0][2], "id")
    cx.ob("C17.R2", "model_rm:query", okq, "the events to delete are selected by mid == <the model id argument> (key %s=%r)" % (keyname, exprs[0][1] if exprs else None), g.loc())
    colls = {}
    for x in g.calls():
        if re.search(r"Store::(tasks|procs|messages|events|models|packages)$", x.q):
            colls[x.b] = x.q.split("::")[-1]
    dels = [x for x in g.calls() if x.kind == "virtual" and x.q.endswith("DbCollection::delete")]
    tg = []
    for x in dels:
        recv = pa.root(g, x.args[0])
        tg.append((colls.get(recv[2]) if recv[0] == "call" else None, pa.root(g, x.args[1])))
    ev_del = [t for t in tg if t[0] == "events"]
    md_del = [t for t in tg if t[0] == "models"]
    cx.ob("C17.R2", "model_rm:events", len(ev_del) == 1 and ev_del[0][1][0] == "call" and ev_del[0][1][3][-1:] == ("id",), "exactly the returned event rows are deleted", g.loc())
    cx.ob("C17.R2", "model_rm:model", len(md_del) == 1 and md_del[0][1][0] == "param" and md_del[0][1][2] == "id", "then the model with the given id", g.loc())
    cx.ob("C17.R2", "model_rm:collections", sorted(set(colls.values())) == ["events", "models"], "removing a model touches only events and models (found %s)" % sorted(set(colls.values())), g.loc())
    cx.floor("C17.R2", 9)

    # ---- R3 -------------------------------------------------------------------------------------
    lp = m.one("^" + re.escape(STORE) + r"load_proc$")
    fc = [x for x in lp.calls() if x.kind == "virtual" and x.q.endswith("DbCollection::find")]
    ok = False
    if len(fc) == 1:
        # on the Err edge of find the function returns Ok(None)
        for bi, b in enumerate(lp.blocks):
            for s in b["s"]:
                if s[0] == "A" and s[1][0] == 0 and s[2][0] == "agg" and s[2][2] == "Ok":
                    r = pa.root(lp, s[2][4][0])
                    if r[0] == "agg" and r[2] == "None":
                        gs = guards_of(m, lp, bi, mode="alias")
                        ok = any(g.root[0] == "discr" and g.root[1] == ("call", fc[0].q, fc[0].b, ()) and discr_variants(m, g) == {"Err"} for g in gs)
    cx.ob("C17.R3", "load_proc:missing->None", ok, "a process row that cannot be found loads as None", fc[0].loc if fc else lp.loc())
    cp = m.one(r"^acts::cache::cache::Cache::proc$")
    # the memory lookup is `get_proc(pid)` or, written out, `self.procs.get(pid)` on the moka cache field
    calls = []
    for x in cp.calls():
        if x.q.endswith("Cache::get_proc"):
            calls.append("get_proc")
        elif re.search(r"moka::sync::Cache::<.*>::get(::<.*>)?$|moka::sync::cache::Cache::<.*>::get(::<.*>)?$", x.q) and x.args:
            r_ = pa.root(cp, x.args[0])
            if r_[0] == "param" and r_[1] == 1 and [y for y in r_[3] if y != "*"][-1:] == ["procs"]:
                calls.append("get_proc")
        elif x.q.endswith("::load_proc"):
            calls.append("load_proc")
    cx.ob("C17.R3", "cache:lookup", calls[:2] == ["get_proc", "load_proc"], "Cache::proc looks in the cache and then in the store only (found %s)" % calls, cp.loc())
    rd = m.one(r"^acts::scheduler::runtime::Runtime::do_action$")
    pc = [x for x in rd.calls() if x.q.endswith("Process::do_action")]
    some = False
    for gd in guards_of(m, rd, pc[0].b, mode="alias") if pc else []:
        if gd.root[0] == "discr" and gd.root[1][0] == "call" and gd.root[1][1].endswith("Cache::proc"):
            some = discr_variants(m, gd) == {"Some"}
    cx.ob("C17.R3", "action:refused", some and any(k == "ERR_NEW" for _, k in rd.exit_defs()), "an action on a missing process is refused with an error", rd.loc())
    cx.floor("C17.R3", 3)
    cx.rule("C17.R4", "K1", "no row of a removed process is written again: task rows only behind a successful lookup of the process row, process rows only by the launch")
    r4_no_late_rows(cx)


def on_ok_of(m, f, pa, blk, pred):
    """is `blk` reached only through the Ok/Continue edge of a call satisfying pred(Call)?"""
    for g in guards_of(m, f, blk, mode="alias"):
        r = g.root
        if r[0] != "discr" or r[1][0] != "call":
            continue
        inner = r[1]
        c = Call(f, inner[2])
        vs = discr_variants(m, g)
        if T.TRY_BRANCH.search(inner[1]) and vs == {"Continue"} and c.args:
            src = pa.root(f, c.args[0])
            if src[0] == "call" and pred(Call(f, src[2])):
                return True
        elif vs == {"Ok"} and pred(c):
            return True
    return False


def r4_no_late_rows(cx):
    """a row of a removed process cannot come back: task rows are written only behind a successful lookup of the
    owning process row, process rows are created only by the launch"""
    m = cx.m
    pa = Prov(m, "alias")

    def coll_of(f, c):
        r = pa.root(f, c.args[0])
        n = 0
        while r[0] == "call" and n < 4:
            mm = re.search(r"Store::(tasks|procs|messages|events|models|packages)$", r[1])
            if mm:
                return mm.group(1)
            cc = Call(f, r[2])
            if not cc.args:
                return None
            r = pa.root(f, cc.args[0])
            n += 1
        return None

    creators = {"tasks": [], "procs": []}
    for f in m.fns.values():
        if not f.q.startswith("acts::"):
            continue
        for c in f.calls():
            if c.kind == "virtual" and c.q.endswith("DbCollection::create"):
                k = coll_of(f, c)
                if k in creators:
                    creators[k].append((f, c))
    tq = sorted({f.q for f, _ in creators["tasks"]})
    pq = sorted({f.q for f, _ in creators["procs"]})
    cx.ob("C17.R4", "proc-rows:one-creator", pq == [STORE + "upsert_proc"], "process rows are created in one place, Store::upsert_proc (found %s)" % [short_name(q) for q in pq], creators["procs"][0][1].loc if creators["procs"] else None)
    if not creators["tasks"]:
        raise Anchor("no creation of task rows found")

    def is_find_in(f):
        def is_find(x):
            if not (x.kind == "virtual" and x.q.endswith("DbCollection::find") and coll_of(f, x) == "procs"):
                return False
            k = pa.root(f, x.args[1])
            while k[0] == "call" and (Call(f, k[2]).callee.get("decl") or "") == "std::ops::Deref::deref" and not k[3]:
                k = pa.root(f, Call(f, k[2]).args[0])
            # the key is the pid of the task being written
            return tuple(y for y in (k[3] if k[0] in ("param", "call", "local") else ()) if y != "*")[-1:] == ("pid",) or (k[0] == "param" and k[2] == "pid")
        return is_find

    def guarded(f, c, depth=0, trail=()):
        """every way to reach call c of f passes the Ok edge of `procs().find(<pid>)`; returns the unguarded entry or None"""
        if on_ok_of(m, f, pa, c.b, is_find_in(f)):
            return None
        if depth >= 4:
            return trail + (short_name(f.q),)
        sites = [(f2, c2) for f2 in m.fns.values() for c2 in f2.calls() if c2.q == f.q]
        if not sites:
            return trail + (short_name(f.q),)
        for f2, c2 in sites:
            r = guarded(f2, c2, depth + 1, trail + (short_name(f.q),))
            if r is not None:
                return r
        return None

    for f, c in creators["tasks"]:
        bad = guarded(f, c)
        cx.ob("C17.R4", "task-row:%s:behind-proc-row" % short_name(f.q), bad is None,
              "the task row created in `%s` is reached only after `procs().find(<pid of the task>)` succeeded: once the process is removed a late task event cannot bring a row back%s" % (short_name(f.q), "" if bad is None else " - unguarded through " + " <- ".join(bad)), c.loc)
    # process rows: upsert_proc <- push_proc_pri <- push_proc <- Process::start only
    pv = Prov(m, "value")
    chain = [STORE + "upsert_proc"]
    seen = set(chain)
    tops = set()
    while chain:
        q = chain.pop()
        for f in m.fns.values():
            for c in f.calls():
                if c.q != q:
                    continue
                # the call may sit behind a `save` flag of the caller: then only callers passing true count
                flag = None
                for g in guards_of(m, f, c.b, mode="value"):
                    if g.root[0] == "param" and not g.root[3] and g.truth is True:
                        flag = g.root[1]
                if not f.q.startswith("acts::cache::"):
                    tops.add(f.q)
                    continue
                if flag is None:
                    if f.q not in seen:
                        seen.add(f.q)
                        chain.append(f.q)
                    continue
                for f2 in m.fns.values():
                    for c2 in f2.calls():
                        if c2.q != f.q:
                            continue
                        a = pv.root(f2, c2.args[flag - 1])
                        if a[0] == "const" and a[1].get("int") == "0":
                            continue
                        if f2.q.startswith("acts::cache::"):
                            if f2.q not in seen:
                                seen.add(f2.q)
                                chain.append(f2.q)
                        else:
                            tops.add(f2.q)
    cx.ob("C17.R4", "proc-row:launch-only", {short_name(t) for t in tops} == {"Process::start"}, "a process row is written only by the launch (`Process::start` -> Cache::push_proc): nothing re-creates the row of a finished process (entry points found: %s)" % sorted(short_name(t) for t in tops), None)
    cx.floor("C17.R4", 3)


def _is_param(pv, f, r, name):
    n = 0
    while r[0] == "call" and n < 4:
        c = Call(f, r[2])
        if c.args and (c.callee.get("decl") or "") in ("std::string::ToString::to_string", "std::clone::Clone::clone", "std::convert::Into::into", "std::borrow::ToOwned::to_owned"):
            r = pv.root(f, c.args[0])
            n += 1
            continue
        break
    return r[0] == "param" and r[2] == name
