"""C04 Control flow conforms to the YAML: order, branch selection, skips.

The whole property needs an executable reference semantics over generated programs and is NOT
decided. Decided structural necessary conditions: R1 tree builder coverage and link discipline
(every declared container is built; shared with C20.R2); R2 successor gating: a step / act
schedules its `next` only when it is skipped / successful or under the all-children-terminal fact;
R3 the decision table of Branch::init over (needs, if, else, sibling count) -> Pending / Skipped /
stays Ready, compared with the table implied by the statement; R4 children are scheduled only by
a task that is Running (steps and acts start after their parent started)."""
import re

from vlib.model import Anchor, Call, Prov, guards_of, discr_variants, bool_target, root_str, short_name
from vlib import ts as T
from rules.c02 import engine, TASK
from rules import c20, c03
from rules.c01 import gdesc


def run(cx):
    cx.rule("C04.R1", "K12", "every declared steps / branches / acts / catch and timeout steps container is built into the tree by an unconditional loop; acts of a step are linked as a sequence")
    cx.rule("C04.R2", "K1", "the successor (`node.next`) of a step / act is scheduled only when the task is skipped or successful, or under the all-children-terminal fact")
    cx.rule("C04.R3", "table", "Branch::init decision table: needs -> Pending; if false -> Skipped; if true -> Ready; no if & not else -> Skipped; else with siblings -> Pending; lone else -> Ready")
    cx.rule("C04.R4", "K1", "child nodes are scheduled only by a task that is Running")
    c20.r2(cx, "C04.R1")
    r1_links(cx)
    r2(cx)
    r3(cx)
    r4(cx)
    cx.rule("C04.R5", "table", "Task::is_ready: a needs-branch waits for a terminal needed sibling; an else branch runs iff all siblings are Skipped and gives up iff one of them ran")
    r5_is_ready(cx)
    cx.rule("C04.R6", "TS", "the decision taken inside is_ready (the else branch gives up) is emitted before exec returns: the parent step is reviewed whatever the order in which its branches were initialised")
    from rules import c01
    c01.r6(cx, "C04.R6", only=r"Task::is_ready$", floor=1)
    cx.rule("C04.R7", "E3", "Task::parent is the nearest task on the prev chain whose node level is lower than the level of THE TASK ITSELF (one fixed reference level for the whole walk): a step re-created by a backward jump from a deeper step must not adopt a task of the abandoned turn as its parent")
    r7_parent(cx)


def r2(cx):
    m = cx.m
    pa = Prov(m, "alias")
    _, tables = engine(cx)
    n = 0
    for f in sorted(m.fns.values(), key=lambda f: f.q):
        if not re.search(r"impl acts::scheduler::ActTask for acts::model::(step::Step|act::Act)>::(next|review)$", f.q):
            continue
        for c in f.calls():
            if c.q != T.Q_SCHED:
                continue
            node = pa.root(f, c.args[1])
            is_next = _is_next_node(f, pa, node)
            if not is_next:
                continue
            n += 1
            gs = [g for g in guards_of(m, f, c.b, mode="alias") if not g.neutral]
            from vlib.valreach import blocks_by_value, values_reaching
            from vlib.enumfn import TASK_STATE
            byv = blocks_by_value(m, tables, f, r"process::task::Task::state$", TASK_STATE,
                                  recv_ok=lambda r: r[0] == "call" and r[1] == T.Q_CTX_TASK)
            pre = values_reaching(byv, c.b)
            count_fact = False
            for g in gs:
                r = g.root
                if r[0] == "bin" and r[1] == "Eq" and g.truth is True:
                    for cnt, ln in ((r[2], r[3]), (r[3], r[2])):
                        if cnt[0] == "local" and ln[0] == "call" and ln[1].endswith("::len"):
                            vec = pa.root(f, Call(f, ln[2]).args[0])
                            if vec[0] == "call" and vec[1].endswith("Task::children"):
                                okc, _ = c03._count_idiom(m, pa, f, cnt[1], vec)
                                count_fact = count_fact or okc
            ok = (pre <= {"Skipped", "Completed"}) or (pre == {"Running"} and count_fact)
            same = sorted(x.b for x in f.calls() if x.q == T.Q_SCHED and _is_next_node(f, pa, pa.root(f, x.args[1])))
            key = "%s:next#%d" % (f.short, same.index(c.b) + 1)
            cx.ob("C04.R2", key, ok,
                  "`%s` schedules the successor only when its task is in %s%s" % (f.short, sorted(pre), " and every child is terminal (count == children().len())" if count_fact else ""),
                  c.loc, guards=[gdesc(m, g) for g in gs])
    cx.floor("C04.R2", 7)


def _is_next_node(f, pa, r, depth=0):
    if r[0] == "call":
        if r[1].endswith("Node::next") or re.search(r"Weak::<.*>::upgrade$", r[1]):
            return True
        c = Call(f, r[2])
        if depth < 4 and c.args and (c.callee.get("decl") or "") in ("std::ops::Deref::deref", "std::clone::Clone::clone"):
            return _is_next_node(f, pa, pa.root(f, c.args[0]), depth + 1)
    if r[0] == "local" and depth < 4:
        for d in f.defs().get(r[1], []):
            if d[2] == "call" and re.search(r"Weak::<.*>::upgrade$|Node::next$", d[3][1].get("q") or ""):
                return True
            if d[2] == "assign" and d[3][0] in ("use",) and d[3][1][0] != "k" and _is_next_node(f, pa, pa.root(f, d[3][1]), depth + 1):
                return True
            if d[2] == "assign" and d[3][0] == "ref" and _is_next_node(f, pa, pa.root_place(f, d[3][1][0], d[3][1][1]), depth + 1):
                return True
    return False


def r3(cx):
    """path enumeration of Branch::init over its literals: at every decision the condition is
    classified (needs.is_empty / if is Some / eval result / else / branch_count > 1) and each path
    ends in the constant state it wrote (or none)"""
    m = cx.m
    pa = Prov(m, "alias")
    pv = Prov(m, "value")
    f = m.one(r"branch::<impl acts::scheduler::ActTask for acts::model::branch::Branch>::init$")

    def classify_switch(b):
        t = f.blocks[b]["t"]
        r = pv.root(f, t[1])
        neg = False
        while r[0] == "not":
            neg = not neg
            r = r[1]
        if r[0] == "call" and r[1].endswith("::is_empty"):
            who = pa.root(f, Call(f, r[2]).args[0])
            if who[0] == "param" and who[1] == 1 and who[3][-1:] == ("needs",):
                return ("needs_empty", neg, "bool")
        if r[0] == "discr" and r[1][0] == "param" and r[1][1] == 1 and r[1][3][-1:] == ("if",):
            return ("if", False, "option")
        if r[0] == "param" and r[1] == 1 and r[3][-1:] == ("else",):
            return ("else", neg, "bool")
        if r[0] == "bin" and r[1] in ("Gt", "Lt", "Ge", "Le", "Ne", "Eq"):
            return ("branch_count %s %s" % (r[1], root_str(r[3])), neg, "bool")
        if r[0] == "discr" and r[1][0] == "call" and T.TRY_BRANCH.search(r[1][1]):
            return ("try", False, "try")
        if r[0] in ("call", "field") and _from_eval(f, pv, r):
            return ("if_value", neg, "bool")
        if r[0] == "discr" and r[1][0] == "call" and r[1][1].endswith("Node::parent"):
            return ("has_parent", False, "option")
        if r[0] == "const" or (r[0] == "discr" and r[1][0] in ("const", "field") and "tracing" in root_str(r)) or "tracing" in root_str(r):
            return ("const", False, "const")
        if r[0] == "local" and r[2] in ("enabled", "interest"):
            return ("neutral", False, "neutral")  # tracing macro temporaries
        if r[0] == "call" and "tracing" in r[1] or (r[0] == "call" and Call(f, r[2]).exp):
            return ("neutral", False, "neutral")
        if r[0] == "discr" and r[1][0] == "call" and "tracing" in r[1][1]:
            return ("neutral", False, "neutral")
        return ("?" + root_str(r), neg, "unknown")

    results = {}
    unknown = set()
    stack = [(0, (), None, frozenset())]
    seen = set()
    steps = 0
    while stack:
        b, conds, written, visited = stack.pop()
        steps += 1
        if steps > 20000:
            raise Anchor("Branch::init path enumeration did not terminate")
        if (b, conds, written) in seen:
            continue
        seen.add((b, conds, written))
        t = f.blocks[b]["t"]
        if t[0] == "call" and t[1].get("q") == T.Q_SET_STATE:
            r = pa.root(f, t[2][1])
            written = r[2] if r[0] == "agg" else "?"
        if t[0] == "ret":
            kinds = [k for bb, k in f.exit_defs()]
            results.setdefault(conds, set()).add(written)
            continue
        if t[0] == "switch":
            name, neg, kind = classify_switch(b)
            if kind in ("neutral", "const"):
                # follow every edge without recording
                for s in f.succ(b):
                    stack.append((s, conds, written, visited))
                continue
            if kind == "try":
                # the error edge leaves the table
                for v, tb in t[2]:
                    if v == "0":
                        stack.append((tb, conds, written, visited))
                continue
            if kind == "unknown":
                unknown.add(name)
                for s in f.succ(b):
                    stack.append((s, conds, written, visited))
                continue
            if kind == "bool":
                for val in (True, False):
                    tb = bool_target(f, b, (not val) if neg else val)
                    stack.append((tb, conds + ((name, val),), written, visited))
                continue
            if kind == "option":
                for v, tb in t[2] + [["otherwise", t[3]]]:
                    tt = f.blocks[tb]["t"]
                    if tt[0] == "unreachable":
                        continue
                    val = "Some" if v == "1" else ("None" if v == "0" else "other")
                    stack.append((tb, conds + ((name, val),), written, visited))
                continue
        for s in f.succ(b):
            if (s, b) not in visited:
                stack.append((s, conds, written, visited | {(s, b)}))
    if unknown:
        cx.undecide("C04.R3", "Branch::init branches on conditions the rule does not know: %s" % sorted(unknown))
        return

    def outcome(**want):
        outs = set()
        for conds, ws in results.items():
            d = dict(conds)
            if all(d.get(k) == v for k, v in want.items() if v is not None):
                # conditions not mentioned must not contradict
                outs |= ws
        return outs

    bc = [k for conds in results for k, _ in conds if k.startswith("branch_count")]
    bcname = bc[0] if bc else None
    rows = [
        ("needs declared", {"needs_empty": False}, {"Pending"}),
        ("no needs, `if` evaluates false", {"needs_empty": True, "if": "Some", "if_value": False}, {"Skipped"}),
        ("no needs, `if` evaluates true", {"needs_empty": True, "if": "Some", "if_value": True}, {None}),
        ("no needs, no `if`, not else", {"needs_empty": True, "if": "None", "else": False}, {"Skipped"}),
    ]
    if bcname and bcname.startswith("branch_count Gt") and bcname.endswith("'1'"):
        rows.append(("else branch with siblings", {"needs_empty": True, "if": "None", "else": True, bcname: True}, {"Pending"}))
        rows.append(("else branch alone", {"needs_empty": True, "if": "None", "else": True, bcname: False}, {None}))
    else:
        cx.ob("C04.R3", "table:sibling-test", False, "the else branch tests `branch_count > 1` (found %s)" % bcname, f.loc())
    for label, want, exp in rows:
        got = outcome(**want)
        cx.ob("C04.R3", "table:%s" % label, got == exp,
              "%s -> %s (found %s)" % (label, sorted(str(x) for x in exp), sorted(str(x) for x in got)), f.loc())
    cx.floor("C04.R3", 6)


def _from_eval(f, pv, r, depth=0):
    if depth > 5:
        return False
    if r[0] == "field":
        return _from_eval(f, pv, r[1], depth + 1)
    if r[0] == "call":
        if r[1].endswith("Context::eval"):
            return True
        c = Call(f, r[2])
        return bool(c.args) and _from_eval(f, pv, pv.root(f, c.args[0]), depth + 1)
    if r[0] == "local":
        return any(d[2] == "assign" and d[3][0] == "use" and d[3][1][0] != "k" and _from_eval(f, pv, pv.root(f, d[3][1]), depth + 1) for d in f.defs().get(r[1], []))
    return False


def r4(cx):
    m = cx.m
    pa = Prov(m, "alias")
    eng, tables = engine(cx)

    class Mon(T.Monitor):
        init = 0

        def __init__(self):
            self.bad = {}
            self.seen = set()

        def on_event(self, mon, ev):
            return mon
    exec_fn = m.one(r"^%s::exec$" % TASK)
    sites = {}

    class SchedState(T.Monitor):
        init = 0

        def on_event(self, mon, ev):
            if ev[0] == "SCHED" and len(ev) > 3 and ev[3] == "child":
                # the tracked state at that moment is in the engine's configuration: reported via EFFECT-like payload
                return ("VIOLSTATE", ev[1], ev[2])
            return mon
    # use a monitor that records the tracked state when children are scheduled
    found = {}

    class Rec(T.Monitor):
        init = 0

        def on_event(self, mon, ev):
            return mon
    # the TS engine does not pass the state with SCHED: derive it from the last WRITE/entry on the path
    class Track(T.Monitor):
        init = None

        def on_event(self, mon, ev):
            if ev[0] == "WRITE":
                return ev[2]
            if ev[0] == "HAVOC":
                return "?"
            if ev[0] == "SCHED" and len(ev) > 3 and ev[3] == "child":
                found.setdefault((ev[1], ev[2]), set()).add(mon)
            return mon
    for s0 in T.STATES:
        mon = Track()
        mon.init = s0
        eng.run(exec_fn, s0, mon)
    for (q, b), states in sorted(found.items()):
        f = m.fns[q]
        if q.endswith("hook::StatementBatch::run"):
            continue  # catch / timeout steps: C06.R4 / C19
        ok = states <= {"Running"}
        cx.ob("C04.R4", "children:%s" % f.short, ok, "`%s` schedules child nodes only while its task is Running (states seen: %s)" % (f.short, sorted(str(s) for s in states)), f.loc(b))
    cx.floor("C04.R4", 4)


# ------------------------------------------------------------------------------------------------
def closure_state_outcomes(m, tables, g):
    """for a closure `|t| <predicate over t.state()>`: {state: 'T' | 'F' | 'M'} - whether it returns true,
    false, or something that depends on other data, when the state read inside has that value"""
    from vlib.valreach import blocks_by_value
    from vlib.enumfn import TASK_STATE
    byv = blocks_by_value(m, tables, g, r"process::task::Task::state$", TASK_STATE)
    trues = [bi for bi, b in enumerate(g.blocks) for s in b["s"] if s[0] == "A" and s[1][0] == 0 and not s[1][1] and s[2][0] == "use" and s[2][1][0] == "k" and s[2][1][1].get("int") == "1"]
    falses = [bi for bi, b in enumerate(g.blocks) for s in b["s"] if s[0] == "A" and s[1][0] == 0 and not s[1][1] and s[2][0] == "use" and s[2][1][0] == "k" and s[2][1][1].get("int") == "0"]
    calls = [bi for bi, b in enumerate(g.blocks) if b["t"][0] == "call" and b["t"][3][0] == 0 and not b["t"][3][1]]
    out = {}
    for v, blocks in byv.items():
        t = any(b in blocks for b in trues)
        f = any(b in blocks for b in falses)
        res = None
        for b in calls:
            if b in blocks:
                q = g.blocks[b]["t"][1].get("q") or ""
                mm = T.STATE_PRED.match(q)
                if mm:
                    val = tables[mm.group(1)][v]
                    t = t or val
                    f = f or (not val)
                else:
                    res = "M"
        out[v] = res or ("M" if (t and f) else ("T" if t else "F"))
    return out


def r5_is_ready(cx):
    m = cx.m
    pa = Prov(m, "alias")
    _, tables = engine(cx)
    f = m.one(r"^%s::is_ready$" % TASK)
    clos = {g.q: g for g in m.fns.values() if g.q.startswith(f.q + "::{closure")}

    def closure_arg(c):
        for a in c.args[1:]:
            r = pa.root(f, a)
            if r[0] == "closure" and r[1] in clos:
                return clos[r[1]]
        return None

    def over_siblings(c):
        r = pa.root(f, c.args[0])
        n = 0
        while r[0] == "call" and n < 6:
            if r[1].endswith("Task::siblings"):
                return True
            cc = Call(f, r[2])
            if not cc.args:
                return False
            r = pa.root(f, cc.args[0])
            n += 1
        return False

    from vlib.quant import quantifiers
    qs = [q for q in quantifiers(m, f) if q.closure is not None and q.closure.q in clos and over_siblings(q.source)]
    # ---- needs: ready iff SOME sibling is terminal and listed in `needs` (any spelling of "some") -----------
    ok = False
    detail = {}
    cand = []
    for q in qs:
        if q.kind not in ("exists", "none"):
            continue
        if not any(c.q.endswith("::contains") for c in q.closure.calls()):
            continue
        cand.append(q)
    if len(cand) == 1:
        q = cand[0]
        oc = closure_state_outcomes(m, tables, q.closure)
        detail = {"closure": {k: v for k, v in oc.items()}, "spelling": q.kind}
        needs_ok = all(oc[s] == "F" for s in T.STATES if s not in T.TERMINAL) and all(oc[s] in ("M", "T") for s in T.TERMINAL)
        ret = q.is_returned(f)
        ok = needs_ok and ret == (1 if q.kind == "exists" else -1)
    cx.ob("C04.R5", "is_ready:needs", ok, "a needs-branch is ready iff at least one sibling that is terminal and listed in `needs` exists", f.loc(), **detail)
    # ---- else ------------------------------------------------------------------------------------------
    true_rets = [bi for bi, b in enumerate(f.blocks) for s in b["s"] if s[0] == "A" and s[1][0] == 0 and not s[1][1] and s[2][0] == "use" and s[2][1][0] == "k" and s[2][1][1].get("int") == "1"]
    rest = [q for q in qs if q not in cand]
    skips = [c for c in f.calls() if c.q == T.Q_SET_STATE and pa.root(f, c.args[1])[0] == "agg" and pa.root(f, c.args[1])[2] == "Skipped"]
    ok_all = False
    ok_any = False
    all_loc = any_loc = f.loc()
    for q in rest:
        oc = closure_state_outcomes(m, tables, q.closure)
        tset = {s for s, v in oc.items() if v == "T"}
        pure = all(v in ("T", "F") for v in oc.values())
        if q.kind == "forall" and tset == {"Skipped"} and pure:
            all_loc = q.source.loc
            # ready (true) exactly under "all siblings skipped"
            if any(q.holds_at(f, tb) is True for tb in true_rets) or q.is_returned(f) == 1:
                ok_all = True
        if q.kind in ("exists", "none") and tset and tset <= (T.TERMINAL - {"Skipped"}) and tset >= {"Completed", "Error", "Aborted"} and pure:
            any_loc = q.source.loc
            if len(skips) == 1 and q.holds_at(f, skips[0].b) is (q.kind == "exists"):
                ok_any = True
    cx.ob("C04.R5", "is_ready:else-runs", ok_all, "an else branch is ready iff every sibling is Skipped", all_loc)
    cx.ob("C04.R5", "is_ready:else-skipped", ok_any, "an else branch gives up (Skipped) exactly when some sibling ran: completed, failed or was aborted - never because of a skipped or still open sibling", any_loc)
    # both under `else` and without needs
    cx.floor("C04.R5", 3)


def r1_links(cx):
    """link discipline of the builders: a node of the same level as `prev` becomes prev's next, otherwise it is
    attached to its parent; `prev` then moves on to the new node"""
    m = cx.m
    pa = Prov(m, "alias")
    for fname in ("build_step", "build_act", "dyn_build_act"):
        f = m.one(r"^acts::scheduler::tree::build::%s$" % fname)
        if "prev" not in f.names.values():
            # the builder does not link (no sibling cursor): linking is then done by its caller, see C16.R1
            cx.note("C04.R1: `%s` has no `prev` cursor; its caller links the nodes (C16.R1 build_acts:chain-complete)" % fname)
            continue
        sn = [c for c in f.calls() if c.q.endswith("Node::set_next")]
        sp = [c for c in f.calls() if re.search(r"Node::set_parent(_in)?$", c.q)]
        mk = [c for c in f.calls() if c.q.endswith("NodeTree::make") or c.q.endswith("Node::append_node")]
        if not mk:
            raise Anchor("%s: node creation not found" % fname)
        node = ("call", mk[0].q, mk[0].b)
        seq_next = None
        for c in sn:
            recv = pa.root(f, c.args[0])
            arg = pa.root(f, c.args[1])
            # prev.set_next(&node, true)
            if recv[0] == "param" and recv[2] == "prev" and _is_node(f, pa, arg, mk[0]):
                for gd in guards_of(m, f, c.b, mode="value"):
                    r = gd.root
                    if r[0] == "bin" and r[1] == "Eq" and gd.truth is True and {_fld(r[2]), _fld(r[3])} == {"level"}:
                        seq_next = c
        par = None
        for c in sp:
            recv = pa.root(f, c.args[0])
            if _is_node(f, pa, recv, mk[0]):
                for gd in guards_of(m, f, c.b, mode="value"):
                    r = gd.root
                    if r[0] == "bin" and r[1] == "Eq" and gd.truth is False and {_fld(r[2]), _fld(r[3])} == {"level"}:
                        par = c
        cx.ob("C04.R1", "%s:link" % fname, seq_next is not None and par is not None,
              "`%s`: a node on the level of `prev` becomes `prev.next`, otherwise it is attached to its parent" % fname, mk[0].loc)
        # a node that can name its successor (`node.set_next(<looked-up node>)`) must keep it: the link by declaration
        # order, made when the following sibling is built, is allowed only while `prev` has no successor yet
        explicit = [c for c in sn if _is_node(f, pa, pa.root(f, c.args[0]), mk[0])]
        if explicit and seq_next is not None:
            kept = False
            for gd in guards_of(m, f, seq_next.b, mode="alias"):
                r = gd.root
                if r[0] == "call" and r[1].endswith("::is_none") and gd.truth is True:
                    y = pa.root(f, Call(f, r[2]).args[0])
                    if y[0] == "call" and y[1].endswith("::upgrade"):
                        y = pa.root(f, Call(f, y[2]).args[0])
                    if y[0] == "call" and y[1].endswith("Node::next"):
                        z = pa.root(f, Call(f, y[2]).args[0])
                        kept = kept or (z[0] == "param" and z[2] == "prev")
            cx.ob("C04.R1", "%s:explicit-next-kept" % fname, kept,
                  "`%s` lets a node name its successor (`next`), so the link by declaration order is made only while `prev` has no successor yet - otherwise the following sibling overwrites the declared jump" % fname, seq_next.loc)
        # prev moves on
        moved = False
        for bi, b in enumerate(f.blocks):
            for s in b["s"]:
                if s[0] == "A" and s[1][1] == ["*"] and pa.root_place(f, s[1][0], [])[0] == "param" and f.names.get(s[1][0]) == "prev" and s[2][0] == "use":
                    src = pa.root(f, s[2][1])
                    if _is_node(f, pa, src, mk[0]) or (src[0] == "call" and (Call(f, src[2]).callee.get("decl") or "") == "std::clone::Clone::clone"):
                        moved = True
        cx.ob("C04.R1", "%s:prev-advances" % fname, moved, "`%s` makes the new node the `prev` of the next sibling" % fname, mk[0].loc)


def _fld(r):
    if r[0] in ("param", "call", "local"):
        return r[3][-1] if r[3] else None
    if r[0] == "field":
        return r[2][-1] if r[2] else None
    return None


def _is_node(f, pa, r, mk):
    n = 0
    while n < 5:
        if r[0] == "call" and r[2] == mk.b:
            return True
        if r[0] == "call":
            c = Call(f, r[2])
            if T.TRY_BRANCH.search(r[1]) and c.args:
                r = pa.root(f, c.args[0])
                n += 1
                continue
            if (c.callee.get("decl") or "") in ("std::ops::Deref::deref", "std::clone::Clone::clone") and c.args:
                r = pa.root(f, c.args[0])
                n += 1
                continue
        return False
    return False


def r7_parent(cx):
    m = cx.m
    pa = Prov(m, "alias")
    f = m.one(r"^%s::parent$" % TASK)
    rec = [c for c in f.calls() if c.q == f.q]
    cmps = []
    for bi, b in enumerate(f.blocks):
        for s_ in b["s"]:
            if s_[0] == "A" and s_[2][0] == "bin" and s_[2][1] in ("Lt", "Gt", "Le", "Ge"):
                l, r = pa.root(f, s_[2][2]), pa.root(f, s_[2][3])
                cmps.append((s_[2][1], l, r, bi))

    def lvl_of_self(r):
        return r[0] == "param" and r[1] == 1 and [x for x in r[3] if x != "*"][-2:] == ["node", "level"]

    def lvl_of_other(r):
        fs = r[3] if r[0] in ("call", "local", "param") else ()
        return [x for x in fs if x != "*" and not x.startswith("@") and not x.isdigit()][-2:] == ["node", "level"] and not lvl_of_self(r)
    strict = [c for c in cmps if (c[0] == "Lt" and lvl_of_other(c[1]) and lvl_of_self(c[2])) or (c[0] == "Gt" and lvl_of_self(c[1]) and lvl_of_other(c[2]))]
    ok = len(strict) == 1 and len(cmps) == 1 and not rec
    cx.ob("C04.R7", "parent:fixed-reference-level", ok,
          "Task::parent compares the level of each task on the prev chain with `self.node.level` (strictly lower), in one walk%s" % (
              "" if ok else " - found %d level comparisons against self, %d comparisons in all, recursive calls: %d (a recursion compares each hop with the hop before it, not with the task that asked)" % (len(strict), len(cmps), len(rec))), f.loc())
    cx.floor("C04.R7", 1)
