"""C09 Acknowledged delivery: at-least-once, bounded retries, silent after ack.

R1 the four channel closures store the message before they call the user handler, both under the
filter match; R2 store_if creates the row only for ack && chan_id != "" && retry_times == 0;
R3 the tick selects status == Created AND update_time < now - timeout; R4 redelivery happens on
the strict edge retry_times < max after the counter was bumped and stored, the other edge marks
Error; R5 who writes Message.status and with which value; R6 data::Message <-> Message agree.
Not decided: tick spacing, behaviour of foreign back ends beyond their mappers."""
import re

from vlib.model import Anchor, Call, Prov, guards_of, discr_variants, bool_target, root_str, short_name
from vlib import ts as T
from rules.c01 import exact_guards, gdesc

STORE = "acts::cache::store::<impl acts::store::store::Store>::"
MSG_ROW = "acts::store::data::message::Message"


def run(cx):
    cx.rule("C09.R1", "K2", "channel closures: under the filter match, the message is stored before the user handler runs")
    cx.rule("C09.R2", "K1", "store_if creates the row exactly for ack channels with an id, on first delivery (retry_times == 0)")
    cx.rule("C09.R3", "E3", "the tick query is status == Created AND update_time < now - timeout")
    cx.rule("C09.R4", "K1", "redelivery on the strict edge retry_times < max, after retry_times += 1 was stored; otherwise status = Error is stored")
    cx.rule("C09.R5", "K3", "Message.status: Acked only by ack, Completed only by an action on the task, Error only by the tick, Created only at creation and explicit redo")
    cx.rule("C09.R7", "K3", "a stored message that still waits for its ack is deleted by nobody but the client's explicit rm(id): the only other delete on the messages collection is the clean-up of rows in status Error")
    who_deletes_messages(cx, "C09.R7")
    cx.rule("C09.R6", "K11", "stored message <-> delivered message conversions agree field by field (same id and content on redelivery)")
    r1(cx)
    r2(cx)
    r3(cx)
    r4(cx)
    r5(cx)
    r6(cx)


def r1(cx):
    m = cx.m
    pa = Prov(m, "alias")
    n = 0
    for kind in ("message", "start", "complete", "error"):
        f = m.one(r"^acts::export::channel::Channel::on_%s::\{closure#0\}$" % kind)
        store = [c for c in f.calls() if c.q == "acts::export::channel::store_if"]
        match = [c for c in f.calls() if c.q == "acts::export::channel::is_match"]
        user = [c for c in f.calls() if c.kind == "generic" and (c.callee.get("decl") or "").endswith("Fn::call")]
        ok_shape = len(store) == 1 and len(match) == 1 and len(user) == 1
        if not ok_shape:
            cx.ob("C09.R1", "on_%s:shape" % kind, False, "the on_%s closure has one filter test, one store_if and one user-handler call (found %d/%d/%d)" % (
                kind, len(match), len(store), len(user)), f.loc())
            continue
        # the handler called is the captured user closure `f`
        callee = pa.root(f, user[0].args[0])
        is_user = callee[0] == "upvar" and callee[1] == "f"
        before = f.dominates(store[0].b, user[0].b)
        cx.ob("C09.R1", "on_%s:store-before-handler" % kind, before and is_user,
              "on_%s: `store_if` runs before the user handler on every path" % kind, store[0].loc)
        gm = [g for g in guards_of(m, f, user[0].b, mode="alias") if not g.neutral]
        gs = [g for g in guards_of(m, f, store[0].b, mode="alias") if not g.neutral]
        both = all(any(g.root[0] == "call" and g.root[1].endswith("channel::is_match") and g.truth is True for g in X) for X in (gm, gs))
        only = all(len(X) == 1 for X in (gm, gs))
        cx.ob("C09.R1", "on_%s:under-match" % kind, both and only,
              "on_%s: storing and delivering happen exactly when the channel filter matches (guards %s)" % (kind, [gdesc(m, g) for g in gm]), user[0].loc)
        # the stored message is the delivered one
        same = any(pa.root(f, a) == ("param", 2, f.names.get(2), ()) or _derefs_to_param(f, pa, a, 2) for a in store[0].args if a[0] != "k")
        cx.ob("C09.R1", "on_%s:same-message" % kind, same, "on_%s: the message stored is the message delivered" % kind, store[0].loc)
    cx.floor("C09.R1", 12)


def _derefs_to_param(f, pa, op, idx):
    r = pa.root(f, op)
    n = 0
    while r[0] == "call" and n < 4:
        c = Call(f, r[2])
        if (c.callee.get("decl") or "") in ("std::ops::Deref::deref",) and c.args:
            r = pa.root(f, c.args[0])
            n += 1
            continue
        break
    return r[0] == "param" and r[1] == idx


def r2(cx):
    m = cx.m
    pa = Prov(m, "alias")
    f = m.one(r"^acts::export::channel::store_if$")
    cr = [c for c in f.calls() if c.kind == "virtual" and c.q.endswith("DbCollection::create")]
    if len(cr) != 1:
        raise Anchor("store_if: expected one create call")
    c = cr[0]
    from vlib.model import conditions_of
    gs = [g for g in conditions_of(m, f, c.b, mode="value") if not g.neutral]
    have = {"ack": False, "chan": False, "first": False}
    extra = []
    for g in gs:
        r = g.root
        if not g.necessary:
            extra.append(gdesc(m, g))
        elif r[0] == "param" and r[2] == "ack" and g.truth is True:
            have["ack"] = True
        elif r[0] == "call" and r[1].endswith("::is_empty") and g.truth is False:
            a = pa.root(f, Call(f, r[2]).args[0])
            have["chan"] = have["chan"] or (a[0] == "param" and a[2] == "chan_id")
        elif r[0] == "bin" and r[1] == "Eq" and g.truth is True:
            a, b = r[2], r[3]
            for x, y in ((a, b), (b, a)):
                if x[0] == "param" and x[3] == ("retry_times",) and y[0] == "const" and y[1].get("int") == "0":
                    have["first"] = True
        else:
            extra.append(gdesc(m, g))
    cx.ob("C09.R2", "store_if:ack", have["ack"], "a message row is created only for acknowledging channels", c.loc)
    cx.ob("C09.R2", "store_if:chan-id", have["chan"], "a message row is created only when the channel has an id", c.loc)
    cx.ob("C09.R2", "store_if:first-delivery", have["first"], "a message row is created only on first delivery (retry_times == 0): redeliveries do not create rows", c.loc)
    cx.ob("C09.R2", "store_if:nothing-else", not extra, "no other condition decides whether the row is created (found %s)" % (extra or "none"), c.loc)
    # the collection written is the one the store holds NOW (looked up when the message is delivered): a collection
    # captured when the handler was registered goes stale when a store plug-in registers its own collection afterwards
    recv = pa.root(f, c.args[0])
    n_ = 0
    while recv[0] == "call" and n_ < 4 and (Call(f, recv[2]).callee.get("decl") or "") in ("std::ops::Deref::deref",):
        recv = pa.root(f, Call(f, recv[2]).args[0])
        n_ += 1
    cur = recv[0] == "call" and recv[1].endswith("Store::messages")
    cx.ob("C09.R2", "store_if:current-collection", cur,
          "the row is created in `store().messages()` as looked up at delivery time%s" % ("" if cur else " - but the collection comes from %s (captured / passed in earlier: not the store's current collection)" % root_str(recv)), c.loc)
    # the row is built from this message for this channel
    row = pa.root(f, c.args[1])
    ok = False
    if row[0] == "call" and row[1].endswith("Message::into"):
        ic = Call(f, row[2])
        a0 = pa.root(f, ic.args[0])
        a1 = pa.root(f, ic.args[1])
        ok = a0[0] == "param" and a0[2] == "message" and a1[0] == "param" and a1[2] == "chan_id"
    cx.ob("C09.R2", "store_if:row", ok, "the row is `message.into(chan_id, pattern)` of the delivered message", c.loc, row=root_str(row))
    cx.floor("C09.R2", 6)


def _expr_call(f, pv, pa, c):
    """Expr::<op>(key, value) -> (op, key literal, value root)"""
    op = c.q.split("::")[-1]
    key = pv.root(f, c.args[0])
    val = pa.root(f, c.args[1])
    return op, (key[1].get("str") if key[0] == "const" else None), val


def query_shape(m, f):
    """[(cond kind, [(op, key, value root)])] of the Query built in f"""
    pv = Prov(m, "value")
    pa = Prov(m, "alias")
    exprs = [c for c in f.calls() if re.search(r"^acts::store::query::Expr::(eq|ne|lt|le|gt|ge)$", c.q)]
    conds = [c for c in f.calls() if re.search(r"^acts::store::query::Cond::(and|or)$", c.q)]
    out = []
    for c in exprs:
        out.append(_expr_call(f, pv, pa, c))
    return [c.q.split("::")[-1] for c in conds], out


def _expr_value_op(f, e):
    """the operand carrying the value of an expression tuple (op, key, value root): re-find the call"""
    for c in f.calls():
        if re.search(r"^acts::store::query::Expr::%s$" % e[0], c.q):
            k = Prov(None, "value").root(f, c.args[0]) if False else None
    for c in f.calls():
        if re.search(r"^acts::store::query::Expr::%s$" % e[0], c.q):
            pvx = Prov(_M[0], "value")
            k = pvx.root(f, c.args[0])
            if k[0] == "const" and k[1].get("str") == e[1]:
                return c.args[1]
    return None


_M = [None]


def _loop_end_guard(m, g):
    from vlib.model import ITER_NEXT
    r = g.root
    return r[0] == "discr" and r[1][0] == "call" and bool(ITER_NEXT.search(r[1][1])) and discr_variants(m, g) == {"None"}


def r3(cx):
    m = cx.m
    _M[0] = m
    f = m.one("^" + re.escape(STORE) + r"with_no_response_messages$")
    conds, exprs = query_shape(m, f)
    status = [e for e in exprs if e[1] == "status"]
    upd = [e for e in exprs if e[1] == "update_time"]
    ok_status = len(status) == 1 and status[0][0] == "eq" and status[0][2][0] == "agg" and status[0][2][2] == "Created"
    ok_time = False
    detail = None
    if len(upd) == 1 and upd[0][0] == "lt":
        v = upd[0][2]
        if v[0] == "field":
            v = v[1]
        detail = root_str(v)
        if v[0] == "bin" and v[1].startswith("Sub"):
            a, b = v[2], v[3]
            ok_time = a[0] == "call" and a[1].endswith("time::time_millis") and b[0] == "param" and b[2] == "timeout_millis"
    cx.ob("C09.R3", "tick:status", ok_status, "the tick selects messages whose status is Created (found %s)" % [(e[0], root_str(e[2])) for e in status], f.loc())
    cx.ob("C09.R3", "tick:stale", ok_time, "the tick selects messages with update_time < time_millis() - timeout (found %s)" % detail, f.loc())
    cx.ob("C09.R3", "tick:and", conds == ["and"] and len(exprs) == 2, "both conditions are combined with AND and nothing else (found %s with %d expressions)" % (conds, len(exprs)), f.loc())
    cx.note("C09.R3 depends on C10.R3: the memory back end must evaluate AND without the empty-set sentinel")
    # every tick runs the pass: in the registered tick handler(s) the call is unconditional and on every path to the return
    callers = [(g, c) for g in m.fns.values() for c in g.calls() if c.q == f.q]
    if not callers:
        raise Anchor("with_no_response_messages is never called")
    for g, c in callers:
        gs = [x for x in guards_of(m, g, c.b, mode="alias") if not x.neutral and not _loop_end_guard(m, x)]
        rets = set(g.ret_blocks())
        bypass = bool(set(g.reach_from([0], avoid=[c.b])) & rets)
        cx.ob("C09.R3", "tick:every-tick:%s" % short_name(g.q), not gs and not bypass,
              "`%s` runs the redelivery pass on every tick: the call is under no condition and no path returns without it%s" % (
                  short_name(g.q), "" if (not gs and not bypass) else " - but %s" % ("it is guarded by %s" % [str(x.root[:3]) for x in gs] if gs else "some path returns before it")), c.loc)
    # and the handler is what `on_tick` registers
    reg = any(cc.q.endswith("Emitter::on_tick") or re.search(r"::on_tick(::<.*>)?$", cc.q) for g, _ in callers
              for pf in [m.fns.get(g.q[: g.q.index("::{closure")])] if "::{closure" in g.q and pf is not None for cc in pf.calls())
    cx.ob("C09.R3", "tick:registered", reg, "the function that runs the pass is a closure registered with `on_tick`", callers[0][1].loc)
    cx.floor("C09.R3", 5)


def r4(cx):
    m = cx.m
    pa = Prov(m, "alias")
    f = m.one("^" + re.escape(STORE) + r"with_no_response_messages$")
    deliver = [c for c in f.calls() if c.kind == "generic" and (c.callee.get("decl") or "").endswith("Fn::call")]
    if len(deliver) != 1:
        raise Anchor("with_no_response_messages: expected one redelivery call, found %d" % len(deliver))
    d = deliver[0]
    bound = None
    for g in guards_of(m, f, d.b, mode="value"):
        r = g.root
        if r[0] == "bin" and r[1] in ("Lt", "Le", "Gt", "Ge", "Ne", "Eq"):
            bound = (g, r)
    ok = False
    detail = {}
    if bound is not None:
        g, r = bound
        lhs, rhs = r[2], r[3]
        detail = {"condition": "%s %s %s is %s" % (root_str(lhs), r[1], root_str(rhs), g.truth)}
        is_cnt = lambda x: x[0] in ("local", "call", "field") and (x[3] if x[0] != "field" else x[2])[-1:] == ("retry_times",)
        is_max = lambda x: x[0] == "param" and x[2] == "max_message_retry_times"
        ok = (r[1] == "Lt" and g.truth is True and is_cnt(lhs) and is_max(rhs)) or (r[1] == "Gt" and g.truth is True and is_max(lhs) and is_cnt(rhs)) \
            or (r[1] == "Ge" and g.truth is False and is_cnt(lhs) and is_max(rhs)) or (r[1] == "Le" and g.truth is False and is_max(lhs) and is_cnt(rhs))
    cx.ob("C09.R4", "retry:strict-bound", ok, "a message is redelivered only while retry_times < max_message_retry_times (strict)", d.loc, **detail)
    # increment and update dominate the delivery
    inc = []
    for bi, b in enumerate(f.blocks):
        for s in b["s"]:
            if s[0] == "A" and s[1][1] and isinstance(s[1][1][-1], list) and s[1][1][-1][2] == "retry_times":
                inc.append(bi)
    upd = [c for c in f.calls() if c.kind == "virtual" and c.q.endswith("DbCollection::update")]
    pre_upd = [c for c in upd if f.dominates(c.b, d.b)]
    okseq = any(f.dominates(i, u.b) for i in inc for u in pre_upd) and bool(pre_upd)
    cx.ob("C09.R4", "retry:bump-stored-first", okseq, "retry_times is incremented and the row updated before the message is redelivered", d.loc)
    # the other edge marks Error and stores it
    err_assign = []
    for bi, b in enumerate(f.blocks):
        for s in b["s"]:
            if s[0] == "A" and s[1][1] and isinstance(s[1][1][-1], list) and s[1][1][-1][2] == "status":
                r = pa.root(f, s[2][1]) if s[2][0] == "use" else None
                if r is not None and r[0] == "agg" and r[2] == "Error":
                    err_assign.append(bi)
    okerr = False
    if bound is not None and err_assign:
        g, r = bound
        other = bool_target(f, g.b, not g.truth)
        okerr = all(e in f.reach_from([other]) for e in err_assign) and any(f.dominates(e, u.b) for e in err_assign for u in upd) \
            and d.b not in f.reach_from([other], avoid=[g.b])
    cx.ob("C09.R4", "retry:exhausted-error", okerr, "when the bound is reached the message is marked Error, stored, and not delivered", f.loc())
    # the redelivered message is the stored row (same id and content)
    arg = pa.root(f, d.args[1])
    cx.ob("C09.R4", "retry:same-message", _from_row(f, pa, arg), "the redelivered message is converted from the stored row (same id, same content, new retry count)", d.loc, message=root_str(arg))
    cx.floor("C09.R4", 4)


def _from_row(f, pa, r, depth=0):
    # tuple(&Message) -> Into::into(message row clone)
    if depth > 6:
        return False
    if r[0] == "tuple":
        ops = f.blocks[r[1]]["s"][r[2]][2][1]
        return any(_from_row(f, pa, pa.root(f, o), depth + 1) for o in ops)
    if r[0] == "call":
        c = Call(f, r[2])
        if (c.callee.get("decl") or "") in ("std::convert::Into::into", "std::convert::From::from", "std::clone::Clone::clone") and c.args:
            return _from_row(f, pa, pa.root(f, c.args[0]), depth + 1)
        if r[1].endswith("Iterator>::next"):
            return True
    if r[0] == "local":
        return r[2] in ("message", "m")
    return False


def status_writes(m):
    """[(fn, block, value variant or None)] of every assignment to a `.status` field of a message row,
    plus struct literals of the row with their status operand"""
    pa = Prov(m, "alias")
    out = []
    for f in m.fns.values():
        if f.crate != "acts" or "tests" in f.q:
            continue
        for bi, b in enumerate(f.blocks):
            for si, s in enumerate(b["s"]):
                if s[0] != "A":
                    continue
                if s[1][1] and isinstance(s[1][1][-1], list) and s[1][1][-1][2] == "status" and "data::message::Message" in f.local_ty(s[1][0]):
                    r = pa.root(f, s[2][1]) if s[2][0] == "use" else None
                    g = f
                    if r and r[0] == "upvar":
                        # the loop body became a closure (`rows.iter().try_for_each(|m| ..)`): the value is the enclosing
                        # function's, and so is the site
                        from rules.common import _upvar_outer
                        o = _upvar_outer(m, pa, f, r)
                        if o is not None:
                            g, r = o
                    v = r[2] if (r and r[0] == "agg") else (("param:" + (r[2] or "?")) if (r and r[0] == "param") else None)
                    out.append((g if g is not f else f, bi if g is f else 0, v))
                if s[2][0] == "agg" and s[2][1] == MSG_ROW and "status" in s[2][3]:
                    r = pa.root(f, s[2][4][s[2][3].index("status")])
                    v = r[2] if r[0] == "agg" else root_str(r)
                    out.append((f, bi, "literal:" + str(v)))
    return out


def r5(cx):
    m = cx.m
    pa = Prov(m, "alias")
    allowed = {
        "Store::with_no_response_messages": {"Error"},
        "Store::resend_error_messages": {"Created"},
        "Store::set_message": {"param:status"},
        "Store::set_message_with": {"param:status"},
    }
    for f, b, v in status_writes(m):
        if f.exp or (f.impl_trait or "").startswith("serde") or "Deserialize" in f.q or "_serde" in f.q:
            continue
        if isinstance(v, str) and v.startswith("literal:"):
            ok = f.short.endswith("Message::into") and v == "literal:Created"
            if f.impl_trait == "std::default::Default" or f.short.endswith("::default"):
                ok = True
            cx.ob("C09.R5", "status:literal:%s" % f.short, ok, "a message row is built in `%s` with status %s (rows are born Created, in Message::into)" % (f.short, v[8:]), f.loc(b))
            continue
        ok = f.short in allowed and v in allowed[f.short]
        cx.ob("C09.R5", "status:%s:%s" % (f.short, v), ok, "`%s` writes status %s (allowed there: %s)" % (f.short, v, sorted(allowed.get(f.short, []))), f.loc(b))
    # callers of the two parameterised setters
    for q, want_fn, want_val in ((STORE + "set_message", "Runtime::ack", "Acked"), (STORE + "set_message_with", "Task::update", "Completed")):
        for c in m.callers().get(q, []):
            v = pa.root(c.fn, c.args[-1])
            val = v[2] if v[0] == "agg" else root_str(v)
            cx.ob("C09.R5", "setter:%s<-%s" % (q.split("::")[-1], c.fn.short), c.fn.short == want_fn and val == want_val,
                  "`%s` is called from `%s` with status %s (only `%s` may, with %s)" % (q.split("::")[-1], c.fn.short, val, want_fn, want_val), c.loc)
    # the redo query selects status == Error and resets the retry counter
    f = m.one("^" + re.escape(STORE) + r"resend_error_messages$")
    conds, exprs = query_shape(m, f)
    ok = len(exprs) == 1 and exprs[0][0] == "eq" and exprs[0][1] == "status" and exprs[0][2][0] == "agg" and exprs[0][2][2] == "Error"
    cx.ob("C09.R5", "redo:query", ok, "the explicit redo touches exactly the messages in status Error", f.loc())
    reset = False
    for bi, b in enumerate(f.blocks):
        for s in b["s"]:
            if s[0] == "A" and s[1][1] and isinstance(s[1][1][-1], list) and s[1][1][-1][2] == "retry_times" and s[2][0] == "use" and s[2][1][0] == "k" and s[2][1][1].get("int") == "0":
                reset = True
    cx.ob("C09.R5", "redo:reset", reset, "the explicit redo resets retry_times to 0", f.loc())
    # Task::update: Completed for every action but push
    g = m.one(r"^acts::scheduler::process::task::Task::update$")
    cs = [c for c in g.calls() if c.q == STORE + "set_message_with"]
    okp = False
    if len(cs) == 1:
        for gd in guards_of(m, g, cs[0].b, mode="value"):
            r = gd.root
            if r[0] == "call" and re.search(r"PartialEq.*::(ne|eq)$", r[1]):
                from rules.c05 import T_const_variant
                vs = [T_const_variant(g, Prov(m, "alias").root(g, a)) for a in Call(g, r[2]).args]
                if "Push" in vs and ((r[1].endswith("::ne") and gd.truth is True) or (r[1].endswith("::eq") and gd.truth is False)):
                    okp = True
        # and it is reached on the Ok path of every arm: dominated by nothing else
        others = [gdesc(m, x) for x in guards_of(m, g, cs[0].b, mode="value") if not x.neutral]
    cx.ob("C09.R5", "action:completes-message", okp, "after every accepted action except push the messages of that task are marked Completed", cs[0].loc if cs else g.loc())
    # an action closes ALL messages of that task: the selection is pid == <pid> AND tid == <tid>, nothing else
    sw = m.one("^" + re.escape(STORE) + r"set_message_with$")
    conds, exprs = query_shape(m, sw)
    from rules.c17 import _is_param
    pvv = Prov(m, "value")
    shape = sorted((e[0], e[1]) for e in exprs)
    okq = conds == ["and"] and shape == [("eq", "pid"), ("eq", "tid")] and all(_is_param(pvv, sw, pvv.root(sw, _expr_value_op(sw, e)), e[1]) for e in exprs)
    cx.ob("C09.R5", "action:selects-all-of-task", okq,
          "set_message_with selects exactly the messages with pid == <pid> and tid == <tid> (found %s): a further filter would leave some message of an acted-on task open" % [(e[0], e[1]) for e in exprs], sw.loc())
    # ... and every selected row is updated with the given status
    upd = [c for c in sw.calls() if c.kind == "virtual" and c.q.endswith("DbCollection::update")]
    gsu = [g for g in guards_of(m, sw, upd[0].b, mode="alias") if not g.neutral] if upd else []
    only_loop = all((g.root[0] == "discr" and g.root[1][0] == "call") for g in gsu)
    if not upd:
        # `rows.iter().try_for_each(|m| { ..; collection.update(&m) })`: the update sits in the closure handed to the adaptor
        for fe in sw.calls():
            if not re.search(r"Iterator(>)?::(try_for_each|for_each)(::<.*>)?$", fe.q) or len(fe.args) < 2:
                continue
            k = pa.root(sw, fe.args[1])
            if k[0] == "closure" and k[1] in m.fns:
                gcl = m.fns[k[1]]
                u2 = [c for c in gcl.calls() if c.kind == "virtual" and c.q.endswith("DbCollection::update")]
                if len(u2) == 1 and not [g for g in guards_of(m, gcl, u2[0].b, mode="alias") if not g.neutral]:
                    upd = [fe]
                    gsu = [g for g in guards_of(m, sw, fe.b, mode="alias") if not g.neutral]
                    only_loop = all((g.root[0] == "discr" and g.root[1][0] == "call") or re.search(r"Try>::branch", str(g.root[1])) for g in gsu)
    cx.ob("C09.R5", "action:updates-each", len(upd) == 1 and only_loop, "every selected message is updated unconditionally", upd[0].loc if upd else sw.loc())
    # ack
    a = m.one(r"^acts::scheduler::runtime::Runtime::ack$")
    cx.ob("C09.R5", "ack:id", any(c.q == STORE + "set_message" and pa.root(a, c.args[1]) == ("param", 2, a.names.get(2), ()) for c in a.calls()),
          "ack marks the message with the given id", a.loc())
    # the ack is not dropped: Store::set_message writes the status it is given whenever the message exists (a "status only
    # moves forward" shortcut would swallow the ack of a message that ran out of retries: it stays `error` and a redo sends it again)
    sm_ = m.one("^" + re.escape(STORE) + r"set_message$")
    upd_ = [c for c in sm_.calls() if c.kind == "virtual" and c.q.endswith("DbCollection::update")]
    if upd_:
        from vlib.model import conditions_of
        from rules.c01 import gdesc as _gd
        conds_ = sorted({_gd(m, g) for g in conditions_of(m, sm_, upd_[0].b, mode="alias") if not g.neutral})
        extra_ = [d for d in conds_ if not re.search(r"^match\(DbCollection::find\)=Ok$|^match\(.*branch.*\)=Continue$|::is_ok=True$", d)]
        cx.ob("C09.R5", "ack:always-written", not extra_,
              "Store::set_message stores the given status whenever the message exists (conditions: %s)%s" % (conds_, "" if not extra_ else " - it also depends on %s" % extra_), upd_[0].loc)
    else:
        cx.ob("C09.R5", "ack:always-written", False, "Store::set_message updates the message row", sm_.loc())
    cx.floor("C09.R5", 14)


def r6(cx):
    m = cx.m
    pv = Prov(m, "value")
    # Message::into(chan_id, pattern) -> data::Message ; From<data::Message> for Message
    to_row = m.one(r"^acts::event::message::Message::into$")
    from_row = m.one(r"^<acts::event::message::Message as std::convert::From<acts::store::data::message::Message>>::from$")
    same = ["id", "tid", "name", "state", "type", "pid", "nid", "mid", "key", "uses", "tag", "start_time", "end_time", "retry_times"]
    for f, adt, direction in ((to_row, MSG_ROW, "stored"), (from_row, "acts::event::message::Message", "delivered")):
        aggs = [(bi, si, s) for bi, b in enumerate(f.blocks) for si, s in enumerate(b["s"]) if s[0] == "A" and s[2][0] == "agg" and s[2][1] == adt and s[2][3]]
        if len(aggs) != 1:
            raise Anchor("%s: expected one %s literal" % (f.short, adt))
        ops = dict(zip(aggs[0][2][2][3], aggs[0][2][2][4]))
        for fld in same:
            r = pv.root(f, ops[fld]) if fld in ops else None
            src = None
            if r is not None:
                if r[0] == "param" and r[1] == 1 and len(r[3]) >= 1:
                    src = r[3][0]
                elif r[0] == "call":
                    # through to_string / from_str / clone of self.<field>
                    from vlib.mapper import origin_calls
                    work = [r]
                    n = 0
                    while work and n < 10 and src is None:
                        n += 1
                        x = work.pop()
                        if x[0] == "param" and x[1] == 1 and x[3]:
                            src = x[3][0]
                        elif x[0] == "call":
                            for a in Call(f, x[2]).args:
                                work.append(pv.root(f, a))
            if direction == "stored" and fld == "retry_times" and r is not None and r[0] == "const" and r[1].get("int") == "0":
                src = fld  # a row is created on first delivery only (C09.R2): the counter starts at 0
            cx.ob("C09.R6", "%s:%s" % (direction, fld), src == fld,
                  "the %s message takes `%s` from the other side's `%s` (found %s)" % (direction, fld, fld, src), f.loc(aggs[0][0]))
    cx.floor("C09.R6", 28)


DELETERS = {
    # function -> why it may delete message rows
    "acts::export::executor::message_executor::MessageExecutor::rm": "the client's explicit removal of one message by id",
    "acts::cache::store::<impl acts::store::store::Store>::clear_error_messages": "clean-up of rows in status Error (given up after max retries)",
}


def who_deletes_messages(cx, rule):
    """K3 who-may-call: DbCollection::delete on Store::messages()"""
    m = cx.m
    pa = Prov(m, "alias")
    n = 0
    for q, f in sorted(m.fns.items()):
        if not q.startswith("acts::") or "::tests::" in q:
            continue
        for c in f.calls():
            if not ((c.callee.get("decl") or "").endswith("DbCollection::delete") or c.q.endswith("DbCollection::delete")):
                continue
            recv = pa.root(f, c.args[0]) if c.args else ("?",)
            if not (recv[0] == "call" and recv[1].endswith("Store::messages")):
                continue
            n += 1
            base = re.sub(r"::\{closure#\d+\}", "", q)
            ok = base in DELETERS
            why = DELETERS.get(base, "not among the functions that may delete message rows")
            if ok and base.endswith("clear_error_messages"):
                # the rows deleted come from a query on status == Error
                _M[0] = m
                conds_, exprs_ = query_shape(m, f)
                st = [e for e in exprs_ if e[1] == "status"]
                has_status = len(st) == 1 and st[0][0] == "eq"
                has_error = has_status and st[0][2][0] == "agg" and st[0][2][2] == "Error" and conds_ == ["and"]
                ok = has_status and has_error
                if not ok:
                    why = "the query that selects the rows no longer says status == Error"
            cx.ob(rule, "delete:%s" % short_name(base), ok, "`%s` deletes rows of the messages collection: %s" % (short_name(base), why), c.loc,
                  **({} if ok else {"consequence": "a message that still waits for its ack disappears from the store: the tick stops re-sending it to every channel that has not acked it"}))
    cx.floor(rule, 2)
