"""C02 Task lifecycle: only legal transitions, terminal states are final.

R1 complete enumeration of the writers of the state cell; R2 class tables of TaskState;
R3 transition legality of every write site (TS for the tracked task, GW for other receivers);
R4 the single exception (catch revival) is guarded and happens once; R5 exec refuses closed
tasks; R6 the `set_task` calls that justify assumption A3 are present."""
import re

from vlib.model import Anchor, Call, Prov, guards_of, root_str, short_name
from vlib.enumfn import task_state_tables, TASK_STATE
from vlib import ts as T

TASK = "acts::scheduler::process::task::Task"
ARC_TASK_IMPL = r"^acts::scheduler::process::task::<impl acts::scheduler::ActTask for std::sync::Arc<acts::scheduler::process::task::Task>>::"


def engine(cx):
    def make():
        tables = task_state_tables(cx.m)
        eng = T.TS(cx.m, tables)
        if cx.tier == "thorough":
            # deeper inlining and one more level of handler nesting
            eng.maxdepth = 13
            eng.handler_nesting = 3
            eng.budget = 3000000
        return eng, tables
    return cx.shared("ts", make)


def site_key(m, q, b):
    """stable key of a call site: function + callee + written constant + ordinal (no line numbers)"""
    f = m.fns[q]
    c = Call(f, b)
    pa = Prov(m, "alias")
    what = short_name(c.q).split("::")[-1]
    const = ""
    if c.q == T.Q_SET_STATE:
        r = pa.root(f, c.args[1])
        const = r[2] if r[0] == "agg" else "?"
    same = []
    for c2 in f.calls():
        if c2.q == c.q:
            r2 = pa.root(f, c2.args[1]) if c2.q == T.Q_SET_STATE else None
            c2const = (r2[2] if r2 and r2[0] == "agg" else "?") if r2 is not None else ""
            if c2const == const:
                same.append(c2.b)
    ordn = sorted(same).index(b) + 1
    return "%s:%s%s%s" % (f.short, what, ("(%s)" % const) if const else "", ("#%d" % ordn) if len(same) > 1 else "")


class LegalMon(T.Monitor):
    """collects every write edge on the tracked task; nothing is pruned"""
    init = 0

    def __init__(self):
        self.edges = {}
        self.exits = {}

    def on_event(self, mon, ev):
        if ev[0] == "WRITE":
            self.edges.setdefault((ev[3], ev[4], ev[1], ev[2]), None)
            return ("VIOLX", ev) if False else mon
        return mon

    def on_exit(self, mon, s, kind):
        self.exits.setdefault(kind, set()).add(s)
        return None


def explore_all(cx):
    """runs the legality exploration from every entry; returns {(fn q, block, s, S): (entry, s0, path)}"""
    def make():
        m = cx.m
        eng, tables = engine(cx)
        edges = {}
        exits = {}

        def run(entry, label, states, **kw):
            for s0 in states:
                mon = LegalMon()
                # record a witness path per edge
                class W(LegalMon):
                    pass
                viol = eng.run(entry, s0, mon, **kw)
                for e in mon.edges:
                    edges.setdefault(e, (label, s0))
                for k, ss in mon.exits.items():
                    exits.setdefault((label, s0), {}).setdefault(k, set()).update(ss)

        exec_fn = m.one(r"^%s::exec$" % TASK)
        update_fn = m.one(r"^%s::update$" % TASK)
        review_fn = m.one(ARC_TASK_IMPL + r"review$")
        error_fn = m.one(ARC_TASK_IMPL + r"error$")
        next_fn = m.one(ARC_TASK_IMPL + r"next$")
        emit_error = m.one(r"^acts::scheduler::context::Context::emit_error$")
        run_hooks = m.one(r"^%s::run_hooks$" % TASK)
        hooks_timeout = m.one(r"^%s::run_hooks_timeout$" % TASK)
        is_ready = m.one(r"^%s::is_ready$" % TASK)
        run(exec_fn, "exec", T.STATES)
        run(update_fn, "update", T.STATES)
        # review is entered with the context still bound to the finished child
        run(review_fn, "review", T.STATES, ctxok=False)
        run(error_fn, "error", T.STATES, ctxok=False)
        run(next_fn, "next", T.STATES, ctxok=False)
        run(emit_error, "emit_error", T.STATES, tp=(), cp=(1,))
        # hooks run from the on_task event handler with a fresh context of the task
        run(run_hooks, "run_hooks", T.STATES)
        run(hooks_timeout, "run_hooks_timeout", T.STATES)
        # helpers are entered in the states their (live) callers establish
        run(is_ready, "is_ready", sorted(caller_states(cx, is_ready, tables)), cp=())
        return edges, exits, eng
    return cx.shared("c02.explore", make)


def caller_states(cx, f, tables, depth=0, seen=None):
    """union over the live call sites of f of the guarded pre-state of the receiver (GW lifting, B.2):
    when a call site has no guard of its own and the receiver is a parameter of the caller, the
    caller's callers decide (depth <= 3, cycle => top)"""
    m = cx.m
    pa = Prov(m, "alias")
    seen = seen or set()
    out = set()
    for c in m.callers().get(f.q, []):
        if is_dead(m, c.fn):
            continue
        recv = pa.root(c.fn, c.args[0])
        pre = gw_prestate(m, tables, pa, c, recv)
        if len(pre) == len(T.STATES) and recv[0] == "param" and not recv[3] and depth < 3 and c.fn.q not in seen and "::{closure" not in c.fn.q:
            # the caller passes its own parameter on unguarded: its callers decide
            if recv[1] == 1:
                lifted = caller_states(cx, c.fn, tables, depth + 1, seen | {f.q})
                if lifted:
                    pre = lifted
        out |= pre
    return out


def run(cx):
    m = cx.m
    pa = Prov(m, "alias")
    cx.rule("C02.R1", "K3", "the task state cell is written only by Task::set_state / set_pure_state (set_err delegates); set_pure_* only from the loader")
    cx.rule("C02.R2", "K5", "TaskState class predicates agree with the classes of the statement")
    cx.rule("C02.R3", "TS", "every write edge s->S that the typestate analysis can reach on the tracked task is a legal transition")
    cx.rule("C02.R3h", "TS", "inductive hypothesis of the analysis: exec of a Running (resumed) task cannot return Err")
    cx.rule("C02.R3g", "GW", "every write to a task other than the tracked one is guarded so that its pre-state cannot be terminal (or is a named exception)")
    cx.rule("C02.R4", "K1", "the only revival Error->Running is the catch hook, under err-present and once-flag-false, and sets the flag first")
    cx.rule("C02.R5", "K1", "exec refuses closed tasks; init body only for state None; run body only for Ready")
    cx.rule("C02.R6", "K2", "init/next/review/error re-target the context to their task (assumption A3)")
    cx.rule("C02.R7", "K3", "structural facts the typestate engine relies on: hook registration discipline, stored handlers are invoked only from their emit function, value-trait impls write no task state, err is Some only in Error")

    _, tables = engine(cx)
    r1_writers(cx, pa)
    r2_tables(cx, tables)
    r3_ts(cx)
    r4_catch(cx, tables)
    r5_exec(cx, tables)
    r6_set_task(cx)
    r7_engine_assumptions(cx)


# ------------------------------------------------------------------------------------------------
def r1_writers(cx, pa):
    m = cx.m
    writers = {}
    for f in m.fns.values():
        if f.crate != "acts":
            continue
        for c in f.calls():
            if re.search(r"^std::sync::RwLock::<T>::write$", c.q):
                r = pa.root(f, c.args[0])
                fields = r[3] if r[0] == "param" else (r[2] if r[0] in ("upvar",) else ())
                if fields and fields[-1] == "state" and "task::Task" in (f.impl_self or ""):
                    writers[f.q] = c
    allowed = {T.Q_SET_STATE, T.Q_SET_PURE}
    for q, c in sorted(writers.items()):
        cx.ob("C02.R1", "cell-writer:%s" % short_name(q), q in allowed,
              "`%s` takes the write lock of the task state cell" % short_name(q), c.loc)
    for q in allowed:
        if q not in writers:
            cx.undecide("C02.R1", "expected writer %s of the state cell not found" % q)
    # struct literals of Task
    lits = []
    for f in m.fns.values():
        for bi, b in enumerate(f.blocks):
            for s in b["s"]:
                if s[0] == "A" and s[2][0] == "agg" and s[2][1] == TASK:
                    lits.append(f)
    for f in lits:
        if f.impl_trait == "std::clone::Clone" and f.exp:
            continue  # derived Clone: the clone shares the Arc'ed state cell
        cx.ob("C02.R1", "literal:%s" % f.short, f.q == TASK + "::new", "`%s` builds a Task (initial state None)" % f.short, f.loc())
    # callers of the pure setters
    for c in m.calls_to(r"^%s::set_pure_(state|err)$" % TASK):
        ok = c.fn.q.endswith("Store>::load_tasks") or "::load_tasks" in c.fn.q
        cx.ob("C02.R1", "pure:%s:%s" % (c.fn.short, c.q.split("::")[-1]), ok,
              "`%s` (no side effects, no end-time) is called from `%s`; only the loader may" % (short_name(c.q), c.fn.short), c.loc)
    n = len(m.calls_to(r"^%s::set_state$" % TASK)) + len(m.calls_to(r"^%s::set_err$" % TASK))
    cx.note("C02.R1: %d call sites of Task::set_state/set_err form the obligation set of R3" % n)
    if n < 48:
        cx.undecide("C02.R1", "only %d set_state/set_err call sites found (floor 48)" % n)
    cx.floor("C02.R1", 5)


def r2_tables(cx, tables):
    exp = {
        "is_completed": T.TERMINAL,
        "is_created": T.CREATED,
        "is_none": {"None"},
        "is_running": {"Running"},
        "is_pending": {"Pending"},
        "is_ready": {"Ready"},
        "is_interrupted": {"Interrupt"},
        "is_error": {"Error"},
        "is_success": {"Completed"},
        "is_skip": {"Skipped"},
        "is_abort": {"Aborted"},
        "is_removed": {"Removed"},
    }
    f0 = cx.m.one(r"^acts::scheduler::state::TaskState::is_completed$")
    for p, want in exp.items():
        if p not in tables:
            cx.undecide("C02.R2", "predicate %s not found" % p)
            continue
        got = {s for s, v in tables[p].items() if v}
        f = cx.m.one(r"^acts::scheduler::state::TaskState::%s$" % p)
        cx.ob("C02.R2", "table:%s" % p, got == want,
              "TaskState::%s holds exactly on %s (found %s)" % (p, sorted(want), sorted(got)), f.loc())
    # is_next must not admit a state in which a task may not continue: subset of {Running} + terminal non-error
    got = {s for s, v in tables["is_next"].items() if v}
    cx.ob("C02.R2", "table:is_next", got <= ({"Running"} | (T.TERMINAL - {"Error"})) and "Running" in got,
          "TaskState::is_next holds only on Running and non-error terminal states (found %s)" % sorted(got), f0.loc())
    variants = [n for n, _ in cx.m.variants(TASK_STATE)]
    cx.ob("C02.R2", "variants", sorted(variants) == sorted(T.STATES), "TaskState has exactly the 13 states of the statement (found %s)" % variants, f0.loc())
    cx.floor("C02.R2", 14)


CATCH_FN = "acts::scheduler::process::task::hook::StatementBatch::run"


def r3_ts(cx):
    m = cx.m
    edges, exits, eng = explore_all(cx)
    covered_sites = set()
    for (q, b, s, S), (label, s0) in sorted(edges.items(), key=lambda kv: (kv[0][0], kv[0][1], kv[0][2], kv[0][3])):
        covered_sites.add((q, b))
        ok = T.legal(s, S)
        exc = ""
        if not ok and q == CATCH_FN and s == "Error" and S == "Running":
            ok = True
            exc = " (the catch revival, see C02.R4)"
        f = m.fns[q]
        cx.ob("C02.R3", "%s:%s->%s" % (site_key(m, q, b), s, S), ok,
              "write %s -> %s at `%s` is a legal transition%s" % (s, S, site_key(m, q, b), exc), f.loc(b),
              entry="%s entered with the tracked task in state %s" % (label, s0))
    cx.note("C02.R3: typestate exploration: %d configurations over %d runs, %d functions inlined, %d distinct write edges on %d sites" % (
        eng.stats["configs"], eng.stats["runs"], len(eng.stats["inlined"]), len(edges), len(covered_sites)))
    cx.floor("C02.R3", 30)

    # ---- the inductive hypothesis used for resumed tasks -------------------------------------------
    errs = set()
    for k in ("ERR_NEW", "ERR_PROP", "CALL", "COPY"):
        errs |= exits.get(("exec", "Running"), {}).get(k, set())
    exec_fn = m.one(r"^%s::exec$" % TASK)
    cx.ob("C02.R3h", "exec-from-Running-cannot-fail", not errs,
          "hypothesis H: `Task::exec` entered with the task in state Running has no Err exit (so a resumed task cannot fail its resumer); "
          "states found at Err exits: %s; H was applied at %d resume sites" % (sorted(errs) or "none", len(eng.stats.get("H_used", ()))), exec_fn.loc())

    # ---- GW: the remaining write sites (receiver is not the tracked task of any entry) -----------
    pa = Prov(m, "alias")
    _, tables = engine(cx)
    all_sites = [c for c in m.calls_to(r"^%s::set_(state|err)$" % TASK) if c.fn.crate == "acts"]
    exceptions = load_exceptions()
    for c in sorted(all_sites, key=lambda c: (c.fn.q, c.b)):
        if (c.fn.q, c.b) in covered_sites:
            continue
        if c.fn.q == T.Q_SET_ERR:
            continue  # the delegation inside set_err itself
        if is_dead(m, c.fn):
            cx.note("DEAD: `%s` is unreachable inside the workspace (A7); its write at %s carries no obligation" % (c.fn.short, c.loc))
            continue
        key = site_key(m, c.fn.q, c.b)
        recv = pa.root(c.fn, c.args[0])
        pre = gw_prestate(m, tables, pa, c, recv)
        how = "dominating guards"
        after = err_closure_of_exec(m, pa, c, recv)
        if after is not None:
            # the site runs only when `exec` of the same task has just returned Err: its pre-state
            # is the set of states the typestate analysis finds at exec's error exits
            errs = set()
            for (label, s0), kinds in exits.items():
                if label == "exec":
                    for k in ("ERR_NEW", "ERR_PROP", "CALL", "COPY"):
                        errs |= kinds.get(k, set())
            pre &= errs
            how = "states at the Err exits of Task::exec (typestate analysis over all 13 entry states)"
        S = "Error"
        if c.q == T.Q_SET_STATE:
            r = pa.root(c.fn, c.args[1])
            S = r[2] if r[0] == "agg" else "?"
        bad = sorted(s for s in pre if S == "?" or not T.legal(s, S))
        if bad and key in exceptions:
            # the exception rests on an invariant about *ancestors*; it is void if the same function may
            # already have closed that very task through another navigation root
            earlier = may_alias_terminal_writes(m, pa, c, recv)
            if earlier:
                cx.ob("C02.R3g", key + ":alias", False,
                      "write of %s at `%s` (receiver %s) relies on `its receiver is still open`, but the same function may already have closed that task: %s" % (
                          S, key, root_str(recv), "; ".join(earlier)), c.loc)
                continue
            cx.ob("C02.R3g", key, True, "write of %s at `%s` (receiver %s): pre-state not bounded by local guards; accepted exception: %s" % (
                S, key, root_str(recv), exceptions[key]), c.loc, pre=sorted(pre))
            continue
        cx.ob("C02.R3g", key, not bad,
              "write of %s at `%s` (receiver %s) has pre-state %s; illegal from %s" % (S, key, root_str(recv), sorted(pre), bad or "none"), c.loc,
              pre_state_from=how)


def may_alias_terminal_writes(m, pa, c, recv):
    """terminal writes of the same function that can reach site c and whose receiver is another
    navigated task that is not known to be a non-ancestor (the act itself, an element of siblings()
    or of children())"""
    f = c.fn
    out = []
    for w in f.calls():
        if w.q not in (T.Q_SET_STATE, T.Q_SET_ERR) or w.b == c.b:
            continue
        r = pa.root(f, w.args[0])
        if r == recv:
            continue
        S = "Error"
        if w.q == T.Q_SET_STATE:
            v = pa.root(f, w.args[1])
            S = v[2] if v[0] == "agg" else "?"
        if S not in T.TERMINAL and S != "?":
            continue
        if not f.can_reach(w.b, c.b):
            continue
        # known non-ancestors
        if r[0] == "param" and not r[3]:
            continue  # the task the function was called for (the act itself)
        if r[0] == "call" and r[1] == T.Q_CTX_TASK:
            continue
        src = pa.iter_source(f, ("call", r[1], r[2], ())) if r[0] == "call" else None
        if src is not None and src[0][0] == "call" and re.search(r"Task::(siblings|children)$", src[0][1]):
            continue
        if src is not None and src[0][0] == "local" and descendant_worklist(f, pa, src[0][1]):
            continue  # a work-list seeded with children() and refilled with children() of its elements: descendants only
        out.append("%s of %s at %s" % (S, (root_str(src[0]) + "[..]") if src else root_str(r), w.loc))
    return out


def descendant_worklist(f, pa, loc, depth=0):
    """is every value ever stored in local `loc` a Vec of tasks obtained from Task::children (directly, or a Vec::new()
    filled only with children() of tasks)?"""
    if depth > 3:
        return False
    ds = [d for d in f.defs().get(loc, []) if d[2] in ("assign", "call")]
    if not ds:
        return False
    for bi, si, kind, payload in ds:
        if kind == "call":
            q = Call(f, bi).q
            if q.endswith("Task::children"):
                continue
            if re.search(r"Vec::<.*>::new$", q):
                continue
            return False
        rv = payload
        if rv[0] == "use" and rv[1][0] in ("m", "c") and not rv[1][1][1]:
            if not descendant_worklist(f, pa, rv[1][1][0], depth + 1):
                return False
            continue
        return False
    # mutations through &mut loc
    for c in f.calls():
        if not re.search(r"Vec::<.*>::(extend_from_slice|push|append|insert)$|Extend<.*>>::extend$", c.q) or not c.args:
            continue
        r = pa.root(f, c.args[0])
        if not (r[0] == "local" and r[1] == loc):
            continue
        a = pa.root(f, c.args[1])
        n = 0
        while a[0] == "call" and (Call(f, a[2]).callee.get("decl") or "") in ("std::ops::Deref::deref", "std::clone::Clone::clone") and n < 3:
            a = pa.root(f, Call(f, a[2]).args[0])
            n += 1
        if not (a[0] == "call" and a[1].endswith("Task::children")):
            return False
    return True


def is_dead(m, f, depth=0):
    """A7: no call site, no function-pointer reference, not a trait method; closures follow their parent"""
    if "::{closure" in f.q:
        parent = m.fns.get(f.q[: f.q.index("::{closure")])
        return parent is not None and depth < 4 and is_dead(m, parent, depth + 1)
    if f.impl_trait or f.trait_item:
        return False
    if m.callers().get(f.q):
        return False
    for g in m.fns.values():
        for b in g.blocks:
            for st in b["s"]:
                if st[0] == "A" and st[2][0] == "use" and st[2][1][0] == "k" and st[2][1][1].get("fn") == f.name:
                    return False
            t = b["t"]
            if t[0] == "call":
                for a in t[2]:
                    if a[0] == "k" and a[1].get("fn") == f.name:
                        return False
    return True


def err_closure_of_exec(m, pa, c, recv):
    """if the write site c sits in a closure passed to `unwrap_or_else` on the result of
    `Task::exec(x, ..)` and its receiver is the captured x, return the exec call"""
    if "::{closure" not in c.fn.q or recv[0] != "upvar":
        return None
    site = m.closure_sites().get(c.fn.q)
    if site is None:
        return None
    parent, cb, csi, ops = site
    for pc in parent.calls():
        if T.UNWRAP_OR_ELSE.search(pc.q) and len(pc.args) == 2:
            rc = pa.root(parent, pc.args[1])
            if rc[0] == "closure" and rc[1] == c.fn.q:
                r0 = pa.root(parent, pc.args[0])
                if r0[0] == "call" and r0[1] == "acts::scheduler::process::task::Task::exec":
                    ec = Call(parent, r0[2])
                    # the captured variable of that name
                    idx = None
                    for name, (l, p) in c.fn.upvars:
                        if name == recv[1]:
                            for e in p:
                                if isinstance(e, list) and e[0] == "f":
                                    idx = e[1]
                                    break
                    if idx is not None and idx < len(ops) and pa.root(parent, ops[idx]) == pa.root(parent, ec.args[0]):
                        return ec
    return None


def load_exceptions():
    import json, os
    p = os.path.join(os.path.dirname(os.path.dirname(os.path.abspath(__file__))), "tables", "c02_exceptions.json")
    if not os.path.exists(p):
        return {}
    return {e["key"]: e["reason"] for e in json.load(open(p))["exceptions"]}


def gw_prestate(m, tables, pa, c, recv):
    """pre-state set of the receiver at a write site from the dominating guards on the same root
    (B.2), killed by intervening protocol calls on that root"""
    f = c.fn
    pre = set(T.STATES)
    for g in guards_of(m, f, c.b, mode="alias"):
        r = g.root
        if r[0] == "call" and T.STATE_PRED.match(r[1]) and g.truth is not None:
            pc = Call(f, r[2])
            sr = pa.root(f, pc.args[0])
            if sr[0] == "call" and sr[1] == T.Q_STATE:
                sc = Call(f, sr[2])
                if pa.root(f, sc.args[0]) == recv:
                    # any write on the same root between the state read and the site?
                    if _write_between(m, f, pa, sc.b, c.b, recv):
                        continue
                    pred = T.STATE_PRED.match(r[1]).group(1)
                    pre &= {s for s in T.STATES if tables[pred][s] == g.truth}
    # disjunctions (`a() || b()`) and merged arms leave no dominating guard: walk from the point where the receiver
    # is obtained (the element of this iteration / the navigation call) to the site, once per state, deciding every
    # predicate on the receiver's own state - sound as long as nothing writes the receiver on the way
    # the element of a filtered iteration (`children.iter().filter(|t| !t.state().is_completed())`): only states for which
    # the predicate closure can say yes (read as a truth table over the state predicates it tests on its argument)
    if recv[0] == "call" and re.search(r"Filter<.*> as .*Iterator>::next$", recv[1]):
        from vlib import quant
        it = pa.root(f, Call(f, recv[2]).args[0])
        for _ in range(4):
            if it[0] == "call" and re.search(r"Iterator(>)?::filter(::<.*>)?$", it[1]):
                break
            if it[0] == "call" and re.search(r"IntoIterator>::into_iter$|::by_ref$|Iterator>::(rev|peekable)$", it[1]):
                it = pa.root(f, Call(f, it[2]).args[0])
                continue
            break
        if it[0] == "call" and re.search(r"Iterator(>)?::filter(::<.*>)?$", it[1]):
            fc = Call(f, it[2])
            k = pa.root(f, fc.args[1]) if len(fc.args) > 1 else ("?",)
            if k[0] == "closure" and k[1] in m.fns:
                gcl = m.fns[k[1]]

                def classify(x, gcl=gcl):
                    mt = T.STATE_PRED.match(x.q)
                    if mt and x.args:
                        sr = pa.root(gcl, x.args[0])
                        if sr[0] == "call" and sr[1] == T.Q_STATE and pa.root(gcl, Call(gcl, sr[2]).args[0])[:2] == ("param", 2):
                            return ("P:" + mt.group(1), False)
                    return None
                table = quant.closure_truth(m, gcl, classify)
                if table is not None:
                    keep = set()
                    names = {n_ for asg, _ in table for n_ in asg} | {v_[1] for _, v_ in table if isinstance(v_, tuple)}
                    for v in T.STATES:
                        total = {n_: tables[n_[2:]][v] for n_ in names}
                        vals = quant.table_value(table, total)
                        if vals != {False}:
                            keep.add(v)
                    pre &= keep
    starts = []
    if recv[0] == "call":
        starts = [recv[2]]
    elif recv[0] == "local":
        # the variable of a climbing loop (`while let Some(p) = parent { .. parent = p.parent() }`): every definition starts
        # the life of another task in it
        starts = sorted({d[0] for d in f.defs().get(recv[1], [])})
    if starts and not any(_write_between(m, f, pa, st, c.b, recv) for st in starts):
        pre2 = set()
        for v in T.STATES:
            seen = set()
            work = [x for st in starts for x in f.succ(st)]
            hit = False
            while work and not hit:
                x = work.pop()
                if x in seen:
                    continue
                seen.add(x)
                if x == c.b:
                    hit = True
                    break
                if x in starts:
                    continue  # the next iteration is another element
                t = f.blocks[x]["t"]
                if t[0] == "switch":
                    r = pa.root(f, t[1])
                    neg = False
                    while r[0] == "not":
                        neg = not neg
                        r = r[1]
                    if r[0] == "call" and T.STATE_PRED.match(r[1]) and not r[3]:
                        sr = pa.root(f, Call(f, r[2]).args[0])
                        if sr[0] == "call" and sr[1] == T.Q_STATE and pa.root(f, Call(f, sr[2]).args[0]) == recv:
                            val = tables[T.STATE_PRED.match(r[1]).group(1)][v]
                            val = (not val) if neg else val
                            tgt = t[3]
                            for sv, tb in t[2]:
                                if int(sv) == (1 if val else 0):
                                    tgt = tb
                            work.append(tgt)
                            continue
                work += f.succ(x)
            if hit:
                pre2.add(v)
        pre &= pre2
    return pre


def _write_between(m, f, pa, b_from, b_to, recv):
    # blocks on some path b_from -> b_to that does not pass b_from again (the guard dominates the
    # site: the relevant evaluation of the guard is the last one before the site)
    fwd = f.reach_from(f.succ(b_from), avoid=[b_from])
    back = set()
    work = [b_to]
    while work:
        x = work.pop()
        if x in back:
            continue
        back.add(x)
        for p in f.pred(x):
            if p in fwd and p != b_from:
                work.append(p)
    mid = (fwd & back) - {b_to}
    for b in mid:
        t = f.blocks[b]["t"]
        if t[0] == "call":
            q = t[1].get("q") or ""
            if q in (T.Q_SET_STATE, T.Q_SET_ERR) and pa.root(f, t[2][0]) == recv:
                return True
    return False


# ------------------------------------------------------------------------------------------------
def r4_catch(cx, tables):
    m = cx.m
    pa = Prov(m, "alias")
    pv = Prov(m, "value")
    f = m.one("^" + re.escape(CATCH_FN) + "$")
    sites = [c for c in f.calls() if c.q == T.Q_SET_STATE and pa.root(f, c.args[1])[0] == "agg" and pa.root(f, c.args[1])[2] == "Running"]
    if len(sites) != 1:
        raise Anchor("expected exactly one revival (set_state(Running)) in StatementBatch::run, found %d" % len(sites))
    c = sites[0]
    gs = guards_of(m, f, c.b, mode="value")
    has_err = False
    flag_false = False
    for g in gs:
        r = g.root
        if r[0] == "discr" and r[1][0] == "call" and r[1][1].endswith("Task::err"):
            from vlib.model import discr_variants
            if discr_variants(m, g) == {"Some"}:
                has_err = True
        if r[0] == "call" and r[1].endswith("Task::with_data") and g.truth is False:
            # the value tested is the once-flag read through with_data(.. IS_CATCH_PROCESSED ..)
            flag_false = flag_false or _closure_reads_const(m, f, Call(f, r[2]), "utils::consts::IS_CATCH_PROCESSED")
    cx.ob("C02.R4", "catch:err-present", has_err, "the revival is dominated by `task.err()` being Some", c.loc)
    cx.ob("C02.R4", "catch:flag-false", flag_false, "the revival is dominated by the once-flag IS_CATCH_PROCESSED being false", c.loc)
    # the flag is set before the revival on the same path
    setters = [x for x in f.calls() if x.q.endswith("Task::set_data_with") and _closure_reads_const(m, f, x, "utils::consts::IS_CATCH_PROCESSED")]
    ok = any(f.dominates(x.b, c.b) for x in setters)
    cx.ob("C02.R4", "catch:flag-set", ok, "the once-flag is set on every path to the revival (so it happens once)", c.loc)
    # no other site writes a non-terminal state over Error: covered by R3 (edges from Error)


def _closure_reads_const(m, f, call, named):
    """does a closure passed to `call` mention the named constant?"""
    pa = Prov(m, "alias")
    for a in call.args:
        r = pa.root(f, a)
        if r[0] == "closure" and r[1] in m.fns:
            g = m.fns[r[1]]
            for b in g.blocks:
                for s in b["s"]:
                    if s[0] == "A" and _mentions(s[2], named):
                        return True
                t = b["t"]
                if t[0] == "call" and any(_op_mentions(a2, named) for a2 in t[2]):
                    return True
    return False


def _op_mentions(op, named):
    return op[0] == "k" and (op[1].get("named") or "").endswith(named)


def _mentions(rv, named):
    if rv[0] == "use":
        return _op_mentions(rv[1], named)
    return False


def r5_exec(cx, tables):
    m = cx.m
    pa = Prov(m, "alias")
    f = m.one(r"^%s::exec$" % TASK)

    def guard_pre(fn, block, recv_pred):
        pre = set(T.STATES)
        for g in guards_of(m, fn, block, mode="alias"):
            r = g.root
            if r[0] == "call" and T.STATE_PRED.match(r[1]) and g.truth is not None:
                pc = Call(fn, r[2])
                sr = pa.root(fn, pc.args[0])
                if sr[0] == "call" and sr[1] == T.Q_STATE and recv_pred(pa.root(fn, Call(fn, sr[2]).args[0])):
                    pred = T.STATE_PRED.match(r[1]).group(1)
                    pre &= {s for s in T.STATES if tables[pred][s] == g.truth}
        return pre

    is_self = lambda r: r[0] == "param" and r[1] == 1 and not r[3]
    for name in ("init", "run", "next"):
        cs = [c for c in f.calls() if re.search(r"ActTask>::%s$|ActTask::%s$" % (name, name), c.q) or c.q.endswith("Arc<acts::scheduler::process::task::Task>>::%s" % name)]
        if not cs:
            raise Anchor("exec: expected a call of %s, found none" % name)
        for i_, c_ in enumerate(cs):
            pre = guard_pre(f, c_.b, is_self)
            cx.ob("C02.R5", "exec:%s%s" % (name, "" if i_ == 0 else "#%d" % (i_ + 1)), not (pre & T.TERMINAL),
                  "`exec` reaches `%s` only when the task is not terminal (guarded pre-state %s)" % (name, sorted(pre)), c_.loc)
    # init body: dispatch on node kind only under state None
    fi = m.one(ARC_TASK_IMPL + r"init$")
    is_ctx_task = lambda r: (r[0] == "call" and r[1] == T.Q_CTX_TASK) or (r[0] == "param" and r[1] == 1)
    for c in fi.calls():
        if re.search(r"ActTask for acts::model::.*>::init$", c.q):
            pre = guard_pre(fi, c.b, is_ctx_task)
            cx.ob("C02.R5", "init:%s" % short_name(c.q), pre == {"None"},
                  "`%s` is dispatched only for a task in state None (guarded pre-state %s)" % (short_name(c.q), sorted(pre)), c.loc)
    fr = m.one(ARC_TASK_IMPL + r"run$")
    for c in fr.calls():
        if re.search(r"ActTask for acts::model::.*>::run$", c.q):
            pre = guard_pre(fr, c.b, lambda r: True)
            cx.ob("C02.R5", "run:%s" % short_name(c.q), pre == {"Ready"},
                  "`%s` is dispatched only for a task in state Ready (guarded pre-state %s)" % (short_name(c.q), sorted(pre)), c.loc)
    cx.floor("C02.R5", 11)


def r6_set_task(cx):
    m = cx.m
    pa = Prov(m, "alias")
    for name in ("init", "next", "review", "error"):
        f = m.one(ARC_TASK_IMPL + name + "$")
        cs = [c for c in f.calls() if c.q == T.Q_CTX_SET_TASK]
        ok = False
        for c in cs:
            a0 = pa.root(f, c.args[0])
            a1 = pa.root(f, c.args[1])
            if a0[0] == "param" and a0[1] == 2 and a1[0] == "param" and a1[1] == 1:
                # before the node-kind dispatch
                disp = [d for d in f.calls() if (d.callee.get("decl") or "").endswith("scheduler::ActTask::%s" % name)]
                if disp and all(f.dominates(c.b, d.b) for d in disp):
                    ok = True
        cx.ob("C02.R6", "set_task:%s" % name, ok, "`<Arc<Task>>::%s` binds the context to its own task before dispatching on the node kind" % name, f.loc())
    cx.floor("C02.R6", 4)


def r7_engine_assumptions(cx):
    from rules.common import hook_discipline
    m = cx.m
    eng, _ = engine(cx)
    hook_discipline(cx, "C02.R7")
    bad = eng.sm.value_traits_are_pure()
    cx.ob("C02.R7", "value-traits", not bad,
          "no impl of a std value trait (Default, Clone, From, Display, Serialize, ...) in the workspace can reach a task-state write "
          "(the call graph does not fan generic calls of these traits out): %s" % ([short_name(q) for q, _ in bad] or "none"), None)
    # stored handlers: task/proc handlers are invoked synchronously by exactly their emit functions,
    # every other handler table is only iterated inside a spawned async block
    pa = Prov(m, "alias")

    def sync_bodies(f):
        """f and the closures that run synchronously inside it (`iter().for_each(|h| h(e))` is the same as a `for` loop;
        closures handed to a spawn or to a registration are not: Summaries keeps those edges out)"""
        out, work = [], [f.q]
        while work:
            q = work.pop()
            if q in m.fns and m.fns[q] not in out:
                out.append(m.fns[q])
                work += [x for x in eng.sm.edges.get(q, ()) if x.startswith(q + "::{closure")]
        return out

    def calls_handler(f):
        return any(c.kind == "virtual" and (c.callee.get("decl") or "").endswith("Fn::call") for g in sync_bodies(f) for c in g.calls())

    for kind, emit_q in T.HANDLER_EMITTERS.items():
        f = m.fns.get(emit_q)
        has_call = f is not None and calls_handler(f)
        cx.ob("C02.R7", "handler:%s" % kind, has_call and len(eng.sm.handlers.get(kind, [])) == 1,
              "the single `on_%s` handler is invoked synchronously from `%s`" % (kind, short_name(emit_q)), f.loc() if f else None)
    sync_other = []
    for f in m.fns.values():
        if f.q.startswith("acts::event::emitter::Emitter::") and "::{closure" not in f.q and f.q not in T.HANDLER_EMITTERS.values():
            if calls_handler(f):
                sync_other.append(f.short)
    cx.ob("C02.R7", "handler:others-async", not sync_other,
          "message/start/complete/error/tick handlers are never called synchronously by the emitter (found: %s)" % (sync_other or "none"), None)
    # err cell: written by set_err, set_pure_err and cleared by set_state only
    writers = set()
    for f in m.fns.values():
        if f.crate == "acts" and "task::Task" in (f.impl_self or ""):
            for c in f.calls():
                if re.search(r"^std::sync::RwLock::<T>::write$", c.q):
                    r = pa.root(f, c.args[0])
                    if r[0] == "param" and r[3] and r[3][-1] == "err":
                        writers.add(f.short)
    cx.ob("C02.R7", "err-cell", writers == {"Task::set_err", "Task::set_pure_err", "Task::set_state"},
          "the err cell is written only by set_err (followed by Error), the loader's set_pure_err, and cleared by set_state (found %s)" % sorted(writers), None)
    f = m.one(r"^%s::set_state$" % TASK)
    # set_state clears err unless the new state is Error
    clears = False
    for c in f.calls():
        if re.search(r"^std::sync::RwLock::<T>::write$", c.q):
            r = pa.root(f, c.args[0])
            if r[0] == "param" and r[3][-1:] == ("err",):
                for g in guards_of(m, f, c.b, mode="value"):
                    if g.root[0] == "call" and re.search(r"PartialEq.*::(ne|eq)$", g.root[1]):
                        a = [T_variant(f, pa, x) for x in Call(f, g.root[2]).args]
                        # `state != Error` true, or `state == Error` false
                        want = True if g.root[1].endswith("::ne") else False
                        if "Error" in a and g.truth is want:
                            clears = True
    cx.ob("C02.R7", "err-cleared", clears, "set_state clears the error whenever the new state is not Error (so err().is_some() implies state Error)", f.loc())
    cx.floor("C02.R7", 14)


def T_variant(f, pa, op):
    r = pa.root(f, op)
    if r[0] == "agg":
        return r[2]
    return None
