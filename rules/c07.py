"""C07 Data flow: inputs, act outputs and workflow outputs follow the scoping rules.

The whole property needs a reference environment model over generated programs and is NOT
decided. Decided structural necessary conditions: R1 private keys never leave their task: every
write of update_data into an ancestor sits on the non-matching edge of the private-key pattern,
the pattern accepts every key that starts with `__`, and `expose` drops private keys; R2 action
options are cut down to the declared outputs (C05.R4); R3 no process-shared mutable static
(C13.R2); R4 who may write another task's data; R5 the keys of a task's outputs come only from
its declared outputs, the expose list and the `$outputs` list.
Not decided: read-your-writes, nearest-holder update, last-writer-wins, the values of outputs."""
import re

from vlib.model import Anchor, Call, Prov, guards_of, discr_variants, root_str, short_name, ITER_NEXT
from vlib import ts as T
from rules.c02 import engine, TASK, is_dead
from rules import c05, c13, c11


def run(cx):
    cx.rule("C07.R1", "K7", "private keys: ancestor updates happen only for keys the private pattern rejects; the pattern covers every `__` key; expose() drops private keys")
    cx.rule("C07.R2", "E3", "action options are rebuilt from the act's declared outputs before they reach the context")
    cx.rule("C07.R3", "K3", "no process-shared mutable static in crate acts")
    cx.rule("C07.R4", "K3", "another task's data is written only by the three known cross-task writers (update_data to ancestors, Process::set_data*, set_step_value)")
    cx.rule("C07.R5", "E3", "the keys of Task::outputs come only from the node's declared outputs, the expose env list (default [data]) and the task's `$outputs` list")
    cx.rule("C07.R6", "K1", "a write reaches every enclosing scope that holds the name: the walk collects all ancestors, the update loop has no early exit, the writer's own data is always set; readers resolve inside the ancestry only")
    r6(cx)
    cx.rule("C07.R7", "K1", "outputs flow upwards whatever the ending: a reviewing parent takes over the finished child's outputs (review) and a task that ended hands its context values to its own data (next) - under no condition on how the child ended")
    r7_handover(cx)
    cx.rule("C07.R8", "E3", "the script proxies of a step (`step1.x`, `step1.x = v`, `.data()`, `.inputs()`) resolve the node id to the NEWEST task of that node: after a back / redo the values of the abandoned round are not read back")
    r8_step_proxy(cx)
    m = cx.m
    pa = Prov(m, "alias")
    pv = Prov(m, "value")

    # ---- R1 ---------------------------------------------------------------------------------------
    f = m.one(r"^%s::update_data$" % TASK)
    upd = _ancestor_updates(m, pa, f)
    ism = [c for c in f.calls() if c.q.endswith("Regex::is_match")]
    if len(upd) != 1 or len(ism) != 1:
        raise Anchor("update_data: expected one ancestor update and one is_match")
    gs = guards_of(m, f, upd[0].b, mode="alias")
    neg = any(g.root == ("call", ism[0].q, ism[0].b, ()) and g.truth is False for g in gs)
    # the key tested is the key written
    key_tested = pa.root(f, ism[0].args[1])
    kt = _strip(f, pa, key_tested)
    same_key = any(r == kt for r in upd[0].key_roots)
    cx.ob("C07.R1", "ancestors:non-private-only", neg and same_key, "update_data writes into an ancestor only for a name the private-key pattern does NOT match (and the name tested is the name written)", upd[0].loc)
    # the pattern literal: must accept every string starting with `__`
    rx = pv.root(f, [c for c in f.calls() if c.q.endswith("Regex::new")][0].args[0])
    pat = rx[1].get("str") if rx[0] == "const" else None
    hir = f.regexes.get(pat)
    ok, why = _accepts_dunder_prefix(hir) if hir else (False, "pattern not found")
    cx.ob("C07.R1", "pattern:covers-dunder", ok, "the private-key pattern %r %s" % (pat, why), f.loc())
    # the regex used by is_match is that pattern
    rroot = pa.root(f, ism[0].args[0])
    cx.ob("C07.R1", "pattern:used", _from_regex_new(f, pa, rroot), "the matcher applied is the one compiled from that pattern", ism[0].loc)
    ex = m.one(r"^%s::expose$" % TASK)
    clos = [g for g in m.fns.values() if g.q.startswith(ex.q + "::{closure")]
    filt = any(c.q.endswith("consts::is_private_key") for g in clos for c in g.calls())
    has_filter = any(re.search(r"Iterator::filter$", c.q) for g in clos + [ex] for c in g.calls())
    # polarity: the filter closure returns !is_private_key
    pol = False
    for g in clos:
        for c in g.calls():
            if c.q.endswith("consts::is_private_key"):
                for b, k in g.exit_defs():
                    for s in g.blocks[b]["s"]:
                        if s[0] == "A" and s[1][0] == 0 and s[2][0] == "un" and s[2][1] == "Not":
                            pol = True
    cx.ob("C07.R1", "expose:drops-private", filt and has_filter and pol, "expose() keeps only keys for which is_private_key is false", ex.loc())
    ip = m.one(r"^acts::utils::consts::is_private_key$")
    sw = [c for c in ip.calls() if re.search(r"str>::starts_with|<impl str>::starts_with", c.q)]
    lit = pv.root(ip, sw[0].args[1]) if sw else None
    cx.ob("C07.R1", "is_private_key:dunder", bool(sw) and lit[0] == "const" and lit[1].get("str") == "__", "is_private_key is `starts_with(\"__\")`", ip.loc())
    cx.floor("C07.R1", 5)

    # ---- R2 / R3 ----------------------------------------------------------------------------------
    n0 = len(cx.obs)
    c05.r4(cx) if False else None
    # re-run the C05.R4 obligations under this property's rule id
    class Proxy:
        def __init__(self, cx):
            self._cx = cx
            self.m = cx.m

        def ob(self, rule, key, ok, desc, loc=None, **d):
            return self._cx.ob("C07.R2", key, ok, desc, loc, **d)

        def floor(self, rule, n):
            return self._cx.floor("C07.R2", n)

        def __getattr__(self, k):
            return getattr(self._cx, k)
    c05.r4(Proxy(cx))
    c13.statics_audit(cx, "C07.R3")

    # ---- R4 cross-task data writers ---------------------------------------------------------------
    W = dict(c11.task_writers(cx))
    W.pop("__selfp__", None)
    data_writers = {q for q, cells in W.items() if "data" in cells}
    allowed = {"Task::update_data", "Process::set_data", "Process::set_data_with", "step::set_step_value", "Store::load_tasks",
               "Context::dispatch_act", "Context::abort_task"}
    seen = {}
    for g in m.fns.values():
        if g.crate != "acts" or is_dead(m, g) or "tests" in g.q:
            continue
        for c in g.calls():
            if c.q in data_writers and c.args:
                r = pa.root(g, c.args[0])
                if _is_current(g, r, m, pa):
                    continue
                if g.q in W and r[0] == "param" and r[1] == 1:
                    continue
                name = g.short
                base = name.split("::{closure")[0]
                ok = base in allowed or any(base.endswith(a) for a in allowed)
                key = "writer:%s:%s" % (name, short_name(c.q).split("::")[-1])
                if key in seen:
                    continue
                seen[key] = True
                cx.ob("C07.R4", key, ok, "`%s` writes the data of a task other than the current one (%s) through `%s`%s" % (
                    name, root_str(r), short_name(c.q), "" if ok else ": a new cross-task writer can carry values outside the writer's ancestry"), c.loc)
    cx.floor("C07.R4", 4)

    # ---- R5 output keys -----------------------------------------------------------------------------
    o = m.one(r"^%s::outputs$" % TASK)
    fo = [c for c in o.calls() if c.q.endswith("convert::fill_outputs")]
    if len(fo) != 1:
        raise Anchor("Task::outputs: expected one fill_outputs call")
    mp = pa.root(o, fo[0].args[0])
    sets = [c for c in o.calls() if c.q.endswith("Vars::set") and pa.root(o, c.args[0]) == mp]
    srcs = []
    for c in sets:
        k = pa.root(o, c.args[1])
        src = pa.iter_source(o, ("call", k[1], k[2], ())) if k[0] == "call" else None
        srcs.append(_key_source(o, pa, pv, src[0]) if src else "?")
    init = mp[0] == "call" and mp[1].endswith("NodeContent::outputs")
    others = [short_name(c.q) for c in o.calls() if re.search(r"Vars::(insert|extend|append|with)$|Map::<.*>::(insert|extend)$", c.q) and pa.root(o, c.args[0]) == mp]
    cx.ob("C07.R5", "outputs:declared", init, "the output map starts from the node's declared outputs", fo[0].loc)
    cx.ob("C07.R5", "outputs:key-sources", sorted(srcs) == ["$outputs", "expose-env"] and not others,
          "further keys come only from the expose env list and the task's `$outputs` list (found %s; other insertions: %s)" % (sorted(srcs), others or "none"), fo[0].loc)
    # the default of the expose list is ["data"]
    dflt = any((s[2][1][1].get("named") or "").endswith("ACT_DATA") for b in o.blocks for s in b["s"] if s[0] == "A" and s[2][0] == "use" and s[2][1][0] == "k") or \
        any((a[1].get("named") or "").endswith("ACT_DATA") for c in o.calls() for a in c.args if a[0] == "k")
    cx.ob("C07.R5", "outputs:default-expose", dflt, "without an expose list the only extra key is `data`", o.loc())
    # fill_outputs produces exactly the keys it is given
    g = m.one(r"^acts::utils::convert::fill_outputs$")
    ins = [c for c in g.calls() if re.search(r"Map::<.*>::insert$|Vars::(insert|set)$", c.q)]
    okk = bool(ins)
    for c in ins:
        k = pv.root(g, c.args[1])
        src = pa.iter_source(g, ("call", k[1], k[2], ())) if k[0] == "call" else None
        okk = okk and src is not None and src[0][0] == "param" and src[0][1] == 1
    cx.ob("C07.R5", "fill_outputs:same-keys", okk, "fill_outputs inserts only keys taken from the map it is given (%d insertions)" % len(ins), g.loc())
    # a declared name without a value ("filled from scope") is looked up with Task::find - the task's own data first, then every
    # enclosing scope - under the same name; reading the task's own data only loses what a child wrote into the step / workflow
    finds = [c for c in g.calls() if re.search(r"Task::find(::<.*>)?$", c.q)]
    okf = False
    for c in finds:
        k = pv.root(g, c.args[1]) if len(c.args) > 1 else ("?",)
        src = pa.iter_source(g, ("call", k[1], k[2], ())) if k[0] == "call" else None
        same = src is not None and src[0][0] == "param" and src[0][1] == 1
        fed = any(pv.root(g, i.args[2])[:3] == ("call", c.q, c.b) or _feeds(g, pv, c, i) for i in ins if len(i.args) > 2)
        okf = okf or (same and fed)
    cx.ob("C07.R5", "fill_outputs:scope-lookup", okf,
          "a declared output without a value is filled by Task::find (own data, then every enclosing scope) under the same name and that value is what is inserted (%d find call(s))" % len(finds),
          finds[0].loc if finds else g.loc())
    fill_outputs_declared_null(cx, "C07.R5")
    cx.floor("C07.R5", 6)


def _feeds(g, pv, c, ins):
    """does the result of call c (an Option) reach the value argument of the insertion `ins` through a downcast / unwrap?"""
    r = pv.root(g, ins.args[2])
    for _ in range(6):
        if r[:3] == ("call", c.q, c.b):
            return True
        if r[0] == "call" and re.search(r"Clone>::clone$|Option::<T>::(unwrap|unwrap_or|unwrap_or_else|unwrap_or_default|expect)$", r[1]):
            from vlib.model import Call
            cc = Call(g, r[2])
            r = pv.root(g, cc.args[0]) if cc.args else ("?",)
            continue
        break
    return False



class _Upd:
    """the hand-up of one value into an ancestor, in either spelling: `t.update_data_if_exists(|v| if v.contains_key(name) {
    v.set(name, value); true } else { false })` or the same body written in place on `t.data.write()`"""
    def __init__(self, form, call, key_roots, holder_ok, extra_allowed):
        self.form, self.call, self.b, self.loc = form, call, call.b, call.loc
        self.key_roots, self.holder_ok, self.extra_allowed = key_roots, holder_ok, extra_allowed


def _ancestor_updates(m, pa, f):
    out = []
    for c in f.calls():
        if c.q.endswith("Task::update_data_if_exists"):
            clos = pa.root(f, c.args[1])
            key_roots, okc = [], False
            if clos[0] == "closure" and clos[1] in m.fns:
                site = m.closure_sites().get(clos[1])
                if site:
                    key_roots = [_strip(f, pa, pa.root(f, o)) for o in site[3] if o[0] != "k"]
                g = m.fns[clos[1]]
                ck = [x for x in g.calls() if re.search(r"(Vars|Map::<.*>)::contains_key$", x.q)]
                st = [x for x in g.calls() if x.q.endswith("Vars::set") or re.search(r"Vars::set::<", x.q)]
                if len(ck) == 1 and len(st) == 1:
                    gs = guards_of(m, g, st[0].b, mode="alias")
                    okc = any(x.root == ("call", ck[0].q, ck[0].b, ()) and x.truth is True for x in gs) and len([x for x in gs if not x.neutral]) == 1
                    okc = okc and pa.root(g, ck[0].args[1])[:4] == pa.root(g, st[0].args[1])[:4]
            out.append(_Upd("helper", c, key_roots, okc, []))
    if out:
        return out
    # in place: Vars::set on the write guard of another task's `data`
    for c in f.calls():
        if not (c.q.endswith("Vars::set") or re.search(r"Vars::set::<", c.q)):
            continue
        r = pa.root(f, c.args[0])
        lock = None
        for _ in range(6):
            if r[0] == "call" and re.search(r"RwLock::<.*>::write$|RwLock::<T>::write$", r[1]):
                lock = r
                break
            if r[0] == "call" and re.search(r"(unwrap|expect|DerefMut>::deref_mut|Deref>::deref)$", r[1]):
                r = pa.root(f, Call(f, r[2]).args[0])
                continue
            break
        if lock is None:
            continue
        owner = pa.root(f, Call(f, lock[2]).args[0])
        fields = owner[3] if owner[0] in ("param", "call", "local") else ()
        if "data" not in fields or owner[:2] == ("param", 1):
            continue
        ck = [x for x in f.calls() if re.search(r"(Vars|Map::<.*>)::contains_key$", x.q)]
        okc = False
        for x in ck:
            held = any(gd.root == ("call", x.q, x.b, ()) and gd.truth is True for gd in guards_of(m, f, c.b, mode="alias"))
            if held and _strip(f, pa, pa.root(f, x.args[1])) == _strip(f, pa, pa.root(f, c.args[1])):
                okc = True
        out.append(_Upd("in-place", c, [_strip(f, pa, pa.root(f, c.args[1]))], okc, [r"contains_key=True$"]))
    return out


def _strip(f, pa, r):
    n = 0
    while r[0] == "call" and n < 5:
        c = Call(f, r[2])
        if c.args and (c.callee.get("decl") or "") in ("std::ops::Deref::deref", "std::convert::AsRef::as_ref", "std::borrow::Borrow::borrow"):
            r = pa.root(f, c.args[0])
            n += 1
            continue
        break
    return r


def _from_regex_new(f, pa, r, depth=0):
    if depth > 6:
        return False
    if r[0] == "call":
        if r[1].endswith("Regex::new"):
            return True
        c = Call(f, r[2])
        return bool(c.args) and _from_regex_new(f, pa, pa.root(f, c.args[0]), depth + 1)
    if r[0] == "local":
        return any(d[2] == "call" and _from_regex_new(f, pa, ("call", d[3][1].get("q") or "", d[0], ()), depth + 1) for d in f.defs().get(r[1], []))
    return False


def _accepts_dunder_prefix(h):
    """^ (alt containing literal "__") followed by .* (any char but newline)"""
    if h[0] != "cat":
        return False, "is not a concatenation"
    parts = h[1]
    if parts[0] != ["look", "Start"]:
        return False, "is not anchored at the start"
    alt = parts[1]
    while alt[0] == "cap":
        alt = alt[2]
    lits = []
    if alt[0] == "alt":
        lits = [x[1] for x in alt[1] if x[0] == "lit"]
    elif alt[0] == "lit":
        lits = [alt[1]]
    if "__" not in lits and "_" not in lits:
        return False, "has no `__` alternative at the start"
    rest = parts[2:]
    if not rest:
        return True, "matches every key that starts with `__` (prefix match)"
    r = rest[0]
    if r[0] == "rep" and r[1] == 0 and r[2] is None:
        return True, "is `^(..|__)` followed by `.*`: it matches every key that starts with `__`"
    return False, "requires more than the `__` prefix"


def _is_current(g, r, m, pa, depth=0):
    if r[0] == "call" and r[1] == T.Q_CTX_TASK:
        return True
    if r[0] == "param" and r[1] == 1 and not r[3] and re.search(r"process::task::Task>?$", g.impl_self or "") and "::{closure" not in g.q:
        return True
    if r[0] == "upvar" and depth < 3:
        site = m.closure_sites().get(g.q)
        if site:
            parent, cb, csi, ops = site
            for name, (l, p) in g.upvars:
                if name == r[1]:
                    idx = [e[1] for e in p if isinstance(e, list) and e[0] == "f"]
                    if idx and idx[0] < len(ops) and ops[idx[0]][0] != "k":
                        return _is_current(parent, pa.root(parent, ops[idx[0]]), m, pa, depth + 1)
    return False


def _key_source(f, pa, pv, r):
    if r[0] == "local":
        for d in f.defs().get(r[1], []):
            if d[2] == "call":
                q = d[3][1].get("q") or ""
                if q.endswith("unwrap_or") or q.endswith("unwrap_or_default") or q.endswith("unwrap_or_else"):
                    a = pa.root(f, d[3][2][0])
                    if a[0] == "call" and a[1].endswith("Context::get_env"):
                        return "expose-env"
                if q.endswith("Context::get_env"):
                    return "expose-env"
            if d[2] == "assign" and d[3][0] == "use" and d[3][1][0] != "k":
                x = _key_source(f, pa, pv, pa.root(f, d[3][1]))
                if x != "?":
                    return x
    if r[0] == "call":
        if r[1].endswith("Context::get_env"):
            return "expose-env"
        c = Call(f, r[2])
        if r[1].endswith("Vars::get") and c.args:
            k = pv.root(f, c.args[1])
            if k[0] == "const" and (k[1].get("named") or "").endswith("ACT_OUTPUTS"):
                return "$outputs"
        if c.args:
            return _key_source(f, pa, pv, pa.root(f, c.args[0]))
    return "?"



def loop_exits(f, header, body):
    """normal-flow edges leaving the loop, as (from, to)"""
    return sorted((b, s) for b in body for s in f.succ(b) if s not in body and f.blocks[s]["t"][0] != "unreachable")


def _loop_end(m, g):
    """the guard is the end of a loop: an iterator ran out / a `while let Some` saw None"""
    r = g.root
    return r[0] == "discr" and ((r[1][0] == "call" and bool(ITER_NEXT.search(r[1][1]))) or r[1][0] == "local") and discr_variants(m, g) == {"None"}


def r6(cx):
    from rules.c16 import natural_loops
    m = cx.m
    pa = Prov(m, "alias")
    f = m.one(r"^%s::update_data$" % TASK)
    loops = natural_loops(f)
    upd = _ancestor_updates(m, pa, f)
    push = [c for c in f.calls() if re.search(r"Vec::<.*>::push$", c.q) and "process::task::Task" in c.full]
    # the walk may also be spelled `std::iter::successors(self.parent(), |t| t.parent()).collect()`
    succ = [c for c in f.calls() if re.search(r"^std::iter::successors(::<.*>)?$|iter::successors(::<.*>)?$", c.q)]
    succ_form = None
    if len(upd) == 1 and not push and len(succ) == 1:
        c0 = succ[0]
        first = pa.root(f, c0.args[0])
        cl = pa.root(f, c0.args[1])
        step_ok = False
        if cl[0] == "closure" and cl[1] in m.fns:
            g_ = m.fns[cl[1]]
            step_ok = any(x.q.endswith("Task::parent") for x in g_.calls()) and len([x for x in g_.calls() if not x.exp]) <= 2
        start_ok = first[0] == "call" and first[1].endswith("Task::parent") and pa.root(f, Call(f, first[2]).args[0])[:2] == ("param", 1)
        col = [c for c in f.calls() if re.search(r"Iterator(>)?::collect(::<.*>)?$", c.q) and pa.root(f, c.args[0])[:3] == ("call", c0.q, c0.b)]
        succ_form = (start_ok and step_ok and len(col) == 1, col[0] if col else None)
    if len(upd) != 1 or (len(push) != 1 and succ_form is None):
        raise Anchor("update_data: expected one ancestor update and one push of an ancestor")
    # (a) the walk: a loop around the push, left only when `parent` is None, stepping with Task::parent
    walk = [(h, body) for h, body in loops if push and push[0].b in body]
    ok = False
    why = "no loop around the push"
    if succ_form is not None:
        ok = succ_form[0]
        why = "successors(self.parent(), |t| t.parent()).collect(): %s" % ok
    if walk:
        h, body = min(walk, key=lambda x: len(x[1]))
        ex = loop_exits(f, h, body)
        t = f.blocks[h]["t"]
        cond = pa.root(f, t[1]) if t[0] == "switch" else None
        on_parent = cond is not None and cond[0] == "discr" and cond[1][0] in ("local", "call")
        steps = [c for c in f.calls() if c.b in body and c.q.endswith("Task::parent")]
        pushed = pa.root(f, push[0].args[1])
        ok = len(ex) == 1 and ex[0][0] == h and on_parent and len(steps) >= 1 and f.dominates(push[0].b, steps[0].b)
        why = "exits %s, steps %d" % (ex, len(steps))
    cx.ob("C07.R6", "update_data:walk", ok, "update_data collects every ancestor: the walk pushes each task and steps to its parent until there is none (%s)" % why, (push[0] if push else succ[0]).loc)
    # (b) the update loop over the collected ancestors: plain iteration, left only when the iterator ends
    wl = [(h, body) for h, body in loops if upd[0].b in body]
    ok = False
    why = "no loop around the update"
    if wl:
        h, body = min(wl, key=lambda x: len(x[1]))
        ex = loop_exits(f, h, body)
        nxt = [c for c in f.calls() if c.b in body and ITER_NEXT.search(c.q) and f.dominates(c.b, upd[0].b)]
        inner = nxt[-1] if nxt else None
        plain = False
        over_refs = False
        if inner is not None:
            src = pa.iter_source(f, ("call", inner.q, inner.b, ()))
            if src is not None:
                plain = all(re.search(r"::iter$|::into_iter$|Iterator>::rev$|Iterator::rev$|Deref>::deref$", a) for a in src[2])
                vec = pa.root(f, push[0].args[0]) if push else (("call", succ_form[1].q, succ_form[1].b, ()) if succ_form and succ_form[1] else None)
                over_refs = src[0][:2] == vec[:2]
        only_end = False
        if inner is not None and len(ex) == 1:
            # the exit edge is the None edge of the iterator
            frm, to = ex[0]
            t = f.blocks[frm]["t"]
            if t[0] == "switch":
                r = pa.root(f, t[1])
                only_end = r[0] == "discr" and r[1][:3] == ("call", inner.q, inner.b)
        ok = plain and over_refs and only_end
        why = "exits %s, plain=%s, over the collected ancestors=%s" % (ex, plain, over_refs)
    # every value is offered: nothing but the private-key test decides whether a name goes up (a JSON null is a value - the
    # way to unset a variable; skipping it leaves the old value in every enclosing scope)
    from vlib.model import conditions_of
    from rules.c01 import gdesc
    conds_ = sorted({gdesc(m, g) for g in conditions_of(m, f, upd[0].b, mode="alias") if not g.neutral})
    extra_ = [d for d in conds_ if not re.search(r"Regex::is_match=False$|^match\(.*Iterator.*next\)=(Some|None)$|^match\(.*branch.*\)=Continue$|is_empty=False$|^match\(Task::parent\)=|^match\(parent\)=", d)
              and not any(re.search(p_, d) for p_ in upd[0].extra_allowed)]
    cx.ob("C07.R6", "update_data:every-value", not extra_,
          "update_data offers every written value to the enclosing scopes (conditions on the hand-up: %s)%s" % (conds_, "" if not extra_ else " - it also depends on %s: such values never reach the scopes that hold the name" % extra_), upd[0].loc)
    cx.ob("C07.R6", "update_data:all-holders", ok,
          "update_data offers the value to every collected ancestor: plain iteration, no exit before the end (a holder left out keeps a stale copy that Task::find - nearest first - or Task::vars - outermost first - reads back) (%s)" % why, upd[0].loc)
    # (c) the holder test: writes iff contains_key(name), the same name
    okc = upd[0].holder_ok
    cx.ob("C07.R6", "update_data:holder-test", okc, "an ancestor is written exactly when it already holds the name (contains_key), with that same name", upd[0].loc)
    # (d) own data always set, with the whole vars
    sd = [c for c in f.calls() if c.q.endswith("Task::set_data")]
    oks = len(sd) == 1 and pa.root(f, sd[0].args[0])[:2] == ("param", 1) and pa.root(f, sd[0].args[1])[:2] == ("param", 2) and all(g.neutral or _loop_end(m, g) for g in guards_of(m, f, sd[0].b, mode="alias"))
    cx.ob("C07.R6", "update_data:own", oks, "the writer's own data always receives the written values", sd[0].loc if sd else f.loc())
    # (e) readers stay inside the ancestry: vars() and find() only step with Task::parent from self
    for name in ("vars", "find"):
        for g in m.find(r"^%s::%s(::<.*>)?$" % (TASK, name)):
            others = [c for c in g.calls() if re.search(r"Task::(children|siblings|prev|next_tasks)$|Process::(task|tasks|root|find_tasks)", c.q)]
            steps = [c for c in g.calls() if c.q.endswith("Task::parent")]
            cx.ob("C07.R6", "%s:ancestry-only" % short_name(g.q).split("<")[0].rstrip(":"), not others and bool(steps), "`%s` reads the task's own data and walks Task::parent only: no value from outside the ancestry" % short_name(g.q), g.loc(), others=[c.q for c in others])
            break
    cx.floor("C07.R6", 6)


def r7_handover(cx):
    """`<Arc<Task>>::review`: `self.update_data(&ctx.task().outputs())` is there and depends only on `is_event_processed`
    (a child that was submitted, skipped, removed .. ends normally too, and a skipped last act relays the outputs of the acts
    before it); `<Arc<Task>>::next`: `self.update_data(&ctx.vars())` depends only on the task being terminal"""
    from rules.c01 import exact_guards
    from rules.c02 import ARC_TASK_IMPL
    m = cx.m
    pa = Prov(m, "alias")
    pv = Prov(m, "value")
    for name, src_pat, required, allowed, what in (
        ("review", r"Task::outputs$", [], [r"^Task::is_event_processed=False$", r"^match\(.*branch.*\)=Continue$"],
         "the reviewing task takes over the outputs of the task that just ended (`self.update_data(&ctx.task().outputs())`), whatever state that task ended in"),
        ("next", r"Context::vars$", [r"^TaskState::is_completed=True$"], [r"^match\(.*branch.*\)=Continue$"],
         "a task that has ended writes the values of its context into its data and the enclosing scopes (`self.update_data(&ctx.vars())`) - for every terminal state"),
    ):
        f = m.one(ARC_TASK_IMPL + name + "$")
        sites = []
        for c in f.calls():
            if c.q.endswith("Task::update_data") and len(c.args) >= 2:
                recv = pa.root(f, c.args[0])
                src = pv.root(f, c.args[1])
                if recv[0] == "param" and recv[1] == 1 and src[0] == "call" and re.search(src_pat, src[1]):
                    sites.append((c, src))
        if not sites:
            cx.ob("C07.R7", "%s:handover" % name, False, what + " - the call was not found: outputs of acts never reach the step / workflow unless an enclosing scope already holds the name", f.loc())
            continue
        c, src = sites[0]
        ok_src = True
        if name == "review":
            # the outputs are those of the context's current task (the child), read before the context is re-targeted
            who = pa.root(f, Call(f, src[2]).args[0])
            ok_src = who[0] == "call" and who[1] == T.Q_CTX_TASK
            st = [x for x in f.calls() if x.q == T.Q_CTX_SET_TASK]
            ok_src = ok_src and all(not f.can_reach(x.b, Call(f, who[2]).b) for x in st) if ok_src else False
            cx.ob("C07.R7", "review:source", ok_src, "the outputs taken over are those of the task the context still points to (the finished child), read before `ctx.set_task(self)`", c.loc)
        exact_guards(cx, "C07.R7", "%s:handover" % name, f, c.b, required, allowed, what, c.loc)
    cx.floor("C07.R7", 3)


def r8_step_proxy(cx):
    """Process::find_tasks / task_by_nid return the tasks of a node oldest first (sorted by start time); the proxies take the
    last one. `first()`, `[0]`, `iter().next()` would resolve to the first round of a step that was run again."""
    m = cx.m
    pa = Prov(m, "alias")
    NEWEST = re.compile(r"slice::<impl \[T\]>::last$|Vec::<T, A>::pop$|Iterator(>)?::last$|DoubleEndedIterator(>)?::next_back$|Iterator(>)?::max_by_key|slice::<impl \[T\]>::last_mut$")
    OLDEST = re.compile(r"slice::<impl \[T\]>::first$|slice::<impl \[T\]>::first_mut$|Iterator(>)?::next$|Iterator(>)?::min_by_key|Vec::<T, A>::remove$|Vec::<T, A>::swap_remove$|slice::<impl \[T\]>::get$|Index<.*>>::index$|Iterator(>)?::nth$")
    SRC = re.compile(r"Process::(find_tasks|task_by_nid)(::<.*>)?$")

    def from_tasks(f, r, depth=0):
        """does root r come (through derefs / iter adaptors) from a find_tasks / task_by_nid result? returns (bool, reversed?)"""
        rev = False
        n = 0
        while r[0] == "call" and n < 8:
            if SRC.search(r[1]):
                return True, rev
            c = Call(f, r[2])
            if re.search(r"Iterator(>)?::rev$", r[1]):
                rev = not rev
            if not c.args:
                break
            r = pa.root(f, c.args[0])
            n += 1
        if r[0] == "local":
            for d in f.defs().get(r[1], []):
                if d[2] == "call" and SRC.search(d[3][1].get("q") or ""):
                    return True, rev
        return False, rev

    n = 0
    for name in ("get_step_value", "set_step_value", "get_inputs", "get_data"):
        fs = [g for q, g in m.fns.items() if re.search(r"^acts::env::moudle::step::step::%s(::\{closure#\d+\})*$" % name, q)]
        sel = []
        for g in fs:
            for c in g.calls():
                if (NEWEST.search(c.q) or OLDEST.search(c.q)) and c.args:
                    ok_src, rev = from_tasks(g, pa.root(g, c.args[0]))
                    if ok_src:
                        newest = bool(NEWEST.search(c.q)) != rev
                        sel.append((c, newest))
        if not sel:
            cx.undecide("C07.R8", "`%s`: no selection of one task out of the tasks of the node was recognised" % name)
            continue
        n += 1
        bad = [c for c, newest in sel if not newest]
        cx.ob("C07.R8", "%s:newest" % name, not bad,
              "`%s` works on the newest task of the step node (`.last()` of the tasks found for the node id)%s" % (
                  name, "" if not bad else " - but it takes `%s`: the oldest instance, i.e. the round a back / redo abandoned" % short_name(bad[0].q)), (bad or [sel[0][0]])[0].loc)
    cx.floor("C07.R8", 4)


def fill_outputs_declared_null(cx, rule):
    m = cx.m
    pa = Prov(m, "alias")
    pv = Prov(m, "value")
    g = m.one(r"^acts::utils::convert::fill_outputs$")
    finds = [c for c in g.calls() if re.search(r"Task::find(::<.*>)?$", c.q)]
    # ... and only then: the lookup is decided by the DECLARED value being null (the placeholder `k:`), not by what a template
    # evaluated to - `k: "{{ expr }}"` whose expression yields null is null, it does not pick up an unrelated variable `k`
    from vlib.model import conditions_of
    okn, whyn = False, "no `is_null` test decides the lookup"
    for c in finds:
        for gd in conditions_of(m, g, c.b, mode="value"):
            r = gd.root
            if r[0] == "call" and r[1].endswith("Value::is_null") and gd.truth is True:
                subj = pv.root(g, Call(g, r[2]).args[0])
                srcn = pa.iter_source(g, ("call", subj[1], subj[2], ())) if subj[0] == "call" else None
                if srcn is not None and srcn[0][0] == "param" and srcn[0][1] == 1:
                    okn, whyn = True, "is_null of the loop element's declared value"
                else:
                    whyn = "the null test is made on %s, not on the declared value of the map that was handed in" % root_str(subj)
    cx.ob(rule, "fill_outputs:lookup-on-declared-null", okn, "the scope lookup is decided by the declared value being null (%s)" % whyn, finds[0].loc if finds else g.loc())
