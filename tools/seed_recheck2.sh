#!/bin/bash
# seed_recheck2.sh <name> <PROP> "<note>" : after a strengthening, re-run all 20 checks against a seeded change (scratch worktree)
NAME=$1; PROP=$2; NOTE=$3
D=/verif/seeded/$NAME
echo "## checks against the change (scratch worktree; re-run after strengthening: $NOTE; the first run of all 20 checks missed it)" > $D/checks.txt
SCRATCH_WT=/tmp/wt/S$NAME HEAD=6 /verif/tools/scratch_try.sh $D/patch.diff all | sed 's/^== //' >> $D/checks.txt
python3 /verif/tools/seed_meta.py $NAME $PROP
python3 - <<PY
import json
p='$D/meta.json'
m=json.load(open(p)); m['initially_missed']=True; m['strengthening']="""$NOTE"""
json.dump(m,open(p,'w'),indent=1)
PY
cat $D/checks.txt | cut -c1-300
git -C /repo worktree remove --force /tmp/wt/S$NAME 2>/dev/null; rm -rf /tmp/wt/S${NAME}_out
