#!/bin/bash
# demos_on_head.sh [scratch worktree] : every seeded demonstration (seeded/<n>/demo.diff, written by an independent agent to FAIL with
# its seeded change and PASS without it) is applied to a scratch worktree of /repo's HEAD *without* the seeded change and run.
# All must pass: a failing one means a repair of /repo re-created a defect an agent had already thought of (that is how the
# first versions of 07e18ba and b2f0436 were found wrong). Never touches /repo; results in $OUT. Not a registered check:
# it runs tests and is a cross-check of the REPAIRS, not of the properties.
W=${1:-/tmp/wt/W}; OUT=${OUT:-/tmp/wt/demos_on_head.txt}
[ -d $W ] || { mkdir -p $(dirname $W); git -C /repo worktree add -q --detach $W HEAD; cp -al /repo/target $W/target 2>/dev/null; rm -rf $W/target/debug/.fingerprint/acts*; cp /repo/Cargo.lock $W/; }
cd $W; git checkout -- . ; git clean -fdq -e target; git checkout -q --detach $(git -C /repo rev-parse HEAD)
: > $OUT
for d in /verif/seeded/C*/; do
  n=$(basename $d); [ -f $d/demo.diff ] || { echo "$n NODEMO" >> $OUT; continue; }
  git checkout -- . ; git clean -fdq -e target
  git apply $d/demo.diff 2>/dev/null || git apply --3way $d/demo.diff 2>/dev/null || { echo "$n DEMO-NOAPPLY" >> $OUT; continue; }
  cmd=$(head -1 $d/demo_cmd.txt)
  if echo "$cmd" | grep -q "\-E '"; then
    filt=$(echo "$cmd" | grep -o "\-E '[^']*'" | head -1 | sed "s/^-E '//; s/'$//"); set -- --workspace -E "$filt"
  elif echo "$cmd" | grep -q "\-\-test "; then
    t=$(echo "$cmd" | grep -o "\-\-test [A-Za-z0-9_]*" | awk '{print $2}'); set -- -p acts --test $t
  else
    pkg=$(echo "$cmd" | grep -o "\-p [a-z_-]*" | head -1); set -- ${pkg:---workspace} "$(echo "$cmd" | awk '{print $NF}')"
  fi
  CARGO_NET_OFFLINE=true timeout 900 cargo nextest run "$@" --offline --no-fail-fast > /tmp/wt/demo_$n.log 2>&1
  s=$(grep "Summary" /tmp/wt/demo_$n.log | tail -1); grep -q "^error\[" /tmp/wt/demo_$n.log && s="BUILD-ERROR"
  echo "$n $s" >> $OUT
done
git checkout -- . ; git clean -fdq -e target
grep -v " passed, [0-9]* skipped" $OUT; grep "failed" $OUT; echo "demonstrations run: $(grep -c passed $OUT)"
