#!/bin/bash
# seed_done.sh <worktree name> <seeded name> <PROP> : confirm a sub-agent's seeded change, run all checks against it, write meta,
# print the verdict, remove the scratch worktrees
W=$1; N=$2; P=$3
/verif/tools/confirm_seed.sh $W $N > /tmp/confirm_$W.log 2>&1
python3 /verif/tools/seed_meta.py $N $P
grep Summary /verif/seeded/$N/confirm.txt | cut -c1-120
tail -n +2 /verif/seeded/$N/checks.txt | cut -c1-${CUT:-300}
git -C /repo worktree remove --force /tmp/wt/$W 2>/dev/null; git -C /repo worktree remove --force /tmp/wt/S$W 2>/dev/null; rm -rf /tmp/wt/S${W}_out /tmp/wt/$W-out
