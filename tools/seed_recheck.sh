#!/bin/bash
# seed_recheck.sh <name> <PROP> "<note>" <CHECK>... : re-run checks against a seeded change after a strengthening
NAME=$1; PROP=$2; NOTE=$3; shift 3
D=/verif/seeded/$NAME
git -C /repo apply $D/patch.diff || exit 3
echo "## checks against the change applied to /repo (re-run after strengthening: $NOTE; the first run of all 20 checks missed it)" > $D/checks.txt
for c in "$@"; do /verif/vcheck $c > /tmp/s.out 2>&1; echo "$c rc=$?" >> $D/checks.txt; grep -E "^  violated|^UNDECIDED" /tmp/s.out | cut -c1-400 | head -6 >> $D/checks.txt; done
git -C /repo checkout -- .
python3 /verif/tools/seed_meta.py $NAME $PROP
python3 - <<PY
import json
p='$D/meta.json'
m=json.load(open(p)); m['initially_missed']=True; m['strengthening']="""$NOTE"""
json.dump(m,open(p,'w'),indent=1)
PY
cat $D/checks.txt
