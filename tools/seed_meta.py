#!/usr/bin/env python3
"""seed_meta.py <name> <PROP> : writes seeded/<name>/meta.json from the agent's meta, confirm.txt and checks.txt"""
import json, os, sys, re
name, prop = sys.argv[1], sys.argv[2]
d = os.path.join("/verif/seeded", name)
am = {}
try:
    am = json.load(open(os.path.join(d, "agent_meta.json")))
except Exception:
    pass
confirm = open(os.path.join(d, "confirm.txt")).read()
checks = open(os.path.join(d, "checks.txt")).read()
caught = sorted(set(re.findall(r"^(C\d\d) rc=1", checks, re.M)))
undec = sorted(set(re.findall(r"^(C\d\d) rc=2", checks, re.M)))
rules = sorted(set(re.findall(r"violated: \[(C\d\d\.R\w+)\|", checks)))
meta = {
    "property": prop,
    "breaks": am.get("why_breaks") or am.get("summary"),
    "summary": am.get("summary"),
    "needs": am.get("needs"),
    "source": "independent sub-agent given only the property text and a scratch worktree",
    "confirmed": {
        "suite_with_change": re.findall(r"Summary.*", confirm)[0] if re.findall(r"Summary.*", confirm) else None,
        "demo_with_change_fails": "FAIL" in confirm.split("## demo without")[0].split("## demo with the change")[1],
        "demo_without_change_passes": ("PASS" in confirm.split("## demo without the change")[1]) or ("test result: ok" in confirm.split("## demo without the change")[1]),
        "what_was_run": "tools/confirm_seed.sh: full nextest suite in the scratch worktree with the change; the demonstration with and without patch.diff; every ./vcheck CNN with patch.diff applied to /repo (reverted afterwards)",
    },
    "caught_by_properties": caught,
    "caught_by_rules": rules,
    "undecided": undec,
}
json.dump(meta, open(os.path.join(d, "meta.json"), "w"), indent=1)
print(json.dumps({k: meta[k] for k in ("property", "caught_by_properties", "caught_by_rules", "undecided")}))
