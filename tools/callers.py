#!/usr/bin/env python3
"""callers.py <regex>... : non-test call sites of functions whose qualified name matches"""
import re, sys
sys.path.insert(0, "/verif")
from vlib import facts
from vlib.model import Model
data, meta = facts.load("quick")
m = Model(data)
for pat in sys.argv[1:]:
    for f in m.fns.values():
        for c in f.calls():
            if re.search(pat, c.q):
                print(pat, "<-", f.q, c.loc, c.kind)
