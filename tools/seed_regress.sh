#!/bin/bash
# seed_regress.sh [lanes] : regression run of the whole seeded corpus against the current rules. For every seeded/<n>/patch.diff:
# apply to a scratch worktree, run all 20 checks, compare the set of rules that fire with meta.json's caught_by_rules.
# Prints one line per seeded change: OK (same or more rules) / LOST (a rule that caught it no longer fires) / MISSED (nothing fires).
exec 9>/tmp/regress.lock; flock 9   # one regression at a time (they share scratch worktrees)
LANES=${1:-3}
# the checks run from a snapshot of the code, so that /verif can be edited while the regression runs
export VCODE=/tmp/vsnap_regress; rm -rf $VCODE; mkdir -p $VCODE
rsync -a --exclude .git --exclude .cache --exclude seeded --exclude benign --exclude evidence --exclude reports /verif/ $VCODE/
ln -s /verif/.cache $VCODE/.cache
OUT=/tmp/seed_regress; rm -rf $OUT; mkdir -p $OUT
ls -d /verif/seeded/C*/ | xargs -n1 basename > $OUT/list
run_lane() {
  lane=$1
  export SCRATCH_WT=/tmp/wt/R$lane
  i=0
  while read n; do
    i=$((i+1)); [ $((i % LANES)) -eq $((lane % LANES)) ] || continue
    HEAD=40 CUT=200 $VCODE/tools/scratch_try.sh /verif/seeded/$n/patch.diff all > $OUT/$n.txt 2>&1
    python3 - "$n" <<'PY' >> /tmp/seed_regress/summary.txt
import json, re, sys
n = sys.argv[1]
meta = json.load(open("/verif/seeded/%s/meta.json" % n))
txt = open("/tmp/seed_regress/%s.txt" % n).read()
now = set(re.findall(r"violated: \[(C\d\d\.R\w+)\|", txt))
und = set(re.findall(r"^== (C\d\d) rc=2", txt, re.M))
was = set(meta.get("caught_by_rules") or [])
if "does not apply" in txt:
    st = "NOAPPLY"
elif was and not (was <= now):
    st = "LOST" if now else "MISSED"
elif not was and not now:
    st = "missed-as-before"
else:
    st = "OK"
print("%-8s %-18s was=%s now=%s undecided=%s" % (n, st, sorted(was), sorted(now), sorted(und)))
PY
  done < $OUT/list
}
export LANES
for l in $(seq 1 $LANES); do run_lane $l & done
wait
sort $OUT/summary.txt
for l in $(seq 1 $LANES); do git -C /repo worktree remove --force /tmp/wt/R$l 2>/dev/null; rm -rf /tmp/wt/R${l}_out; done
