#!/bin/bash
# benign_check.sh <dir with rNN.diff> <label> : for every behaviour-preserving patch, apply it to a scratch worktree of
# /repo (/tmp/wt/B, ACTS_REPO), run all 20 checks in parallel, record every non-zero exit (= false alarm or undecided),
# revert. Results in /verif/benign/<label>/. Never touches /repo or /verif/evidence.
D=$1; L=$2; OUT=/verif/benign/$L; mkdir -p $OUT
B=/tmp/wt/B
if [ ! -d $B ]; then git -C /repo worktree add -q --detach $B HEAD && cp -al /repo/target $B/target; fi
git -C $B checkout -q --detach $(git -C /repo rev-parse HEAD) 2>/dev/null
export ACTS_REPO=$B VCHECK_SCRATCH_OUT=/tmp/benign_out
mkdir -p /tmp/benign_out
for p in $D/r*.diff; do
  n=$(basename $p .diff)
  cp $p $OUT/$n.diff
  git -C $B checkout -- . ; git -C $B apply $p 2>/dev/null || { echo "$n: patch does not apply" | tee $OUT/$n.result; continue; }
  /verif/vcheck C13 > /dev/null 2>&1   # warms the facts cache for this tree
  printf "%s\n" 01 02 03 04 05 06 07 08 09 10 11 12 13 14 15 16 17 18 19 20 | xargs -P 10 -I{} sh -c '/verif/vcheck C{} > /tmp/benign_out/C{}.out 2>&1; echo "C{} rc=$?" > /tmp/benign_out/C{}.rc'
  : > $OUT/$n.result
  for i in 01 02 03 04 05 06 07 08 09 10 11 12 13 14 15 16 17 18 19 20; do
    rc=$(cat /tmp/benign_out/C$i.rc)
    case "$rc" in *"rc=0") ;; *) echo "$rc" >> $OUT/$n.result; grep -E "^  violated|^UNDECIDED|^ERROR|Traceback" /tmp/benign_out/C$i.out | cut -c1-400 | head -5 >> $OUT/$n.result;; esac
  done
  git -C $B checkout -- .
  if [ -s $OUT/$n.result ]; then echo "== $n ALARM"; cat $OUT/$n.result; else echo "== $n quiet"; echo quiet > $OUT/$n.result; fi
done
