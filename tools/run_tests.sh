#!/bin/sh
# the repository's pinned baseline (661 tests); no guard/feature is involved: static analysis adds no hooks
cd /repo && CARGO_NET_OFFLINE=true cargo nextest run --workspace --no-fail-fast --tool-config-file pb:/w/lib/nextest.toml --profile pb --test-threads 8 --offline 2>&1 | tail -15 \
  || (cd /repo && CARGO_NET_OFFLINE=true cargo test --workspace --no-fail-fast --offline 2>&1 | grep -E "^test result|FAILED|failed")
