#!/bin/bash
# confirm_seed.sh <PROP> [<name>] : in the sub-agent's scratch worktree /tmp/wt/<PROP>: (1) full suite with the change,
# (2) demonstration with the change (must fail), (3) demonstration without the change (must pass); then copy the
# artefacts to /verif/seeded/<name>/ and run every check against the change applied to /repo (reverted afterwards).
P=$1; NAME=${2:-$1}; WT=/tmp/wt/$P; OUT=/tmp/wt/$P-out; DEST=/verif/seeded/$NAME
mkdir -p $DEST
cp $OUT/patch.diff $DEST/patch.diff; cp $OUT/demo.diff $DEST/demo.diff 2>/dev/null; cp $OUT/demo_cmd.txt $DEST/demo_cmd.txt 2>/dev/null; cp $OUT/meta.json $DEST/agent_meta.json 2>/dev/null
cd $WT || exit 3
DEMO=$(cat $OUT/demo_cmd.txt | grep -v '^#' | head -1 | sed "s#cd $WT && ##")
echo "## suite with the change" > $DEST/confirm.txt
(CARGO_NET_OFFLINE=true cargo nextest run --workspace --no-fail-fast --offline 2>&1 | grep -E "Summary|FAIL \[" | head -8) >> $DEST/confirm.txt
echo "## demo with the change: $DEMO" >> $DEST/confirm.txt
(cd $WT && eval "CARGO_NET_OFFLINE=true $DEMO" 2>&1 | grep -E "Summary|test result|panicked|assert|FAIL|PASS" | head -8) >> $DEST/confirm.txt
git apply -R $OUT/patch.diff || { echo "cannot revert patch" >> $DEST/confirm.txt; }
echo "## demo without the change" >> $DEST/confirm.txt
(cd $WT && eval "CARGO_NET_OFFLINE=true $DEMO" 2>&1 | grep -E "Summary|test result|panicked|assert|FAIL|PASS" | head -8) >> $DEST/confirm.txt
git apply $OUT/patch.diff
cat $DEST/confirm.txt
echo "## checks against the change (applied to a scratch worktree of /repo's HEAD, tools/scratch_try.sh)" > $DEST/checks.txt
# the checks run from a snapshot of the code taken now (so that /verif can be edited while they run)
export VCODE=/tmp/vsnap_$P; rm -rf $VCODE; mkdir -p $VCODE
rsync -a --exclude .git --exclude .cache --exclude seeded --exclude benign --exclude evidence --exclude reports /verif/ $VCODE/; ln -s /verif/.cache $VCODE/.cache
SCRATCH_WT=/tmp/wt/S$P HEAD=6 $VCODE/tools/scratch_try.sh $OUT/patch.diff all | sed 's/^== //' >> $DEST/checks.txt
cat $DEST/checks.txt
rm -rf $VCODE
