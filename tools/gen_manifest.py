#!/usr/bin/env python3
"""regenerates MANIFEST.json from tables/claims.json (one entry per property: claimed or not applicable)"""
import json, os
V = os.path.dirname(os.path.dirname(os.path.abspath(__file__)))
claims = json.load(open(os.path.join(V, "tables", "claims.json")))
props = [json.loads(l) for l in open(os.path.join(V, "properties.jsonl"))]
checks, na = [], []
for p in props:
    pid = p["id"]
    c = claims.get(pid)
    if c and c.get("claimed"):
        checks.append({
            "property_id": pid,
            "quick_cmd": "./vcheck %s --tier quick" % pid,
            "thorough_cmd": "./vcheck %s --tier thorough" % pid,
            "evidence_file": "/verif/evidence/%s.json" % pid,
            "replay_cmd_template": "./vcheck replay {path}",
            "engine": "acts-facts+vlib",
            "level_claimed": {"category": "other", "text": c["level_text"], "design_ref": "DESIGN.md section 5, %s" % pid},
            "level_note": c["level_note"],
            "technique": c["technique"],
        })
    else:
        na.append({"property_id": pid, "reason": (c or {}).get("reason", "no static rule implemented yet in this round; see DESIGN.md section 5 for the planned clause-level rules")})
man = {
    "version": 1,
    "setup_cmd": "./vcheck setup",
    "hooks": {
        "guard": "none",
        "enable": "static analysis needs no instrumentation: checks read the MIR of the unmodified sources (cargo +nightly check with the acts-facts driver as RUSTC_WORKSPACE_WRAPPER)",
        "baseline_off_cmd": "/verif/tools/run_tests.sh",
        "source_commits": [],
        "add_only": True,
    },
    "engines": [
        {"name": "acts-facts", "path": "driver/", "serves_properties": [c["property_id"] for c in checks],
         "kind_free_text": "rustc_private driver: dumps type-checked MIR, resolved callees, constants, ADTs, trait impls, regex HIR as JSON facts"},
        {"name": "vlib", "path": "vlib/", "serves_properties": [c["property_id"] for c in checks],
         "kind_free_text": "Python analysis library: CFG/dominators, provenance, guards, enum-function tables, mapper agreement, typestate analysis; rules/ holds one module per property"},
    ],
    "checks": checks,
    "not_applicable": na,
    "notes": "Technique family: static analysis only. Every check inspects /repo's current working tree (facts cached by a hash over all files outside .git/ and target/). Exit 0 = all obligations discharged (KNOWN-FINDING lines for listed defects), 1 = VIOLATION, 2 = UNDECIDED (an anchor could not be analysed; never a pass).",
}
json.dump(man, open(os.path.join(V, "MANIFEST.json"), "w"), indent=1)
print("claimed:", [c["property_id"] for c in checks], "not applicable:", [n["property_id"] for n in na])
