#!/bin/sh
# try_mutant.sh <patch.diff> <PROP> [<PROP>...] : apply a patch to /repo, run the checks, undo it
P=$1; shift
git -C /repo apply "$P" || { echo "patch does not apply"; exit 3; }
for prop in "$@"; do
  /verif/vcheck $prop > /tmp/mutant_$prop.out 2>&1; rc=$?
  echo "== $prop rc=$rc"; grep -E "^VIOLATION|^UNDECIDED|^  violated|^ERROR" /tmp/mutant_$prop.out | cut -c1-300 | head -12
done
git -C /repo checkout -- .
