#!/usr/bin/env python3
"""regenerates seeded/INDEX.md and the table of DESIGN.md section 11.7 from seeded/*/meta.json"""
import json, glob, os, re
rows = []
for p in sorted(glob.glob("/verif/seeded/*/meta.json")):
    m = json.load(open(p))
    name = p.split("/")[-2]
    rows.append((name, m))
lines = ["| seeded change | property | what it does | needs | caught by | first run |", "|---|---|---|---|---|---|"]
for name, m in rows:
    first = "obsolete after a repair" if m.get("status") == "obsolete" else ("missed / imprecise -> strengthened" if m.get("initially_missed") else "caught")
    lines.append("| %s | %s | %s | %s | %s | %s |" % (
        name, m["property"], (m.get("summary") or "").replace("|", "/").replace("\n", " ")[:260],
        (m.get("needs") or "").replace("|", "/").replace("\n", " ")[:200],
        ", ".join(m.get("caught_by_rules") or []) or "-", first))
notes = []
for name, m in rows:
    if m.get("strengthening"):
        notes.append("* **%s**: %s" % (name, m["strengthening"]))
body = "\n".join(lines) + "\n\nStrengthenings made after a seeded change was missed or caught for the wrong reason:\n\n" + "\n".join(notes) + "\n"
open("/verif/seeded/INDEX.md", "w").write("# Seeded changes (independent sub-agents; property text + scratch worktree only)\n\n"
    "Each directory holds patch.diff (library change), demo.diff + demo_cmd.txt (a test that fails with the change and passes without), "
    "agent_meta.json (the agent's own account), confirm.txt (suite + demo re-run by tools/confirm_seed.sh), checks.txt (all 20 checks against the change applied to /repo) and meta.json.\n\n" + body)
d = open("/verif/DESIGN.md").read()
start = d.index("### 11.7 Which checks catch which seeded changes")
end = d.index("---------------------------------------------------------------------------------------------", start)
d = d[:start] + "### 11.7 Which checks catch which seeded changes\n\n" + body + "\n" + d[end:]
open("/verif/DESIGN.md", "w").write(d)
print(len(rows), "seeded changes indexed")
