#!/bin/bash
# benign_regress.sh [lanes] : every behaviour-preserving patch of benign/R*/r*.diff against the current rules (snapshot of the
# code, scratch worktrees). Any non-zero exit of a check is a false alarm (or an UNDECIDED). Rewrites benign/R*/rNN.result.
exec 9>/tmp/regress.lock; flock 9   # one regression at a time (they share scratch worktrees)
LANES=${1:-2}
export VCODE=/tmp/vsnap_benign; rm -rf $VCODE; mkdir -p $VCODE
rsync -a --exclude .git --exclude .cache --exclude seeded --exclude benign --exclude evidence --exclude reports /verif/ $VCODE/
ln -s /verif/.cache $VCODE/.cache
ls ${BENIGN_GLOB:-/verif/benign/R*/r*.diff} > /tmp/benign_list
run_lane() {
  lane=$1; export SCRATCH_WT=/tmp/wt/BL$lane; i=0
  while read p; do
    i=$((i+1)); [ $((i % LANES)) -eq $((lane % LANES)) ] || continue
    out=${p%.diff}.result
    HEAD=6 CUT=400 $VCODE/tools/scratch_try.sh $p all > $out.tmp 2>&1
    if [ -s $out.tmp ]; then mv $out.tmp $out; echo "ALARM $p"; else echo quiet > $out; rm -f $out.tmp; echo "quiet $p"; fi
  done < /tmp/benign_list
}
export LANES
for l in $(seq 1 $LANES); do run_lane $l & done
wait
for l in $(seq 1 $LANES); do git -C /repo worktree remove --force /tmp/wt/BL$l 2>/dev/null; rm -rf /tmp/wt/BL${l}_out; done
