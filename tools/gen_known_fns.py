#!/usr/bin/env python3
"""gen_known_fns.py : (re)writes tables/known_fns.json - the paths (names and, for recognising a moved or renamed function, its arity / return type / callee multiset) of every function of the tree the rules were
written against. vlib/inline.py inlines any function that is NOT in this list into its callers, so that a body moved into a new
helper is still seen at its anchor. Re-run after a `fix:` commit in /repo that adds a function."""
import json, os, sys
sys.path.insert(0, os.path.dirname(os.path.dirname(os.path.abspath(__file__))))
from vlib import facts
data, meta = facts.load("thorough")
from vlib.inline import fingerprint
fns = {f["q"]: fingerprint(f) for j in data for f in j["fns"] if "{closure" not in f["q"]}
fns = dict(sorted(fns.items()))
out = {"_comment": "function paths of /repo at the tree the rules were written against (tree %s); names and, for recognising a moved or renamed function, its arity / return type / callee multiset" % meta["tree_hash"], "fns": fns}
json.dump(out, open(os.path.join(os.path.dirname(os.path.dirname(os.path.abspath(__file__))), "tables", "known_fns.json"), "w"), indent=0)
print(len(fns), "functions")
