#!/bin/bash
# scratch_try.sh <patch.diff> <PROP>... : apply a patch to a scratch worktree of /repo (/tmp/wt/S, never /repo itself),
# run the named checks against it (ACTS_REPO), print their verdict lines, revert. "all" = all 20 checks in parallel.
P=$(readlink -f "$1"); shift
S=${SCRATCH_WT:-/tmp/wt/S}
if [ ! -d $S ]; then mkdir -p /tmp/wt; git -C /repo worktree add -q --detach $S HEAD; cp /repo/Cargo.lock $S/; fi
git -C $S checkout -q --detach $(git -C /repo rev-parse HEAD) 2>/dev/null; git -C $S checkout -- . ; git -C $S clean -fdq -e target
git -C $S apply "$P" || { echo "patch does not apply"; exit 3; }
export ACTS_REPO=$S VCHECK_SCRATCH_OUT=${S}_out
mkdir -p ${S}_out
if [ "$1" = "all" ]; then
  ${VCODE:-/verif}/vcheck C13 > /dev/null 2>&1
  printf "%s\n" 01 02 03 04 05 06 07 08 09 10 11 12 13 14 15 16 17 18 19 20 | xargs -P 10 -I{} sh -c "${VCODE:-/verif}/vcheck C{} > ${S}_out/C{}.out 2>&1; echo \"C{} rc=\$?\" > ${S}_out/C{}.rc"
  for i in 01 02 03 04 05 06 07 08 09 10 11 12 13 14 15 16 17 18 19 20; do
    rc=$(cat ${S}_out/C$i.rc); case "$rc" in *"rc=0") ;; *) echo "== $rc"; grep -E "^  violated|^UNDECIDED|^ERROR|Traceback" ${S}_out/C$i.out | cut -c1-${CUT:-400} | head -${HEAD:-8};; esac
  done
else
  for prop in "$@"; do
    ${VCODE:-/verif}/vcheck $prop > ${S}_out/$prop.out 2>&1; rc=$?
    echo "== $prop rc=$rc"; grep -E "^  violated|^UNDECIDED|^ERROR|Traceback" ${S}_out/$prop.out | cut -c1-${CUT:-400} | head -${HEAD:-12}
  done
fi
git -C $S checkout -- . ; git -C $S clean -fdq -e target
