#!/usr/bin/env python3
"""dump.py <regex> [tier] : print the MIR facts of the functions whose qualified name matches"""
import sys, os, json
sys.path.insert(0, os.path.dirname(os.path.dirname(os.path.abspath(__file__))))
from vlib import facts
from vlib.model import Model, short_name

def opstr(o):
    if o[0]=='k':
        c=o[1]
        for k in ('str','int','fn','closure','zst','uneval','alloc','tyconst','param'):
            if k in c: return '%s:%r'%(k,c[k]) + ('#%s'%c['promoted'] if c.get('promoted') is not None else '')
        return 'const'
    return ('' if o[0]=='c' else 'mv ')+plstr(o[1])
def plstr(p):
    s='_%d'%p[0]
    for e in p[1]:
        if e=='*': s='(*%s)'%s
        elif e[0]=='f': s+='.'+e[2]
        elif e[0]=='d': s='(%s as %s)'%(s,e[1])
        elif e[0]=='i': s+='[_%d]'%e[1]
        else: s+='?'
    return s
def rvstr(rv):
    k=rv[0]
    if k=='use': return opstr(rv[1])
    if k in('ref','addr'): return ('&mut ' if (len(rv)>2 and rv[2]) else '&')+plstr(rv[1])
    if k=='agg': return '%s::%s{%s}'%(rv[1].split('::')[-1],rv[2],', '.join('%s: %s'%(f,opstr(o)) for f,o in zip(rv[3],rv[4])))
    if k in('tuple','array'): return k+'('+', '.join(opstr(o) for o in rv[1])+')'
    if k in('closure','coroutine'): return k+' '+rv[1]+'['+', '.join(opstr(o) for o in rv[2])+']'
    if k=='cast': return '%s as %s (%s)'%(opstr(rv[2]),rv[4],rv[1])
    if k=='bin': return '%s(%s, %s)'%(rv[1],opstr(rv[2]),opstr(rv[3]))
    if k=='un': return '%s(%s)'%(rv[1],opstr(rv[2]))
    if k=='discr': return 'discr(%s)'%plstr(rv[1])
    if k=='len': return 'len(%s)'%plstr(rv[1])
    return str(rv)
def dump(f):
    print('fn',f.q,' [%s:%d]'%(f.file,f.line),'argc',f.argc,'ret',f.locals[0])
    print('   names',f.names,'upvars',f.upvars)
    for bi,b in enumerate(f.blocks):
        for s in b['s']:
            if s[0]=='A': print('  bb%d: %s = %s   // L%d'%(bi,plstr(s[1]),rvstr(s[2]),s[3]))
            else: print('  bb%d: %s'%(bi,s))
        t=b['t']
        if t[0]=='call':
            print('  bb%d: %s = %s(%s) -> bb%s   // L%d [%s]'%(bi,plstr(t[3]),t[1].get('full') or t[1].get('q') or t[1],', '.join(opstr(a) for a in t[2]),t[4],t[5],t[1].get('k')))
        elif t[0]=='switch':
            print('  bb%d: switch %s %s else bb%d'%(bi,opstr(t[1]),t[2],t[3]))
        elif t[0]=='drop': print('  bb%d: drop -> bb%d'%(bi,t[2]))
        else: print('  bb%d: %s'%(bi,t))
    for i,p in enumerate(f.promoted):
        print(' promoted#%d'%i); dump(p)
if __name__=='__main__':
    data,meta=facts.load(sys.argv[2] if len(sys.argv)>2 else 'quick')
    m=Model(data)
    for f in m.find(sys.argv[1]): dump(f)
