"""obligations, findings, known-findings handling, evidence and report files"""
import hashlib
import json
import os
import time

VERIF = os.path.dirname(os.path.dirname(os.path.abspath(__file__)))


class Obligation:
    __slots__ = ("rule", "key", "ok", "desc", "loc", "details")

    def __init__(self, rule, key, ok, desc, loc=None, details=None):
        self.rule, self.key, self.ok, self.desc, self.loc, self.details = rule, key, ok, desc, loc, details or {}

    def to_json(self):
        d = {"rule": self.rule, "key": self.key, "verdict": "discharged" if self.ok else "VIOLATED",
             "obligation": self.desc}
        if self.loc:
            d["site"] = self.loc
        if self.details:
            d["details"] = self.details
        return d


class Cx:
    """what a rule module gets: the model, shared engines, and the obligation recorder"""

    def __init__(self, model, prop, tier, meta):
        self.m = model
        self.prop = prop
        self.tier = tier
        self.meta = meta
        self.obs = []
        self.rules = {}
        self.undecided = []
        self.notes = []
        self.selftest = None
        self._cache = {}

    def rule(self, rid, kind, text):
        self.rules[rid] = {"kind": kind, "text": text, "instances": 0}

    def ob(self, rule, key, ok, desc, loc=None, **details):
        assert rule in self.rules, rule
        k = "%s|%s" % (rule, key)
        n = sum(1 for o in self.obs if o.key == k or o.key.startswith(k + "#"))
        if n:
            k = "%s#%d" % (k, n + 1)
        self.obs.append(Obligation(rule, k, bool(ok), desc, loc, details))
        self.rules[rule]["instances"] += 1
        return ok

    def floor(self, rule, n, what="instances"):
        have = self.rules[rule]["instances"]
        self.rules[rule]["floor"] = n
        if have < n:
            self.undecided.append("rule=%s reason=only %d %s found, floor (counted by hand on the pinned tree) is %d" % (rule, have, what, n))

    def undecide(self, rule, reason):
        self.undecided.append("rule=%s reason=%s" % (rule, reason))

    def note(self, text):
        self.notes.append(text)

    def shared(self, key, make):
        if key not in self._cache:
            self._cache[key] = make()
        return self._cache[key]


def load_known():
    p = os.path.join(VERIF, "known_findings.json")
    if not os.path.exists(p):
        return []
    with open(p) as fh:
        return json.load(fh)["findings"]


def finish(cx, t0, seed=0):
    """prints the report, writes reports/ and evidence/, returns the exit code"""
    prop = cx.prop
    known = [k for k in load_known() if k.get("status") == "known" and k.get("property") == prop]
    known_keys = {k["key"]: k for k in known}
    viol = [o for o in cx.obs if not o.ok]
    print("== %s: %d rules, %d obligations, %d discharged (tier=%s, tree=%s, %d functions analysed)" % (
        prop, len(cx.rules), len(cx.obs), len(cx.obs) - len(viol), cx.tier, cx.meta["tree_hash"], len(cx.m.fns)))
    for rid, r in cx.rules.items():
        nv = sum(1 for o in cx.obs if o.rule == rid and not o.ok)
        print("   %-8s %-5s instances=%-3d%s violated=%d  %s" % (
            rid, r["kind"], r["instances"], (" floor=%d" % r["floor"]) if "floor" in r else "", nv, r["text"]))
    import os as _os
    if _os.environ.get("VCHECK_VERBOSE"):
        for o in cx.obs:
            print("   %s [%s] %s%s" % ("ok  " if o.ok else "FAIL", o.key, o.desc[:int(os.environ.get("VCHECK_DESC", "200"))], (" @" + o.loc) if o.loc else ""))
    for q_, hs in (cx.meta.get("inlined_helpers") or {}).items():
        print("   NOTE new helper(s) %s inlined into %s" % (sorted(set(h.split("::")[-1] for h in hs)), q_.split("::")[-1]))
    for n in cx.notes:
        print("   NOTE " + n)
    st = cx.selftest
    if st:
        if "error" in st:
            print("   SELFTEST not run: %s" % st["error"])
        else:
            ks = st.get("seeded", [])
            kb = st.get("benign", [])
            print("   SELFTEST (the rules against their own decision boundary, scratch copies of this tree): %d/%d seeded changes reported, %d/%d behaviour-preserving patches quiet, %d skipped (do not apply to this tree)" % (
                sum(1 for x in ks if x["ok"]), len(ks), sum(1 for x in kb if x["ok"]), len(kb), len(st.get("skipped", []))))
            for x in ks:
                print("   SELFTEST seeded %-8s %s rules=%s" % (x["patch"], "reported" if x["ok"] else "NOT REPORTED (exit %d)" % x["exit"], x["rules"]))
            for x in kb:
                print("   SELFTEST benign %-22s %s" % (x["patch"], "quiet" if x["ok"] else "ALARM (exit %d) %s" % (x["exit"], x["rules"])))
    rc = 0
    new = []
    repdir = os.path.join(os.environ.get("VCHECK_SCRATCH_OUT", VERIF), "reports", prop)
    for o in viol:
        if o.key in known_keys:
            print("KNOWN-FINDING: property=%s %s [%s] %s" % (prop, known_keys[o.key]["what"], o.key, o.loc or ""))
        else:
            new.append(o)
    if new:
        os.makedirs(repdir, exist_ok=True)
    for o in new:
        h = hashlib.sha1(o.key.encode()).hexdigest()[:10]
        path = os.path.join(repdir, "%s-%s.json" % (o.rule, h))
        with open(path, "w") as fh:
            json.dump({"property": prop, "tree_hash": cx.meta["tree_hash"], **o.to_json(),
                       "rule_text": cx.rules[o.rule]["text"]}, fh, indent=1)
        print("  violated: [%s] %s" % (o.key, o.desc))
        if o.loc:
            print("            at %s" % o.loc)
        for k, v in o.details.items():
            print("            %s: %s" % (k, v if isinstance(v, str) else json.dumps(v)))
        print("VIOLATION property=%s replay=%s" % (prop, path))
        rc = 1
    for u in cx.undecided:
        print("UNDECIDED property=%s %s" % (prop, u))
    if cx.undecided and rc == 0:
        rc = 2
    stale = [k for k in known_keys if k not in {o.key for o in viol}]
    for k in stale:
        print("   NOTE known finding no longer present (repaired?): %s" % k)
    write_evidence(cx, t0, seed, len(new), len(viol) - len(new))
    if rc == 0:
        print("OK %s: every obligation discharged%s" % (prop, (" (%d known findings)" % (len(viol))) if viol else ""))
    return rc


def write_evidence(cx, t0, seed, nviol, nknown):
    prop = cx.prop
    obs = cx.obs
    distinct = len({o.key for o in obs})
    # samples: violated first, then up to 3 per rule
    samples = [o.to_json() for o in obs if not o.ok]
    per = {}
    for o in obs:
        if o.ok and per.get(o.rule, 0) < 3:
            per[o.rule] = per.get(o.rule, 0) + 1
            samples.append(o.to_json())
    ev = {
        "property_id": prop,
        "tier": cx.tier,
        "seed": int(seed),
        "level": "other",
        "coverage": {
            "explanation": "Static analysis of the type-checked MIR of /repo's working tree (tree %s; %d function bodies of crates %s). "
                           "Each rule enumerates its finite instance space (call sites, fields, enum variants, paths of an inlined CFG) completely and "
                           "records one obligation per instance; nothing of acts is executed. Decides the structural clauses named in the rules, "
                           "not the whole behavioural property (see DESIGN.md section 5 for the clauses left undecided)." % (
                               cx.meta["tree_hash"], len(cx.m.fns), ",".join(cx.meta["crates"])),
            "obligations": len(obs),
            "discharged": sum(1 for o in obs if o.ok),
            "evaluations": len(obs),
            "distinct_nontrivial": distinct,
            "rule": "one obligation per rule instance found in the MIR facts; distinct = distinct (rule, function, site/field/variant) keys; "
                    "an instance is non-trivial when the rule had to inspect resolved callees, guards, provenance or enum tables to decide it (all are)",
            "samples": samples[:60],
            "exhaustive": True,
            "rules": {rid: {"kind": r["kind"], "instances": r["instances"], "floor": r.get("floor"), "text": r["text"]} for rid, r in cx.rules.items()},
            "functions_analysed": len(cx.m.fns),
            "tree_hash": cx.meta["tree_hash"],
            "facts_fresh": cx.meta["facts_fresh"],
            "inlined_helpers": cx.meta.get("inlined_helpers") or {},
            "known_findings_reported": nknown,
            "undecided": cx.undecided,
            "selftest": cx.selftest,
            "trusted_base": ["rustc nightly MIR (mir-opt-level=0) is a faithful image of the program",
                             "driver/src/main.rs decoding of constants and resolved callees",
                             "DESIGN.md section 3 assumptions A1-A7"],
        },
        "assumptions": ["sequential semantics per task (A2)", "closed world = the workspace (A6)",
                        "library semantics of std/serde/sea-query/globset/regex are trusted (A5)"],
        "wall_s": round(time.time() - t0, 2),
        "violations": nviol,
    }
    # VCHECK_SCRATCH_OUT redirects evidence / reports of experiments on scratch copies (tools/benign_check.sh); the
    # registered commands never set it
    outbase = os.environ.get("VCHECK_SCRATCH_OUT", VERIF)
    os.makedirs(os.path.join(outbase, "evidence"), exist_ok=True)
    with open(os.path.join(outbase, "evidence", prop + ".json"), "w") as fh:
        json.dump(ev, fh, indent=1)
