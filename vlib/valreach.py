"""value-indexed reachability: which blocks of ONE function are reachable when a captured enum value
(the result of calls matching `cap_pat`, e.g. `Process::state()`) has a given variant. Branches on
tabulated predicates of that value and `match`es on it are decided with the E5 tables; every
other branch is followed both ways. A light, intraprocedural cousin of the TS engine."""
import re

from .model import Call, Prov


def blocks_by_value(m, tables, f, cap_pat, adt, pred_pat=r"^acts::scheduler::state::TaskState::(is_[a-z_]+)$", recv_ok=None):
    pa = Prov(m, "alias")
    cap = re.compile(cap_pat)
    pred = re.compile(pred_pat)
    byd = {n: d for n, d in m.variants(adt)}
    out = {}

    def is_cap(r):
        if not (r[0] == "call" and cap.search(r[1]) and not r[3]):
            return False
        if recv_ok is None:
            return True
        c = Call(f, r[2])
        return bool(c.args) and recv_ok(pa.root(f, c.args[0]))

    # bool / Result temporaries with constant definitions (`matches!(state, A | B)`, a flag set in the arms of a match):
    # carried along each walk so that the branch on the temporary is taken the way its definition on this path says
    sets, switches = f._corr()
    for v in byd:
        seen = set()
        seen_st = set()
        work = [(0, ())]
        while work:
            b, facts = work.pop()
            if b in sets:
                d = dict(facts)
                for loc, val in sets[b]:
                    if isinstance(val, tuple) and val and val[0] == "copy":
                        val = d.get(val[1])
                    d[loc] = val
                facts = tuple(sorted(d.items(), key=repr))
            if (b, facts) in seen_st:
                continue
            seen_st.add((b, facts))
            seen.add(b)
            t = f.blocks[b]["t"]
            if t[0] == "switch" and b in switches:
                loc, tg = switches[b]
                val = dict(facts).get(loc)
                if val is not None and not isinstance(val, tuple) and val in tg:
                    work.append((tg[val], facts))
                    continue
            if t[0] == "switch":
                r = pa.root(f, t[1])
                neg = False
                while r[0] == "not":
                    neg = not neg
                    r = r[1]
                tgt = None
                if r[0] == "call" and pred.match(r[1]) and not r[3]:
                    a = pa.root(f, Call(f, r[2]).args[0])
                    if is_cap(a):
                        val = tables[pred.match(r[1]).group(1)][v]
                        val = (not val) if neg else val
                        tgt = t[3]
                        for sv, tb in t[2]:
                            if int(sv) == (1 if val else 0):
                                tgt = tb
                elif r[0] == "discr" and is_cap(r[1]):
                    tgt = t[3]
                    for sv, tb in t[2]:
                        if int(sv) == byd[v]:
                            tgt = tb
                if tgt is not None:
                    work.append((tgt, facts))
                    continue
            for s in f.succ(b):
                work.append((s, facts))
        out[v] = seen
    return out


def values_reaching(by_value, block):
    return {v for v, bs in by_value.items() if block in bs}
