"""K6 (DESIGN Appendix B.6): classification of how the `Result<_, ActError>` value of a call is consumed"""
import re

from .model import Call, Prov, short_name

SWALLOW = re.compile(r"^std::result::Result::<T, E>::(ok|unwrap_or|unwrap_or_default|is_ok|is_err|is_ok_and|is_err_and|err|iter)$")
ADAPT = re.compile(r"^std::result::Result::<T, E>::(map_err|map|and_then|or_else|inspect_err|inspect|as_ref|as_mut)$")
ELSE = re.compile(r"^std::result::Result::<T, E>::unwrap_or_else$")
DIVERGE = re.compile(r"^std::result::Result::<T, E>::(unwrap|expect|unwrap_err|expect_err)$")
TRY = re.compile(r"as std::ops::Try>::branch$")


def uses_of(f, loc):
    """[(block, kind, payload)] of every read of local `loc` (whole or projected)"""
    out = []

    def op_mentions(o):
        return o[0] in ("c", "m") and o[1][0] == loc

    for bi, b in enumerate(f.blocks):
        for si, s in enumerate(b["s"]):
            if s[0] != "A":
                continue
            rv = s[2]
            k = rv[0]
            hit = False
            if k in ("use", "repeat") and op_mentions(rv[1]):
                hit = True
            elif k in ("ref", "addr", "discr", "len") and rv[1][0] == loc:
                hit = True
            elif k == "agg" and any(op_mentions(o) for o in rv[4]):
                hit = True
            elif k in ("tuple", "array") and any(op_mentions(o) for o in rv[1]):
                hit = True
            elif k in ("closure", "coroutine", "coroutine_closure") and any(op_mentions(o) for o in rv[2]):
                hit = True
            elif k == "cast" and op_mentions(rv[2]):
                hit = True
            elif k == "bin" and (op_mentions(rv[2]) or op_mentions(rv[3])):
                hit = True
            elif k == "un" and op_mentions(rv[2]):
                hit = True
            if hit:
                out.append((bi, "stmt:" + k, s))
        t = b["t"]
        if t[0] == "call":
            for i, a in enumerate(t[2]):
                if op_mentions(a):
                    out.append((bi, "arg", (t[1].get("q") or "", i)))
        elif t[0] == "switch" and op_mentions(t[1]):
            out.append((bi, "switch", None))
    return out


def is_acterror_result(ty):
    return ty.startswith("std::result::Result<") and (ty.endswith("error::ActError>") or ty.endswith("ActError>"))


def classify(m, f, c, depth=0):
    """how the Result produced by call c is consumed: returns (verdict, how)
    verdict in PROPAGATED / HANDLED / DIVERGES / DISCARDED / UNKNOWN"""
    if c.dest[1]:
        return ("PROPAGATED", "stored into a place")
    loc = c.dest[0]
    if loc == 0:
        return ("PROPAGATED", "returned")
    return consume(m, f, loc, c.b, depth)


def consume(m, f, loc, defblock, depth=0):
    if depth > 6:
        return ("UNKNOWN", "deep")
    us = uses_of(f, loc)
    if not us:
        return ("DISCARDED", "result dropped (`let _ =` / statement)")
    verdicts = []
    for bi, kind, payload in us:
        if kind == "arg":
            q, idx = payload
            dest = f.blocks[bi]["t"][3]
            if TRY.search(q):
                verdicts.append(("PROPAGATED", "`?`"))
            elif DIVERGE.search(q):
                verdicts.append(("DIVERGES", short_name(q)))
            elif SWALLOW.search(q):
                verdicts.append(("DISCARDED", "`.%s()` swallows the error" % q.split("::")[-1]))
            elif ADAPT.search(q) and idx == 0:
                if dest[1] or dest[0] == 0:
                    verdicts.append(("PROPAGATED", "returned / stored"))
                else:
                    verdicts.append(consume(m, f, dest[0], bi, depth + 1))
            elif ELSE.search(q) and idx == 0:
                t = f.blocks[bi]["t"]
                h = Prov(m, "alias").root(f, t[2][1])
                verdicts.append(handler_verdict(m, f, h))
            else:
                verdicts.append(("PROPAGATED", "passed to %s" % short_name(q)))
        elif kind == "stmt:use":
            s = payload
            if s[1][0] == 0 and not s[1][1]:
                verdicts.append(("PROPAGATED", "returned"))
            elif not s[1][1]:
                verdicts.append(consume(m, f, s[1][0], bi, depth + 1))
            else:
                verdicts.append(("PROPAGATED", "stored into a place"))
        elif kind == "stmt:discr":
            # `match v` / `if let Ok(..) = v`: does the Err edge read the payload or reach an error exit?
            verdicts.append(match_verdict(m, f, loc, bi, payload))
        elif kind == "stmt:ref":
            s = payload
            if not s[1][1]:
                verdicts.append(consume(m, f, s[1][0], bi, depth + 1))
            else:
                verdicts.append(("PROPAGATED", "borrowed into a place"))
        elif kind in ("stmt:agg", "stmt:tuple", "stmt:closure", "stmt:array"):
            verdicts.append(("PROPAGATED", "moved into a value"))
        else:
            verdicts.append(("UNKNOWN", kind))
    order = ["DISCARDED", "UNKNOWN", "HANDLED", "DIVERGES", "PROPAGATED"]
    # projections of the same value (`(_v as Err).0`) are reads of the payload: handled
    best = sorted(verdicts, key=lambda v: order.index(v[0]))
    # a value that is both propagated and something else: the strongest consumer wins
    strongest = sorted(verdicts, key=lambda v: -order.index(v[0]))[0]
    return strongest if strongest[0] in ("PROPAGATED", "DIVERGES", "HANDLED") else best[0]


def handler_verdict(m, f, h):
    if h[0] != "closure" or h[1] not in m.fns:
        return ("UNKNOWN", "unwrap_or_else with a non-closure handler")
    g = m.fns[h[1]]
    calls = [c.q for c in g.calls()]
    if any(q.endswith("Task::set_err") or q.endswith("Context::emit_error") or q.endswith("Process::set_err") for q in calls):
        return ("HANDLED", "handler marks the task as error")
    if any(re.search(r"panicking::|::panic|begin_panic|panic_fmt", q) for q in calls):
        return ("DIVERGES", "handler panics")
    # does every path of the handler diverge?
    if not g.ret_blocks() or all(r not in g.reachable() for r in g.ret_blocks()):
        return ("DIVERGES", "handler never returns")
    return ("DISCARDED", "`unwrap_or_else` handler only logs and continues")


def match_verdict(m, f, loc, bi, stmt):
    # find the switch on this discriminant
    dl = stmt[1][0]
    for b2, b in enumerate(f.blocks):
        t = b["t"]
        if t[0] == "switch" and t[1][0] in ("c", "m") and t[1][1][0] == dl:
            # Err edge = discriminant 1
            tgt = None
            for v, tb in t[2]:
                if v == "1":
                    tgt = tb
            if tgt is None:
                tgt = t[3]
            region = f.reach_from([tgt])
            reads = False
            for x in region:
                for s in f.blocks[x]["s"]:
                    if s[0] == "A" and _reads_variant(s[2], loc, "Err"):
                        reads = True
            if reads:
                return ("HANDLED", "the Err payload is read")
            errs = [bb for bb, k in f.exit_defs() if k in ("ERR_NEW", "ERR_PROP")]
            if any(e in region for e in errs) and not any(bb in region for bb, k in f.exit_defs() if k == "OK"):
                return ("PROPAGATED", "the Err edge returns an error")
            return ("DISCARDED", "`if let Ok(..)` / `match` ignores the Err edge")
    return ("UNKNOWN", "discriminant read without switch")


def _reads_variant(rv, loc, variant):
    def place_hits(p):
        return p[0] == loc and any(isinstance(e, list) and e[0] == "d" and e[1] == variant for e in p[1])
    k = rv[0]
    if k in ("use",) and rv[1][0] in ("c", "m"):
        return place_hits(rv[1][1])
    if k in ("ref", "addr"):
        return place_hits(rv[1])
    return False
