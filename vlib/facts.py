"""E1 front end: hash /repo's working tree, run the acts-facts driver over it when no facts
exist for that hash, and hand the JSON fact files to the analysis library.

The facts always describe /repo's *current working tree*: the cache key is a hash over every
file cargo can read (everything outside .git/ and target/)."""
import fcntl
import hashlib
import json
import os
import shutil
import subprocess
import sys
import time

VERIF = os.path.dirname(os.path.dirname(os.path.abspath(__file__)))
REPO = os.environ.get("ACTS_REPO", "/repo")
CACHE = os.path.join(VERIF, ".cache")
DRIVER_DIR = os.path.join(VERIF, "driver")
DRIVER = os.path.join(DRIVER_DIR, "target", "release", "acts-facts")
TARGET = os.path.join(CACHE, "target")

QUICK_CRATES = ["acts", "acts_store_sqlite"]
QUICK_PKGS = ["acts", "acts-store-sqlite"]
# the sibling back end and the plug-ins are only looked at in the thorough tier
THOROUGH_CRATES = QUICK_CRATES + ["acts_store_postgres"]
THOROUGH_PKGS = QUICK_PKGS + ["acts-store-postgres"]

SKIP_DIRS = {".git", "target"}


def tree_hash(repo=REPO):
    h = hashlib.sha256()
    n = 0
    for root, dirs, files in os.walk(repo):
        dirs[:] = sorted(d for d in dirs if d not in SKIP_DIRS)
        for f in sorted(files):
            p = os.path.join(root, f)
            if os.path.islink(p) or not os.path.isfile(p):
                continue
            rel = os.path.relpath(p, repo)
            h.update(rel.encode())
            h.update(b"\0")
            with open(p, "rb") as fh:
                h.update(fh.read())
            h.update(b"\0")
            n += 1
    return h.hexdigest()[:20], n


def nightly_sysroot():
    return subprocess.check_output(["rustc", "+nightly", "--print", "sysroot"], text=True).strip()


def env_offline():
    e = dict(os.environ)
    e["CARGO_NET_OFFLINE"] = "true"
    return e


def build_driver():
    if os.path.exists(DRIVER):
        src_m = max(
            os.path.getmtime(os.path.join(DRIVER_DIR, "src", "main.rs")),
            os.path.getmtime(os.path.join(DRIVER_DIR, "Cargo.toml")),
        )
        if os.path.getmtime(DRIVER) >= src_m:
            return
    r = subprocess.run(
        ["cargo", "build", "--release", "--offline"],
        cwd=DRIVER_DIR, env=env_offline(), stdout=subprocess.PIPE, stderr=subprocess.STDOUT, text=True,
    )
    if r.returncode != 0:
        sys.stderr.write(r.stdout)
        raise SystemExit("cannot build the acts-facts driver")


def _drop_member_fingerprints(pkgs):
    fp = os.path.join(TARGET, "debug", ".fingerprint")
    if not os.path.isdir(fp):
        return
    for d in os.listdir(fp):
        for p in pkgs:
            # <pkg>-<16 hex>
            if d.startswith(p + "-") and len(d) == len(p) + 17:
                shutil.rmtree(os.path.join(fp, d), ignore_errors=True)


def extract(tier="quick", repo=REPO, quiet=False, _retry=True):
    """returns (facts_dir, tree_hash, n_files, fresh:bool, seconds)"""
    os.makedirs(CACHE, exist_ok=True)
    crates = THOROUGH_CRATES if tier == "thorough" else QUICK_CRATES
    pkgs = THOROUGH_PKGS if tier == "thorough" else QUICK_PKGS
    t0 = time.time()
    with open(os.path.join(CACHE, "lock"), "w") as lk:
        fcntl.flock(lk, fcntl.LOCK_EX)
        th, nfiles = tree_hash(repo)
        out = os.path.join(CACHE, "facts", th)
        need = [c for c in crates if not os.path.exists(os.path.join(out, c + ".json"))]
        if not need:
            return out, th, nfiles, False, time.time() - t0
        build_driver()
        os.makedirs(out, exist_ok=True)
        _drop_member_fingerprints(pkgs)
        env = env_offline()
        env["LD_LIBRARY_PATH"] = os.path.join(nightly_sysroot(), "lib")
        env["RUSTFLAGS"] = "-Zmir-opt-level=0 -Awarnings"
        env["RUSTC_WORKSPACE_WRAPPER"] = DRIVER
        env["CARGO_TARGET_DIR"] = TARGET
        env["ACTS_FACTS_CRATES"] = ",".join(crates)
        env["ACTS_FACTS_OUT"] = out
        cmd = ["cargo", "+nightly", "check", "--offline"]
        for p in pkgs:
            cmd += ["-p", p]
        start = time.time()
        r = subprocess.run(cmd, cwd=repo, env=env, stdout=subprocess.PIPE, stderr=subprocess.STDOUT, text=True)
        if r.returncode != 0:
            shutil.rmtree(out, ignore_errors=True)
            sys.stderr.write(r.stdout[-6000:])
            print("ERROR: /repo does not compile under `cargo +nightly check`; no verdict")
            raise SystemExit(2)
        for c in crates:
            p = os.path.join(out, c + ".json")
            if not os.path.exists(p) or os.path.getmtime(p) < start - 1:
                shutil.rmtree(out, ignore_errors=True)
                print("ERROR: the fact extractor did not produce %s on this run" % p)
                raise SystemExit(2)
        # the tree must not have changed while it was analysed
        th2, _ = tree_hash(repo)
        if th2 != th:
            shutil.rmtree(out, ignore_errors=True)
            if _retry:
                # cargo itself writes Cargo.lock when the tree has none (a fresh checkout: the file is git-ignored):
                # analyse again, now against the tree as cargo left it
                fcntl.flock(lk, fcntl.LOCK_UN)
                return extract(tier, repo, quiet, _retry=False)
            print("ERROR: /repo changed while facts were extracted; re-run")
            raise SystemExit(2)
        _prune(keep=out)
        if not quiet:
            print("facts: extracted %s for tree %s in %.1fs" % (",".join(crates), th, time.time() - start))
        return out, th, nfiles, True, time.time() - t0


def _prune(keep, maxn=14):
    root = os.path.join(CACHE, "facts")
    ds = [os.path.join(root, d) for d in os.listdir(root)]
    ds = sorted((d for d in ds if d != keep), key=os.path.getmtime, reverse=True)
    for d in ds[maxn - 1:]:
        shutil.rmtree(d, ignore_errors=True)


def load(tier="quick", repo=REPO):
    out, th, nfiles, fresh, secs = extract(tier, repo)
    crates = THOROUGH_CRATES if tier == "thorough" else QUICK_CRATES
    data = []
    for c in crates:
        with open(os.path.join(out, c + ".json")) as fh:
            data.append(json.load(fh))
    return data, {"tree_hash": th, "files_hashed": nfiles, "facts_fresh": fresh, "extract_s": round(secs, 2),
                  "crates": crates}


if __name__ == "__main__":
    tier = sys.argv[1] if len(sys.argv) > 1 else "quick"
    print(extract(tier))
