"""E7/TS: path-sensitive typestate analysis (DESIGN 2.2 E7, Appendix B.3).

Abstract interpretation of the task protocol over the 13-value TaskState domain: a product
exploration of (inlined CFG position, concrete state of ONE tracked task, monitor state). No
program value is computed and nothing is executed; branches on tabulated predicates of the
tracked task's state are pruned with the E5 tables, every other branch is explored both ways.

Soundness devices:
  * the value a guard sees is the state captured when `Task::state()` executed (stale reads are
    modelled as written);
  * a call that is not inlined and may (transitively) write some task's state *havocs* the
    tracked state to every state reachable from it by legal transitions (assume/guarantee: the
    first illegal transition of an execution happens at some analysed write site);
  * `?` correlation: the Ok/Err kind of an inlined callee's exit is propagated through
    `Try::branch`; callees that cannot fail (may-fail summary) never take the error edge;
  * `Context::set_task` re-targeting is tracked flow-sensitively (assumption A3).
Monitors are finite automata; counterexample paths are rebuilt from predecessor pointers."""
import collections
import re

from .model import Anchor, Call, Prov, root_str, short_name

STATES = ["None", "Ready", "Pending", "Running", "Interrupt", "Completed", "Submitted", "Backed", "Cancelled",
          "Error", "Aborted", "Skipped", "Removed"]
TERMINAL = {"Completed", "Submitted", "Backed", "Cancelled", "Error", "Aborted", "Skipped", "Removed"}
CREATED = {"Ready", "Pending", "Interrupt"}


def rank(s):
    if s == "None":
        return 0
    if s in CREATED:
        return 1
    if s == "Running":
        return 2
    return 3


def legal(a, b):
    """the transition relation of the statement of C02 (without the catch exception)"""
    if a == b:
        return True
    if a in TERMINAL:
        return False
    if rank(b) > rank(a):
        return True
    if rank(a) == 1 and rank(b) == 1:
        # refinement inside `created`: ready -> pending / interrupted
        return a == "Ready"
    return False


def closure(s):
    """states reachable from s by legal transitions (plus the single catch revival)"""
    out = {t for t in STATES if legal(s, t)}
    if s == "Error":
        out |= {"Running"} | TERMINAL
    return out


Q_SET_STATE = "acts::scheduler::process::task::Task::set_state"
Q_SET_ERR = "acts::scheduler::process::task::Task::set_err"
Q_SET_PURE = "acts::scheduler::process::task::Task::set_pure_state"
Q_STATE = "acts::scheduler::process::task::Task::state"
Q_IS_READY = "acts::scheduler::process::task::Task::is_ready"
Q_CTX_TASK = "acts::scheduler::context::Context::task"
Q_CTX_SET_TASK = "acts::scheduler::context::Context::set_task"
Q_CREATE_CTX = "acts::scheduler::process::task::Task::create_context"
Q_EMIT_TASK = "acts::scheduler::context::Context::emit_task"
Q_EMIT_EVENT = "acts::scheduler::scheduler::Scheduler::emit_task_event"
Q_UPSERT = "acts::cache::cache::Cache::upsert"
Q_PUSH = "acts::scheduler::runtime::Runtime::push"
Q_SCHED = "acts::scheduler::context::Context::sched_task"
Q_ERR = "acts::scheduler::process::task::Task::err"
Q_EXEC = "acts::scheduler::process::task::Task::exec"
Q_RUN_HOOKS_BY = "acts::scheduler::process::task::Task::run_hooks_by"
Q_HOOK_RUN = "acts::scheduler::process::task::hook::StatementBatch::run"
# which kinds of hook statements can be stored under a lifecycle key (hook-registration discipline,
# checked by rules/common.py: add_hook_catch only under ErrorCatch, add_hook_timeout only under Timeout,
# add_hook_stmts under neither)
LIFE_KINDS = {"ErrorCatch": {"Catch"}, "Timeout": {"Timeout"}}
LIFE_DEFAULT = {"Statement"}
Q_ON_TASK = "acts::scheduler::scheduler::Scheduler::on_task"
Q_EMIT_PROC = "acts::scheduler::scheduler::Scheduler::emit_proc_event"
# calls that cannot change the state of a task of *this* process synchronously although the call
# graph (through stored handlers) says they might; each with its reason (checked by C02.R7)
NO_HAVOC = {}
STATE_PRED = re.compile(r"^acts::scheduler::state::TaskState::(is_[a-z_]+)$")
TRY_BRANCH = re.compile(r"as std::ops::Try>::branch$")
FROM_RESIDUAL = re.compile(r"FromResidual<.*>>::from_residual$|FromResidual::from_residual$")
UNWRAP_OR_ELSE = re.compile(r"^std::result::Result::<T, E>::unwrap_or_else$")
STATE_WRITERS = {Q_SET_STATE, Q_SET_ERR, Q_SET_PURE}
NEVER_INLINE = {Q_STATE, Q_SET_STATE, Q_SET_ERR, Q_CTX_TASK, Q_CTX_SET_TASK, Q_EMIT_EVENT, Q_UPSERT, Q_PUSH,
                Q_CREATE_CTX, Q_ERR}


def const_state_of_other(pa, fn, b, recv):
    """the constant state last written to `recv` on every path to block b (dominating write with
    no later write on the same root), or None"""
    best = None
    for d in fn.dom_chain(b)[1:]:
        t = fn.blocks[d]["t"]
        if t[0] == "call" and t[1].get("q") in (Q_SET_STATE, Q_SET_ERR) and pa.root(fn, t[2][0]) == recv:
            if t[1].get("q") == Q_SET_ERR:
                best = (d, "Error")
            else:
                r = pa.root(fn, t[2][1])
                best = (d, r[2] if r[0] == "agg" else None)
            break
    if best is None or best[1] is None:
        return None
    d, S = best
    # no other write on recv on a path d -> b that does not pass d again (the relevant execution of
    # the dominating write is the last one before b; an earlier loop iteration is another task)
    nxt = fn.blocks[d]["t"][4]
    fwd = fn.reach_from([nxt], avoid=[d]) if nxt is not None else set()
    for x in fwd:
        if x == b or x == d or not (b in fn.reach_from([x], avoid=[d])):
            continue
        t = fn.blocks[x]["t"]
        if t[0] == "call" and t[1].get("q") in (Q_SET_STATE, Q_SET_ERR) and pa.root(fn, t[2][0]) == recv:
            return None
    return S



# registration of stored handlers and the functions that invoke them synchronously
REGISTER = re.compile(r"^acts::(scheduler::scheduler::Scheduler|event::emitter::Emitter|export::channel::Channel)::on_(proc|task|tick|message|start|complete|error)$")
HANDLER_EMITTERS = {
    "task": "acts::event::emitter::Emitter::emit_task_event_with_extra",
    "proc": "acts::event::emitter::Emitter::emit_proc_event",
}
# generic / dyn calls of these std traits are not fanned out over the workspace's impls: they are
# value conversions; Summaries.value_traits_are_pure() checks that no local impl writes a task state
VALUE_TRAITS = {"std::default::Default", "std::clone::Clone", "std::convert::From", "std::convert::Into", "std::convert::TryFrom",
                "std::convert::TryInto", "std::string::ToString", "std::fmt::Display", "std::fmt::Debug", "std::cmp::PartialEq",
                "std::cmp::Eq", "std::cmp::PartialOrd", "std::cmp::Ord", "std::hash::Hash", "std::convert::AsRef", "std::borrow::Borrow",
                "std::ops::Deref", "std::ops::DerefMut", "std::str::FromStr", "serde::Serialize", "serde::Deserialize", "serde::ser::Serialize",
                "serde::de::Deserialize", "std::iter::Iterator", "std::iter::IntoIterator", "std::ops::Drop", "std::borrow::ToOwned"}
VALUE_TRAIT_METHODS = set()


class Summaries:
    """whole-program summaries over the call graph: which functions may (transitively) write a
    task state, reach an event callee, or return Err"""

    def __init__(self, model):
        self.m = model
        self.edges = collections.defaultdict(set)
        self.value_trait_impls = set()
        pa_ = Prov(model, "alias")
        # handlers stored by a registration call run later, from the matching emit function
        self.handlers = collections.defaultdict(list)  # registration name -> [closure q]
        for f in model.fns.values():
            for c in f.calls():
                mm = REGISTER.search(c.q)
                if mm and len(c.args) >= 2:
                    r = pa_.root(f, c.args[-1])
                    if r[0] == "closure" and r[1] in model.fns:
                        self.handlers[mm.group(2)].append(r[1])
        for f in model.fns.values():
            for c in f.calls():
                q = c.q
                if q in model.fns:
                    self.edges[f.q].add(q)
                elif c.kind in ("virtual", "generic"):
                    decl = c.callee.get("decl") or ""
                    if decl in VALUE_TRAIT_METHODS or decl.rsplit("::", 1)[0] in VALUE_TRAITS:
                        continue  # see value_traits_are_pure()
                    for i in self.impls_of(c):
                        self.edges[f.q].add(i)
            # closures created in f may run in f; not when they are handed to a spawn (they run later,
            # on another task) or to a handler registration (they run from the emit function)
            deferred = set()
            for c in f.calls():
                if (re.search(r"(^|::)spawn(_blocking|_local)?$", c.q) and "tokio" in c.q) or REGISTER.search(c.q):
                    for a in c.args:
                        r = pa_.root(f, a)
                        if r[0] == "closure":
                            deferred.add(r[1])
            for b in f.blocks:
                for s in b["s"]:
                    if s[0] == "A" and s[2][0] in ("closure", "coroutine", "coroutine_closure") and s[2][1] in model.fns:
                        if s[2][1] in deferred:
                            continue
                        self.edges[f.q].add(s[2][1])
        # synchronous handler invocation
        for kind, emit_q in HANDLER_EMITTERS.items():
            for h in self.handlers.get(kind, []):
                self.edges[emit_q].add(h)
        self._reach = {}
        self.may_write = self.reaches({Q_SET_STATE, Q_SET_ERR})
        self._may_fail = None
        self.h_sites = set()

    def value_traits_are_pure(self):
        """[(impl fn q, trait)] of local impls of std value traits (Default, Clone, From, ...) that can
        reach a task-state write: must be empty for the call graph's treatment of generic calls of
        those traits to be sound"""
        bad = []
        for f in self.m.fns.values():
            if f.impl_trait and f.impl_trait.split("<")[0] in VALUE_TRAITS and f.q in self.may_write:
                bad.append((f.q, f.impl_trait))
        return bad

    def reaches(self, targets):
        """functions that transitively call one of `targets` (targets included)"""
        rev = collections.defaultdict(set)
        for a, bs in self.edges.items():
            for b in bs:
                rev[b].add(a)
        # direct calls to targets that are not local bodies
        direct = set()
        for f in self.m.fns.values():
            for c in f.calls():
                if c.q in targets:
                    direct.add(f.q)
        seen = set(t for t in targets if t in self.m.fns) | direct
        work = list(seen)
        while work:
            x = work.pop()
            for p in rev[x]:
                if p not in seen:
                    seen.add(p)
                    work.append(p)
        return seen

    def impls_of(self, call):
        """possible local targets of a virtual / generic trait call"""
        decl = call.callee.get("decl") or ""
        out = []
        for key, impls in self.m.trait_impls().items():
            if key.endswith("::" + decl) or key == decl or key.split("::", 1)[-1] == decl:
                out += [i for i in impls if i in self.m.fns]
        # default method body
        for q, f in self.m.fns.items():
            if (q == decl or q.split("::", 1)[-1] == decl) and q not in out:
                out.append(q)
        return out

    def may_fail(self):
        """functions returning Result that can return Err. A function may fail iff one of the
        definitions of its return place is an `Err(..)` literal, or propagates (via `?`, a tail call
        or a moved local) the result of a call that may fail. External Result-returning callees and
        `Option::ok_or` are fallible; adaptors (`map_err`, `map`, ..) pass their receiver through."""
        if self._may_fail is not None:
            return self._may_fail
        m = self.m
        pa = Prov(m, "alias")
        res = {q: f for q, f in m.fns.items() if f.returns_result()}
        fail = set()
        dep = collections.defaultdict(set)
        ADAPT = re.compile(r"^std::result::Result::<T, E>::(map_err|map|or_else|and_then|inspect_err|inspect)$")

        def sources(f, r, out, depth=0):
            """callee sets a result root may come from; returns False if unknown"""
            if depth > 12:
                return False
            k = r[0]
            if k == "agg":
                if r[1].endswith("result::Result"):
                    if r[2] == "Err":
                        out.add("!")
                    return True
                return False
            if k == "call":
                q = r[1]
                c = Call(f, r[2])
                if TRY_BRANCH.search(q) or ADAPT.search(q):
                    return sources(f, pa.root(f, c.args[0]), out, depth + 1)
                if re.search(r"FromResidual<.*>>::from_residual$|FromResidual::from_residual$", q) and c.args:
                    # the Err of an inlined helper's `?`: it passes on the residual of the branch it was taken from
                    return sources(f, pa.root(f, c.args[0]), out, depth + 1)
                if q == Q_EXEC and c.args and const_state_of_other(pa, f, c.b, pa.root(f, c.args[0])) == "Running":
                    self.h_sites.add((f.q, c.b))
                    return True  # hypothesis H (C02.R3h): exec of a Running (resumed) task cannot fail
                if q in m.fns:
                    if m.fns[q].returns_result():
                        out.add(q)
                    return True
                if c.kind in ("virtual", "generic"):
                    tg = self.impls_of(c)
                    if tg:
                        out.update(tg)
                        return True
                    return False
                if re.search(r"Option::<T>::ok_or(_else)?$", q):
                    out.add("!")
                    return True
                return False
            if k == "local":
                # several definitions: all of them
                ok = True
                for d in f.defs().get(r[1], []):
                    if d[2] == "call":
                        ok = sources(f, ("call", d[3][1].get("q") or "", d[0], ()), out, depth + 1) and ok
                    elif d[2] == "assign":
                        rv = d[3]
                        if rv[0] == "agg":
                            ok = sources(f, ("agg", rv[1], rv[2], d[0], d[1]), out, depth + 1) and ok
                        elif rv[0] == "use" and rv[1][0] != "k":
                            ok = sources(f, pa.root(f, rv[1]), out, depth + 1) and ok
                        else:
                            ok = False
                return ok
            return False

        for q, f in res.items():
            out = set()
            known = True
            for b, kind in f.exit_defs():
                if kind == "OK":
                    continue
                if kind == "ERR_NEW":
                    out.add("!")
                    continue
                t = f.blocks[b]["t"]
                if kind == "ERR_PROP":
                    known = sources(f, pa.root(f, t[2][0]), out) and known
                elif kind == "CALL":
                    known = sources(f, ("call", t[1].get("q") or "", b, ()), out) and known
                elif kind == "COPY":
                    for st in f.blocks[b]["s"]:
                        if st[0] == "A" and st[1][0] == 0 and not st[1][1] and st[2][0] == "use":
                            known = sources(f, pa.root(f, st[2][1]), out) and known
            if "!" in out or not known:
                fail.add(q)
            else:
                dep[q] = out
        changed = True
        while changed:
            changed = False
            for q, srcs in dep.items():
                if q not in fail and any(s in fail for s in srcs):
                    fail.add(q)
                    changed = True
        self._may_fail = fail
        return fail


class Frame:
    __slots__ = ("fn", "tp", "cp", "tup", "cup", "retblk", "callblk", "saved", "key", "life")

    def __init__(self, fn, tp, cp, tup=frozenset(), cup=frozenset(), retblk=None, callblk=None, saved=None, life=None):
        self.fn, self.tp, self.cp, self.tup, self.cup = fn, frozenset(tp), frozenset(cp), frozenset(tup), frozenset(cup)
        self.retblk, self.callblk, self.saved = retblk, callblk, saved
        self.life = life  # the lifecycle key under which hook statements are being run (inherited by callees)
        self.key = (fn.q, self.tp, self.cp, self.tup, self.cup, retblk, callblk, saved, life)


class Monitor:
    """base class: a finite automaton over TS events"""
    init = None

    def on_event(self, mon, ev):
        """returns the new monitor state; return ('VIOL', payload) to report, 'STOP' to prune"""
        return mon

    def on_exit(self, mon, s, kind):
        """kind in OK / ERR_NEW / ERR_PROP / CALL / COPY / UNIT; return payload to report a violation"""
        return None


class TS:
    def __init__(self, model, tables, summaries=None, maxdepth=9, budget=600000):
        self.m = model
        self.T = tables
        self.sm = summaries or Summaries(model)
        self.pa = Prov(model, "alias")
        self.maxdepth = maxdepth
        self.budget = budget
        self.base_interest = {Q_SET_STATE, Q_SET_ERR, Q_EMIT_TASK, Q_EMIT_EVENT, Q_UPSERT, Q_PUSH, Q_SCHED, Q_IS_READY, Q_CTX_SET_TASK}
        self.events_of_interest = self.sm.reaches(self.base_interest)
        # helpers that only *read* the tracked task's state (a guard moved into `fn ensure_open(&self) -> Result<()>`
        # or `fn is_closed(&self) -> bool`) are inlined as well: their verdict decides the caller's branch
        self.state_readers = self.sm.reaches({Q_STATE, Q_ERR})
        self.stats = {"configs": 0, "runs": 0, "inlined": set(), "havocs": set()}
        self.profile = None
        self.branch_adts = ()       # ADT name suffixes whose undecided `match` emits BRANCH events
        self.effect_callees = None  # regex: calls reported as ("EFFECT", q, fn, block)
        self.no_inline = set()      # callees never inlined (reported as EFFECT / skipped instead)
        self.handler_nesting = 2    # how many on_task handler frames may nest
        self.recursion_in_handler = 3   # instances of one function on the stack once a handler frame is there
        self.env_actions = None     # {announced state: [states a client action may put the task into]} - interference at announce points
        self.on_task = self._find_on_task()
        self._hook_effect = {}
        self._self_only = {}

    def set_effects(self, regex, callees=()):
        """report calls matching `regex` as EFFECT events; functions reaching `callees` become worth inlining"""
        self.effect_callees = regex
        self.events_of_interest = self.sm.reaches(self.base_interest | set(callees))
        self._hook_effect = {}

    def _find_on_task(self):
        """the closure registered with Scheduler::on_task: it runs synchronously inside every
        emit_task_event (store upsert, lifecycle hooks, message)"""
        found = []
        for c in self.m.callers().get(Q_ON_TASK, []):
            r = self.pa.root(c.fn, c.args[1])
            if r[0] == "closure" and r[1] in self.m.fns:
                found.append(self.m.fns[r[1]])
        if len(found) != 1:
            raise Anchor("expected exactly one closure registered with Scheduler::on_task, found %d" % len(found))
        return found[0]

    def hook_effect(self, state):
        """does the on_task handler, run for a task in `state`, write a task state or re-enter the
        protocol (review/exec/...)? computed by the analysis itself, memoised"""
        if state in self._hook_effect:
            return self._hook_effect[state]
        self._hook_effect[state] = True  # conservative while computing (recursion)

        class M(Monitor):
            init = 0

            def __init__(self):
                self.hit = False

            def on_event(self, mon, ev):
                if ev[0] in ("WRITE", "HAVOC", "WRITE_OTHER"):
                    self.hit = True
                return mon
        mon = M()
        self.run(self.on_task, state, mon, tp=(2,), cp=())
        self._hook_effect[state] = mon.hit
        return mon.hit

    def self_only_writer(self, q):
        """every state write transitively reachable from q is a direct write on q's own receiver"""
        if q in self._self_only:
            return self._self_only[q]
        f = self.m.fns.get(q)
        ok = f is not None
        if ok:
            fs = [f] + [g for gq, g in self.m.fns.items() if gq.startswith(q + "::{closure")]
            for g in fs:
                for c in g.calls():
                    if c.q in (Q_SET_STATE, Q_SET_ERR):
                        r = self.pa.root(g, c.args[0])
                        if g is f and r[0] == "param" and r[1] == 1 and not r[3]:
                            continue
                        if g is not f and r[0] == "upvar" and r[1] == "self":
                            continue
                        ok = False
                    elif c.q in self.m.fns and c.q in self.sm.may_write and not c.q.startswith(q + "::{closure"):
                        ok = False
                    elif c.kind in ("virtual", "generic") and any(t in self.sm.may_write for t in self.sm.impls_of(c)):
                        ok = False
        self._self_only[q] = ok
        return ok

    # ---- tracked-ness ----------------------------------------------------------------------
    def task_tracked(self, fr, op, env):
        r = self.pa.root(fr.fn, op)
        return self.root_tracked(fr, r, env)

    def root_tracked(self, fr, r, env):
        k = r[0]
        if k == "param":
            return r[1] in fr.tp and not r[3]
        if k == "upvar":
            return r[1] in fr.tup and not r[2]
        if k == "call" and r[1] == Q_CTX_TASK and not r[3]:
            v = env.get(r[2])
            return v == ("TASK", True)
        if k == "call" and not r[3]:
            v = env.get(r[2])
            if v == ("TASK", True):
                return True
        return False

    def ctx_tracked(self, fr, op, env):
        r = self.pa.root(fr.fn, op)
        k = r[0]
        if k == "param":
            return r[1] in fr.cp and not r[3]
        if k == "upvar":
            return r[1] in fr.cup and not r[2]
        if k == "call" and r[1] == Q_CREATE_CTX and not r[3]:
            return env.get(r[2]) == ("CTX", True)
        return False

    # ---- exploration -----------------------------------------------------------------------
    def run(self, entry, s0, monitor, tp=(1,), cp=(2,), ctxok=True, tup=(), cup=(), label=None):
        """explore `entry` with the tracked task in state s0. Returns list of violations:
        (payload, path) where path is the list of events leading there."""
        self.stats["runs"] += 1
        f0 = Frame(entry, tp, cp, tup, cup)
        start = ((f0,), 0, s0, ctxok, monitor.init, ())
        seen = {}
        stack = [(start, None, None)]
        viol = []
        vkeys = set()
        steps = 0
        while stack:
            cfg, pkey, pev = stack.pop()
            frames, b, s, cok, mon, envt = cfg
            fr = frames[-1]
            fn = fr.fn
            key = (tuple(f.key for f in frames), b, s, cok, mon, envt)
            if key in seen:
                continue
            seen[key] = (pkey, pev)
            steps += 1
            if self.profile is not None:
                self.profile[(tuple(short_name(f.fn.q) for f in frames))] += 1
            if steps > self.budget:
                raise Anchor("typestate exploration of %s from %s exceeded its budget (%d configurations)" % (entry.short, s0, self.budget))
            env = dict(envt)

            def push(nb, s=s, cok=cok, mon=mon, env=env, frames=frames, ev=None):
                # facts of call blocks that do not dominate the next block are dead (their single-def
                # temporaries cannot be read there): dropping them keeps the configuration space small
                ds = frames[-1].fn.dom_set(nb)
                fn_ = frames[-1].fn
                envt2 = tuple(sorted(((k_, v_) for k_, v_ in env.items() if k_ in ("ek", "rv", "eo") or (isinstance(k_, tuple) and fn_.live_at(k_[1], nb)) or k_ in ds), key=repr))
                stack.append(((frames, nb, s, cok, mon, envt2), key, ev))

            def report(payload, ev=None):
                path = self._path(seen, key) + ([ev] if ev else [])
                vk = repr(payload)
                if vk not in vkeys:
                    vkeys.add(vk)
                    viol.append((payload, path))

            # facts about locals with several definitions: `_r = Result::Ok(..)` / `Result::Err(..)` / `const bool` /
            # a copy of such a local (the shape of an inlined helper's return value and of `let ok = if c {..} else {..}`)
            lf = None
            for st in fn.blocks[b]["s"]:
                if st[0] != "A" or st[1][1] or st[1][0] == 0:
                    continue
                dl_ = st[1][0]
                rv = st[2]
                val = "?"
                if rv[0] == "agg" and rv[1].endswith("result::Result"):
                    val = ("RES", "Ok") if rv[2] == "Ok" else ("RES", "Err", "NEW")
                elif rv[0] == "use" and rv[1][0] == "k" and rv[1][1].get("ty") == "bool" and "int" in rv[1][1]:
                    val = ("B", bool(int(rv[1][1]["int"])))
                elif rv[0] == "use" and rv[1][0] != "k" and not rv[1][1][1]:
                    src = rv[1][1][0]
                    val = (lf if lf is not None else env).get(("L", src))
                    if val is None:
                        r_ = self.pa.root(fn, rv[1])
                        if r_[0] == "call" and not r_[3]:
                            v_ = env.get(r_[2])
                            if v_ is not None and v_[0] in ("RES", "B"):
                                val = v_
                if val == "?":
                    if ("L", dl_) in (lf if lf is not None else env):
                        lf = dict(lf if lf is not None else env)
                        lf.pop(("L", dl_), None)
                    continue
                if val is not None and (len(fn.defs().get(dl_, ())) >= 2 or (rv[0] == "use" and rv[1][0] != "k")):
                    lf = dict(lf if lf is not None else env)
                    lf[("L", dl_)] = val
                elif ("L", dl_) in (lf if lf is not None else env):
                    lf = dict(lf if lf is not None else env)
                    lf.pop(("L", dl_), None)
            if lf is not None:
                env = lf
            # exit kind tracking: assignments to _0 in this block
            ek = None
            for st in fn.blocks[b]["s"]:
                if st[0] == "A" and st[1][0] == 0 and not st[1][1]:
                    rv = st[2]
                    if rv[0] == "agg" and rv[1].endswith("result::Result"):
                        ek = "OK" if rv[2] == "Ok" else "ERR_NEW"
                    elif rv[0] == "use" and rv[1][0] != "k":
                        ek = "COPY"
                    else:
                        ek = "OK"
            if ek is not None:
                env = dict(env)
                env["ek"] = ek
                # constant boolean return value (correlates e.g. is_ready()'s `false` with the
                # write it performed on that path)
                env.pop("rv", None)
                for st in fn.blocks[b]["s"]:
                    if st[0] == "A" and st[1][0] == 0 and not st[1][1] and st[2][0] == "use" and st[2][1][0] == "k" \
                            and st[2][1][1].get("ty") == "bool" and "int" in st[2][1][1]:
                        env["rv"] = bool(int(st[2][1][1]["int"]))
                    elif st[0] == "A" and st[1][0] == 0 and not st[1][1] and st[2][0] == "use" and st[2][1][0] in ("c", "m") and not st[2][1][1][1]:
                        # `_0 = move _L` with the value of _L known on this path (the return value of a helper that was
                        # inlined back, or of `let ok = match .. { .. }; ok`)
                        v_ = (lf if lf is not None else env).get(("L", st[2][1][1][0]))
                        if v_ is not None and v_[0] == "B":
                            env["rv"] = v_[1]
            t = fn.blocks[b]["t"]
            k = t[0]
            if k == "goto":
                push(t[1], env=env)
            elif k == "drop":
                push(t[2], env=env)
            elif k == "assert":
                push(t[3], env=env)
            elif k in ("unreachable", "resume", "abort", "asm"):
                pass
            elif k == "ret":
                kind = env.get("ek", "UNIT")
                # ERR_PROP_NEW: an error propagated with `?` that was constructed (a refusal, not a fault passed on) in an
                # inlined callee of this invocation; the entry function reports it as ERR_NEW
                new_origin = kind in ("ERR_NEW", "ERR_PROP_NEW")
                if kind == "ERR_PROP_NEW":
                    kind = "ERR_NEW" if len(frames) == 1 else "ERR_PROP"
                if len(frames) == 1:
                    p = monitor.on_exit(mon, s, kind)
                    if p is not None:
                        report(p, ("EXIT", kind, s))
                else:
                    cenv = dict(fr.saved)
                    if "rv" in env:
                        cenv[fr.callblk] = ("B", env["rv"])
                    elif fn.locals[0] == "bool":
                        bv = self._bool_of(fn, self.pa.root_place(fn, 0, []), env)
                        if bv is not None:
                            cenv[fr.callblk] = ("B", bv)
                    if kind in ("OK", "ERR_NEW", "ERR_PROP") and fn.returns_result():
                        cenv[fr.callblk] = ("RES", "Ok" if kind == "OK" else "Err")
                    elif fn.returns_result() and fn.q not in self.sm.may_fail():
                        cenv[fr.callblk] = ("RES", "Ok")  # tail call / moved result of an infallible function
                    # a tail call (`return f(x)`): the caller's exit kind is the callee's
                    caller = frames[-2].fn
                    cdest = caller.blocks[fr.callblk]["t"][3]
                    if new_origin and cenv.get(fr.callblk) == ("RES", "Err"):
                        cenv["eo"] = fr.callblk
                    else:
                        cenv.pop("eo", None)
                    if cdest[0] == 0 and not cdest[1] and cenv.get("ek") == "CALL" and cenv.get(fr.callblk, (None,))[0] == "RES":
                        cenv["ek"] = "OK" if cenv[fr.callblk][1] == "Ok" else ("ERR_PROP_NEW" if new_origin else "ERR_PROP")
                    # the same fact keyed by the destination local (a `match` whose arms assign one
                    # local from different calls makes that local multi-def)
                    dl = caller.blocks[fr.callblk]["t"][3]
                    if not dl[1] and len(caller.defs().get(dl[0], ())) > 1:
                        if fr.callblk in cenv and cenv[fr.callblk][0] == "RES":
                            cenv[("L", dl[0])] = cenv[fr.callblk]
                        else:
                            cenv.pop(("L", dl[0]), None)
                    push(fr.retblk, env=cenv, frames=frames[:-1])
            elif k == "switch":
                self._switch(fn, fr, b, t, env, s, push, mon, monitor)
            elif k == "call":
                self._call(frames, fr, fn, b, t, env, s, cok, mon, monitor, push, report)
        self.stats["configs"] += steps
        return viol

    def _switch(self, fn, fr, b, t, env, s, push, mon=None, monitor=None):
        r = self.pa.root(fn, t[1])
        neg = False
        while r[0] == "not":
            neg = not neg
            r = r[1]
        cases = [(v, tb) for v, tb in t[2]] + [("otherwise", t[3])]
        decided = None
        if t[1][0] != "k" and not t[1][1][1] and ("L", t[1][1][0]) in env and env[("L", t[1][1][0])][0] == "B":
            r = ("local", t[1][1][0], None, (), 0)
            neg = False
        if r[0] == "local" and not r[3]:
            v = env.get(("L", r[1]))
            if v is not None and v[0] == "B":
                decided = (not v[1]) if neg else v[1]
                n = 1 if decided else 0
                tgt = t[3]
                for sv, tb in t[2]:
                    if int(sv) == n:
                        tgt = tb
                push(tgt, env=env)
                return
        if r[0] == "discr" and r[1][0] == "local" and not r[1][3] and r[2] and r[2].endswith("result::Result"):
            v = env.get(("L", r[1][1]))
            if v is not None and v[0] == "RES":
                n = 0 if v[1] == "Ok" else 1
                tgt = t[3]
                for sv, tb in t[2]:
                    if int(sv) == n:
                        tgt = tb
                push(tgt, env=env)
                return
        if r[0] == "call" and not r[3]:
            v = env.get(r[2])
            if v is not None and v[0] == "B":
                decided = (not v[1]) if neg else v[1]
                n = 1 if decided else 0
                tgt = t[3]
                for sv, tb in t[2]:
                    if int(sv) == n:
                        tgt = tb
                push(tgt, env=env)
                return
        if r[0] == "discr":
            inner = r[1]
            if inner[0] == "call" and not inner[3]:
                v = env.get(inner[2])
                if v is not None and v[0] == "BR":
                    n = v[1]
                    tgt = t[3]
                    for sv, tb in t[2]:
                        if int(sv) == n:
                            tgt = tb
                    push(tgt, env=env)
                    return
                if v is not None and v[0] == "RES" and r[2] and r[2].endswith("result::Result"):
                    n = 0 if v[1] == "Ok" else 1
                    tgt = t[3]
                    for sv, tb in t[2]:
                        if int(sv) == n:
                            tgt = tb
                    push(tgt, env=env)
                    return
                if v is not None and v[0] == "OPT" and r[2] and r[2].endswith("option::Option"):
                    n = 0 if v[1] == "None" else 1
                    tgt = t[3]
                    for sv, tb in t[2]:
                        if int(sv) == n:
                            tgt = tb
                    push(tgt, env=env)
                    return
                if v is not None and v[0] == "ST" and r[2] and r[2].endswith("state::TaskState"):
                    d = [dv for n_, dv in self.m.variants(r[2]) if n_ == v[1]]
                    if d:
                        tgt = t[3]
                        for sv, tb in t[2]:
                            if int(sv) == d[0]:
                                tgt = tb
                        push(tgt, env=env)
                        return
        # hook statements: the kinds that can be stored under the lifecycle key being run
        if fn.q == Q_HOOK_RUN and fr.life is not None and r[0] == "discr" and r[1][0] == "param" and r[1][1] == 1 and not r[1][3] \
                and r[2] and r[2].endswith("StatementBatch"):
            allowed = LIFE_KINDS.get(fr.life, LIFE_DEFAULT)
            byd = {str(d): n for n, d in self.m.variants(r[2])}
            done = set()
            for v, tb in cases:
                names = {byd[v]} if v in byd else {n for n, d in self.m.variants(r[2]) if str(d) not in {x for x, _ in cases}}
                if names & allowed and tb not in done:
                    done.add(tb)
                    push(tb, env=env)
            return
        # undecided: all distinct targets
        done = set()
        branch_adt = None
        if r[0] == "discr" and r[2] and self.branch_adts and any(r[2].endswith(a) for a in self.branch_adts):
            branch_adt = r[2]
        for _, tb in cases:
            if tb not in done:
                done.add(tb)
                tt = fn.blocks[tb]["t"]
                if tt[0] == "unreachable" and not fn.blocks[tb]["s"]:
                    continue
                if branch_adt is not None:
                    labels = [v for v, x in cases if x == tb]
                    byd = {str(d): n for n, d in self.m.variants(branch_adt)}
                    explicit = {v for v, _ in cases if v != "otherwise"}
                    names = set()
                    for v in labels:
                        if v == "otherwise":
                            names |= {n for n, d in self.m.variants(branch_adt) if str(d) not in explicit}
                        elif v in byd:
                            names.add(byd[v])
                    bev = ("BRANCH", branch_adt.split("::")[-1], tuple(sorted(names)), fn.q, b)
                    mon2 = monitor.on_event(mon, bev)
                    if mon2 == "STOP":
                        continue
                    push(tb, env=env, mon=mon2, ev=bev)
                else:
                    push(tb, env=env)

    def _call(self, frames, fr, fn, b, t, env, s, cok, mon, monitor, push, report):
        call = Call(fn, b)
        q = call.q
        args = call.args
        nxt = call.target
        ev = None
        env2 = env
        s2, cok2 = s, cok
        depth = len(frames)

        def setf(val):
            nonlocal env2
            env2 = dict(env2)
            env2[b] = val

        if q == Q_STATE and args:
            if self.task_tracked(fr, args[0], env):
                setf(("ST", s))
        elif STATE_PRED.match(q) and args:
            r = self.pa.root(fn, args[0])
            if r[0] == "call" and not r[3]:
                v = env.get(r[2])
                if v is not None and v[0] == "ST":
                    setf(("B", self.T[STATE_PRED.match(q).group(1)][v[1]]))
        elif re.search(r"PartialEq.*::(eq|ne)$", q) and len(args) == 2:
            vs = []
            for a in args:
                r = self.pa.root(fn, a)
                v = env.get(r[2]) if (r[0] == "call" and not r[3]) else None
                if v is not None and v[0] == "ST":
                    vs.append(v[1])
                elif r[0] == "agg" and r[1].endswith("state::TaskState"):
                    vs.append(r[2])
                elif r[0] == "const" and r[1].get("promoted") is not None:
                    pv = self._promoted_state(fn, r[1]["promoted"])
                    vs.append(pv)
                else:
                    vs.append(None)
            if None not in vs:
                eq = vs[0] == vs[1]
                setf(("B", eq if q.endswith("::eq") else not eq))
        elif q == Q_ERR and args:
            # invariant (C02.R1): err is Some only while the state is Error
            if self.task_tracked(fr, args[0], env) and s != "Error":
                setf(("OPT", "None"))
        elif q == Q_CTX_TASK and args:
            setf(("TASK", bool(self.ctx_tracked(fr, args[0], env) and cok)))
        elif q == Q_CREATE_CTX and args:
            if self.task_tracked(fr, args[0], env):
                setf(("CTX", True))
                cok2 = True
        elif q == Q_CTX_SET_TASK and len(args) == 2:
            if self.ctx_tracked(fr, args[0], env):
                cok2 = bool(self.task_tracked(fr, args[1], env))
                ev = ("RETARGET", cok2)
        elif q == Q_SET_STATE and len(args) == 2:
            if self.task_tracked(fr, args[0], env):
                r = self.pa.root(fn, args[1])
                S = None
                if r[0] == "agg" and r[1].endswith("state::TaskState"):
                    S = r[2]
                elif r[0] == "call" and not r[3]:
                    v = env.get(r[2])
                    if v is not None and v[0] == "ST":
                        S = v[1]
                if S is None and r[0] == "local":
                    # `set_state(if c { A } else { B })`: a local whose definitions are all constant states
                    consts = set()
                    for d_ in fn.defs().get(r[1], []):
                        if d_[2] == "assign" and d_[3][0] == "agg" and d_[3][1].endswith("state::TaskState") and not d_[3][4]:
                            consts.add(d_[3][2])
                        else:
                            consts = None
                            break
                    if consts:
                        for S_ in sorted(consts):
                            ev_ = ("WRITE", s, S_, fn.q, b)
                            mon_ = monitor.on_event(mon, ev_)
                            self._after(mon_, report, ev_)
                            if mon_ == "STOP" or (isinstance(mon_, tuple) and mon_ and mon_[0] == "VIOL"):
                                continue
                            push(nxt, s=S_, cok=cok2, mon=mon_, env=env2, ev=ev_)
                        return
                if S is None:
                    ev = ("WRITE", s, "?", fn.q, b)
                    mon2 = monitor.on_event(mon, ev)
                    self._after(mon2, report, ev)
                    if mon2 == "STOP" or (isinstance(mon2, tuple) and mon2 and mon2[0] == "VIOL"):
                        return
                    for S in STATES:
                        push(nxt, s=S, cok=cok2, mon=mon2, env=env2, ev=ev)
                    return
                ev = ("WRITE", s, S, fn.q, b)
                s2 = S
            else:
                ev = ("WRITE_OTHER", fn.q, b)
        elif q == Q_SET_ERR and args:
            if self.task_tracked(fr, args[0], env):
                ev = ("WRITE", s, "Error", fn.q, b)
                s2 = "Error"
            else:
                ev = ("WRITE_OTHER", fn.q, b)
        elif q == Q_IS_READY and args:
            if self.task_tracked(fr, args[0], env):
                ev = ("READY_CHECK", fn.q, b)
        elif q == Q_EMIT_TASK and len(args) == 2:
            ev = ("EMIT", s, fn.q, b) if self.task_tracked(fr, args[1], env) else ("EMIT_OTHER", fn.q, b)
        elif q == Q_EMIT_EVENT and len(args) == 2:
            ev = ("EMIT_EVENT", s, fn.q, b) if self.task_tracked(fr, args[1], env) else ("EMIT_OTHER", fn.q, b)
        elif q == Q_UPSERT and len(args) == 2:
            ev = ("PERSIST", s, fn.q, b) if self.task_tracked(fr, args[1], env) else None
        elif q == Q_PUSH and len(args) == 2:
            ev = ("PERSIST", s, fn.q, b) if self.task_tracked(fr, args[1], env) else ("PUSH_OTHER", fn.q, b)
        elif q == Q_SCHED:
            ev = ("SCHED", fn.q, b, self._sched_kind(fn, args))
        elif self.effect_callees is not None and self.effect_callees.search(q):
            ev = ("EFFECT", q, fn.q, b, bool(args and self.task_tracked(fr, args[0], env)), s,
                  any(f_.fn.q == self.on_task.q for f_ in frames))
        elif TRY_BRANCH.search(q) and args:
            r = self.pa.root(fn, args[0])
            v = None
            if args[0][0] != "k" and not args[0][1][1] and ("L", args[0][1][0]) in env:
                v = env[("L", args[0][1][0])]
            elif r[0] == "call" and not r[3]:
                v = env.get(r[2])
            elif r[0] == "local" and not r[3]:
                v = env.get(("L", r[1]))
            if v is not None and v[0] == "RES":
                setf(("BR", 0 if v[1] == "Ok" else 1))
        elif FROM_RESIDUAL.search(q) and call.dest[0] == 0 and not call.dest[1]:
            env2 = dict(env2)
            env2["ek"] = "ERR_PROP"
            # `x.ok_or(ActError::..)?`: the error is constructed here, not propagated from a callee
            r = self.pa.root(fn, args[0]) if args else None
            if r is not None and r[0] == "call" and TRY_BRANCH.search(r[1]):
                ba = Call(fn, r[2]).args[0]
                r2 = self.pa.root(fn, ba)
                if r2[0] == "call" and re.search(r"Option::<T>::ok_or(_else)?$", r2[1]):
                    env2["ek"] = "ERR_NEW"
                elif r2[0] == "call" and env2.get("eo") == r2[2]:
                    env2["ek"] = "ERR_PROP_NEW"   # the inlined callee constructed the error it returned
                else:
                    lv = None
                    if ba[0] != "k" and not ba[1][1]:
                        lv = env2.get(("L", ba[1][0]))
                    if lv is None and r2[0] == "local" and not r2[3]:
                        lv = env2.get(("L", r2[1]))
                    if lv is not None and lv[0] == "RES" and len(lv) > 2 and lv[2] == "NEW":
                        env2["ek"] = "ERR_NEW"    # `_r = Err(..)` literal in this body (an inlined helper's refusal)

        if call.dest[0] == 0 and not call.dest[1] and not FROM_RESIDUAL.search(q):
            env2 = dict(env2)
            env2["ek"] = "CALL"

        mon2 = mon
        if ev is not None:
            mon2 = monitor.on_event(mon, ev)
            self._after(mon2, report, ev)
            if mon2 == "STOP" or (isinstance(mon2, tuple) and mon2 and mon2[0] == "VIOL"):
                return
        if nxt is None:
            return

        # ---- closures passed to unwrap_or_else: run iff the receiver is Err --------------------
        if UNWRAP_OR_ELSE.search(q) and len(args) == 2:
            r0 = self.pa.root(fn, args[0])
            res = env.get(r0[2]) if (r0[0] == "call" and not r0[3]) else None
            rc = self.pa.root(fn, args[1])
            if rc[0] == "closure" and rc[1] in self.m.fns and rc[1] in self.events_of_interest:
                cf = self.m.fns[rc[1]]
                if res is None or res == ("RES", "Err"):
                    fr2 = self._closure_frame(fr, fn, rc, cf, env, nxt, b, env2)
                    stack_frames = frames + (fr2,)
                    push(0, s=s2, cok=cok2, mon=mon2, env={}, frames=stack_frames, ev=ev)
                if res is None or res == ("RES", "Ok"):
                    push(nxt, s=s2, cok=cok2, mon=mon2, env=env2, ev=ev)
                return

        # ---- closures passed to for_each: zero or more runs (explored as: skip, or run once) -------
        if re.search(r"Iterator::for_each$|Option::<T>::map$|Option::<T>::inspect$", q) and len(args) == 2:
            rc = self.pa.root(fn, args[1])
            if rc[0] == "closure" and rc[1] in self.m.fns and rc[1] in self.events_of_interest and depth < self.maxdepth:
                cf = self.m.fns[rc[1]]
                fr2 = self._closure_frame(fr, fn, rc, cf, env, nxt, b, env2)
                if fr2.tup or fr2.cup:
                    push(0, s=s2, cok=cok2, mon=mon2, env={}, frames=frames + (fr2,), ev=ev)
                    push(nxt, s=s2, cok=cok2, mon=mon2, env=env2, ev=ev)
                    return
        # ---- inlining ------------------------------------------------------------------------
        targets = []
        if q in self.m.fns:
            targets = [q]
        elif call.kind in ("virtual", "generic"):
            targets = self.sm.impls_of(call)
        inlined = False
        if ev is None or ev[0] in ("RETARGET",):
            pass
        # emitting *another* task is decided at the call site, where that task's state is visible
        skip_inline = (q == Q_EMIT_TASK and ev is not None and ev[0] == "EMIT_OTHER")
        if q not in NEVER_INLINE and q not in self.no_inline and targets and depth < self.maxdepth and not skip_inline:
            tp = set()
            cp = set()
            for i, a in enumerate(args):
                if a[0] == "k":
                    continue
                if self.task_tracked(fr, a, env):
                    tp.add(i + 1)
                elif self.ctx_tracked(fr, a, env):
                    cp.add(i + 1)
            other_task = False
            for i, a in enumerate(args):
                if a[0] == "k" or (i + 1) in tp:
                    continue
                ty = fn.local_ty(a[1][0]) if not a[1][1] else ""
                if "process::task::Task" in ty and "Vec<" not in ty and "Option<" not in ty and "Event<" not in ty:
                    other_task = True
            if tp or (cp and cok):
                for tq in targets:
                    cf = self.m.fns[tq]
                    if tq not in self.events_of_interest and not (tp and tq in self.state_readers and self._small_reader(tq)):
                        continue
                    if sum(1 for f in frames if f.fn.q == tq) >= (self.recursion_in_handler if len(frames) > 4 and any(f.fn.q == self.on_task.q for f in frames) else 1):
                        continue  # recursion: handled by havoc below
                    inlined = True
                    self.stats["inlined"].add(tq)
                    life = fr.life
                    if tq == Q_RUN_HOOKS_BY and len(args) >= 2:
                        kr = self.pa.root(fn, args[1])
                        life = kr[2] if (kr[0] == "agg" and kr[1].endswith("TaskLifeCycle")) else None
                    fr2 = Frame(cf, tp, cp, retblk=nxt, callblk=b, saved=tuple(sorted(env2.items(), key=repr)), life=life)
                    push(0, s=s2, cok=cok2, mon=mon2, env={}, frames=frames + (fr2,), ev=ev)
                if inlined and len([tq for tq in targets if tq in self.events_of_interest or (tp and tq in self.state_readers and self._small_reader(tq))]) == len(targets):
                    return
                if inlined:
                    # some targets are uninteresting (no events): they just return
                    push(nxt, s=s2, cok=cok2, mon=mon2, env=env2, ev=ev)
                    return
        # result of a non-inlined callee that cannot fail
        if targets and all(tq in self.m.fns and self.m.fns[tq].returns_result() and tq not in self.sm.may_fail() for tq in targets):
            env2 = dict(env2)
            env2[b] = ("RES", "Ok")
        if call.dest[0] == 0 and not call.dest[1] and env2.get("ek") == "CALL" and env2.get(b, (None,))[0] == "RES":
            env2 = dict(env2)
            env2["ek"] = "OK" if env2[b][1] == "Ok" else "ERR_PROP"
            env2.pop("eo", None)
        if not call.dest[1] and len(fn.defs().get(call.dest[0], ())) > 1:
            if env2.get(b, (None,))[0] == "RES":
                env2 = dict(env2)
                env2[("L", call.dest[0])] = env2[b]
            elif ("L", call.dest[0]) in env2:
                env2 = dict(env2)
                env2.pop(("L", call.dest[0]), None)
        # inductive hypothesis H (proved by C02.R3h): `exec` of a task that is in state Running cannot
        # return Err. Applied to the resume idiom `t.set_state(Running); ..; t.exec(ctx)?` on another task.
        if q == Q_EXEC and args and not self.task_tracked(fr, args[0], env):
            if const_state_of_other(self.pa, fn, b, self.pa.root(fn, args[0])) == "Running":
                env2 = dict(env2)
                env2[b] = ("RES", "Ok")
                self.stats.setdefault("H_used", set()).add((fn.q, b))
        elif q == Q_EXEC and args and s2 == "Running" and any(f.fn.q == Q_EXEC for f in frames):
            # a recursive exec of the tracked task itself (resume): H applies to it as well
            env2 = dict(env2)
            env2[b] = ("RES", "Ok")
            self.stats.setdefault("H_used", set()).add((fn.q, b))
        # ---- emit_task_event runs the on_task handler synchronously --------------------------------
        if q == Q_EMIT_EVENT and ev is not None and ev[0] == "EMIT_EVENT" and self.env_actions and s2 in self.env_actions:
            # interference: the announcement reaches a client, whose answer (another thread) may change the task from
            # here on; the facts read before stay as they are (that is what the running invocation still believes)
            for S in self.env_actions[s2]:
                eev = ("ENV", s2, S, fn.q, b)
                mon_e = monitor.on_event(mon2, eev)
                self._after(mon_e, report, eev)
                if mon_e == "STOP" or (isinstance(mon_e, tuple) and mon_e and mon_e[0] == "VIOL"):
                    continue
                push(nxt, s=S, cok=cok2, mon=mon_e, env=env2, ev=eev)
        if q == Q_EMIT_EVENT and ev is not None and ev[0] == "EMIT_EVENT" and depth < self.maxdepth + 3:
            # the handler may nest (a hook that revives the task and reviews it emits again): two levels
            if sum(1 for f in frames if f.fn.q == self.on_task.q) < self.handler_nesting:
                fr2 = Frame(self.on_task, (2,), (), retblk=nxt, callblk=b, saved=tuple(sorted(env2.items(), key=repr)), life=None)
                push(0, s=s2, cok=cok2, mon=mon2, env={}, frames=frames + (fr2,), ev=ev)
                return
        # ---- not inlined: havoc if it may write some task's state ------------------------------
        may_write = any((tq in self.sm.may_write) for tq in targets) if targets else False
        if q in (Q_SET_STATE, Q_SET_ERR):
            may_write = False  # a write to another task object (distinct root = distinct task, A3)
        if q in NO_HAVOC:
            may_write = False
        if may_write and q in (Q_EMIT_TASK, Q_EMIT_EVENT) and len(args) == 2:
            # hooks of another task: they act only if that task is in a state whose hooks write
            S = const_state_of_other(self.pa, fn, b, self.pa.root(fn, args[1]))
            if S is not None and not self.hook_effect(S):
                may_write = False
        if may_write and targets and all(self.self_only_writer(tq) for tq in targets) and args and not self.task_tracked(fr, args[0], env):
            may_write = False  # writes only its own (other) receiver
        if may_write:
            self.stats["havocs"].add(q)
            hev = ("HAVOC", short_name(q), fn.q, b)
            mon3 = monitor.on_event(mon2, hev)
            self._after(mon3, report, hev)
            if mon3 == "STOP" or (isinstance(mon3, tuple) and mon3 and mon3[0] == "VIOL"):
                return
            for S in sorted(closure(s2)):
                mon_s = mon3
                if S != s2:
                    # the re-entrant call moved the tracked task itself: monitors that care are told where to
                    tev = ("HAVOC_TO", s2, S, fn.q, b)
                    mon_s = monitor.on_event(mon3, tev)
                    self._after(mon_s, report, tev)
                    if mon_s == "STOP" or (isinstance(mon_s, tuple) and mon_s and mon_s[0] == "VIOL"):
                        continue
                push(nxt, s=S, cok=cok2, mon=mon_s, env=env2, ev=hev if S != s2 else ev)
            return
        push(nxt, s=s2, cok=cok2, mon=mon2, env=env2, ev=ev)

    def _small_reader(self, q):
        """a pure reader of the task state worth inlining: a Result- or bool-returning local function (the shape of an
        extracted guard); other readers (accessors building messages, ..) do not decide a branch of their caller"""
        f = self.m.fns.get(q)
        if f is None:
            return False
        ty = f.locals[0]
        return ty == "bool" or f.returns_result()

    def _bool_of(self, fn, r, env, depth=0):
        """truth value of a provenance root under the facts of `env`, or None"""
        if depth > 6:
            return None
        if r[0] == "not":
            v = self._bool_of(fn, r[1], env, depth + 1)
            return None if v is None else (not v)
        if r[0] == "call" and not r[3]:
            v = env.get(r[2])
            if v is not None and v[0] == "B":
                return v[1]
        if r[0] == "const" and r[1].get("ty") == "bool" and "int" in r[1]:
            return bool(int(r[1]["int"]))
        if r[0] == "local" and not r[3]:
            # a local with several definitions whose value on this path is known (the return value of a helper that was
            # inlined back travels through one)
            v = env.get(("L", r[1]))
            if v is not None and v[0] == "B":
                return v[1]
        return None

    def _sched_kind(self, fn, args):
        """what is scheduled: a `child` node (element of node.children()/children_in()) or the `next` node"""
        if len(args) < 2:
            return "?"
        r = self.pa.root(fn, args[1])
        if r[0] == "call":
            if r[1].endswith("Node::next") or "Weak" in r[1]:
                return "next"
            src = self.pa.iter_source(fn, ("call", r[1], r[2], ()))
            if src is not None and src[0][0] == "call":
                if re.search(r"Node::children(_in)?$", src[0][1]):
                    return "child"
        if r[0] == "local":
            return "next"
        return "?"

    def _closure_frame(self, fr, fn, rc, cf, env, nxt, b, env2):
        # which captured variables denote the tracked task / ctx
        _, cq, cb, csi = rc
        ops = fn.blocks[cb]["s"][csi][2][2]
        tup, cup = set(), set()
        names = [u[0] for u in cf.upvars]
        # upvars are listed in capture order (field index)
        idx = {}
        for name, (l, p) in cf.upvars:
            for e in p:
                if isinstance(e, list) and e[0] == "f":
                    idx[e[1]] = name
                    break
        for i, op in enumerate(ops):
            name = idx.get(i)
            if name is None or op[0] == "k":
                continue
            if self.task_tracked(fr, op, env):
                tup.add(name)
            elif self.ctx_tracked(fr, op, env):
                cup.add(name)
        return Frame(cf, (), (), tup, cup, retblk=nxt, callblk=b, saved=tuple(sorted(env2.items(), key=repr)), life=fr.life)

    def _promoted_state(self, fn, idx):
        try:
            pb = fn.promoted[idx]
        except Exception:
            return None
        for blk in pb.blocks:
            for s in blk["s"]:
                if s[0] == "A" and s[2][0] == "agg" and s[2][1].endswith("state::TaskState"):
                    return s[2][2]
        return None

    def _after(self, mon2, report, ev):
        if isinstance(mon2, tuple) and mon2 and mon2[0] == "VIOL":
            report(mon2[1], ev)

    def _path(self, seen, key):
        evs = []
        n = 0
        while key is not None and n < 100000:
            pk, pev = seen[key]
            if pev:
                evs.append(pev)
            key = pk
            n += 1
        return evs[::-1]


def fmt_event(m, ev):
    k = ev[0]

    def at(q, b):
        f = m.fns.get(q)
        return "%s @%s" % (short_name(q), f.loc(b) if f else "?")

    if k == "WRITE":
        return "WRITE %s->%s in %s" % (ev[1], ev[2], at(ev[3], ev[4]))
    if k in ("EMIT", "EMIT_EVENT", "PERSIST"):
        return "%s(state=%s) in %s" % (k, ev[1], at(ev[2], ev[3]))
    if k == "HAVOC":
        return "call %s may change other tasks (tracked state re-chosen) in %s" % (ev[1], at(ev[2], ev[3]))
    if k in ("SCHED", "READY_CHECK", "EMIT_OTHER", "WRITE_OTHER", "PUSH_OTHER"):
        return "%s in %s" % (k, at(ev[1], ev[2]))
    if k == "EFFECT":
        return "EFFECT %s in %s" % (short_name(ev[1]), at(ev[2], ev[3]))
    if k == "BRANCH":
        return "match %s = %s in %s" % (ev[1], "|".join(ev[2]), at(ev[3], ev[4]))
    if k == "HAVOC_TO":
        return "that call moved the tracked task %s -> %s (%s)" % (ev[1], ev[2], at(ev[3], ev[4]))
    if k == "ENV":
        return "CLIENT answers the task announced as %s: it becomes %s (and is reported so) right after %s" % (ev[1], ev[2], at(ev[3], ev[4]))
    if k == "EXIT":
        return "EXIT %s with state %s" % (ev[1], ev[2])
    return str(ev)
