"""thorough tier: the check is run against its own decision boundary.

For property P the corpus is (a) every seeded change (seeded/<n>/patch.diff, written by independent sub-agents, each confirmed
to break a property while the suite stays green) that P's rules are recorded to catch or that was written against P, and (b)
the behaviour-preserving patches of benign/ that once made P raise an alarm. Each patch is applied to a scratch copy of /repo's
current working tree (outside /repo and /verif, removed afterwards), the facts are extracted from that copy and P's rules are
run on it in a sub-process. Expected: every (a) is reported (exit 1), every (b) is quiet (exit 0). Patches that do not apply to
the current tree (the tree has moved on) are skipped and listed.

The result never changes the verdict on /repo (that is the quick tier's, re-run first); it is printed as SELFTEST lines and
stored in the evidence file, so that a reader can see how far the rules reach and where they stop. Still static analysis: the
sub-process is the same `vcheck`; nothing of acts is executed."""
import glob
import json
import os
import shutil
import subprocess
import sys
import tempfile

VERIF = os.path.dirname(os.path.dirname(os.path.abspath(__file__)))


def corpus(prop):
    seeds, benign = [], []
    for p in sorted(glob.glob(os.path.join(VERIF, "seeded", "*", "meta.json"))):
        try:
            m = json.load(open(p))
        except Exception:
            continue
        if m.get("status") == "obsolete":
            continue
        name = os.path.basename(os.path.dirname(p))
        caught = set(m.get("caught_by_properties") or [])
        if prop in caught:
            seeds.append((name, os.path.join(os.path.dirname(p), "patch.diff"), sorted(r for r in (m.get("caught_by_rules") or []) if r.startswith(prop + "."))))
    try:
        idx = json.load(open(os.path.join(VERIF, "benign", "INDEX.json")))
    except Exception:
        idx = {}
    for rel, props in sorted(idx.items()):
        if prop in props:
            benign.append((rel, os.path.join(VERIF, rel)))
    return seeds, benign


def run(prop, repo):
    seeds, benign = corpus(prop)
    out = {"seeded": [], "benign": [], "skipped": []}
    if not seeds and not benign:
        return out
    base = tempfile.mkdtemp(prefix="acts-selftest-%s-" % prop, dir=os.environ.get("VERIF_SCRATCH", "/var/tmp"))
    tree = os.path.join(base, "tree")
    try:
        subprocess.run(["rsync", "-a", "--exclude", ".git", "--exclude", "target", repo.rstrip("/") + "/", tree + "/"], check=True)
        env = dict(os.environ)
        env["ACTS_REPO"] = tree
        env["VCHECK_SCRATCH_OUT"] = os.path.join(base, "out")
        env["VERIF_TIER"] = "quick"
        env.pop("VCHECK_VERBOSE", None)
        for kind, items in (("seeded", seeds), ("benign", benign)):
            for it in items:
                name, patch = it[0], it[1]
                a = subprocess.run(["git", "apply", "--whitespace=nowarn", patch], cwd=tree, stdout=subprocess.PIPE, stderr=subprocess.STDOUT, text=True)
                if a.returncode != 0:
                    out["skipped"].append({"patch": name, "why": "does not apply to the current tree"})
                    continue
                r = subprocess.run([sys.executable, os.path.join(VERIF, "vcheck"), prop, "--tier", "quick", "--no-selftest"], cwd=VERIF, env=env,
                                   stdout=subprocess.PIPE, stderr=subprocess.STDOUT, text=True)
                import re
                rules = sorted(set(re.findall(r"violated: \[(C\d\d\.R\w+)\|", r.stdout)))
                rec = {"patch": name, "exit": r.returncode, "rules": rules}
                if kind == "seeded":
                    rec["expected_rules"] = it[2]
                    rec["ok"] = r.returncode == 1
                else:
                    rec["ok"] = r.returncode == 0
                out[kind].append(rec)
                subprocess.run(["git", "apply", "-R", "--whitespace=nowarn", patch], cwd=tree, stdout=subprocess.DEVNULL, stderr=subprocess.DEVNULL)
    finally:
        shutil.rmtree(base, ignore_errors=True)
    return out
