"""E5: tabulation of total functions over field-less enums (and their &str / integer images) by a
tiny partial evaluator over the MIR subset {Discriminant, SwitchInt, constants, unit-variant
aggregates, derived PartialEq, str == const, calls to other tabulated functions}.
Anything outside that subset yields UNDECIDED (None) - never a guess."""
import re

from .model import Anchor

PASS_THROUGH = re.compile(
    r"(as std::clone::Clone>::clone$|^std::clone::Clone::clone$|as std::ops::Deref>::deref$"
    r"|as std::string::ToString>::to_string$|^std::string::ToString::to_string$|^std::str::<impl str>::to_string$"
    r"|as std::convert::From<&str>>::from$|as std::convert::From<.*>>::from$|as std::convert::Into<.*>>::into$"
    r"|^std::str::<impl str>::to_owned$|as std::borrow::ToOwned>::to_owned$|^std::string::String::as_str$"
    r"|as std::convert::AsRef<str>>::as_ref$|as std::borrow::Borrow<str>>::borrow$)"
)
EQ = re.compile(r"as std::cmp::PartialEq(<.*>)?>::eq$|^std::cmp::PartialEq::eq$|<impl std::cmp::PartialEq(<.*>)? for .*>::eq$")
NE = re.compile(r"as std::cmp::PartialEq(<.*>)?>::ne$|^std::cmp::PartialEq::ne$|<impl std::cmp::PartialEq(<.*>)? for .*>::ne$")


class Undecided(Exception):
    pass


class EnumEval:
    def __init__(self, model):
        self.m = model
        self.memo = {}

    def variant_by_discr(self, adt, d):
        for n, dv in self.m.variants(adt):
            if dv == d:
                return n
        raise Undecided("no variant with discr %s in %s" % (d, adt))

    def discr_of(self, adt, name):
        for n, dv in self.m.variants(adt):
            if n == name:
                return dv
        raise Undecided("no variant %s in %s" % (name, adt))

    def call(self, fn, args, depth=0):
        key = (fn.q, repr(args))
        if key in self.memo:
            v = self.memo[key]
            if isinstance(v, Undecided):
                raise v
            return v
        try:
            v = self._run(fn, args, depth)
        except Undecided as e:
            self.memo[key] = e
            raise
        self.memo[key] = v
        return v

    def _run(self, fn, args, depth):
        if depth > 8:
            raise Undecided("depth")
        env = {}
        for i, a in enumerate(args):
            env[i + 1] = a

        def place(loc, proj):
            v = env.get(loc)
            for p in proj:
                if p == "*":
                    continue
                if v is None:
                    break
                if isinstance(p, list) and p[0] == "f":
                    if v[0] == "struct" and p[2] in v[1]:
                        v = v[1][p[2]]
                        continue
                    if v[0] == "tuple" and p[2].isdigit() and int(p[2]) < len(v[1]):
                        v = v[1][int(p[2])]
                        continue
                    if v[0] == "agg" and p[2].isdigit() and int(p[2]) < len(v[3]):
                        v = v[3][int(p[2])]
                        continue
                    if v[0] == "some" and p[2] == "0":
                        v = v[1]
                        continue
                if isinstance(p, list) and p[0] == "d":
                    continue
                raise Undecided("projection %r in %s" % (p, fn.short))
            if v is None:
                raise Undecided("unknown local _%d in %s" % (loc, fn.short))
            return v

        def val(op):
            if op[0] == "k":
                c = op[1]
                if "int" in c:
                    n = int(c["int"])
                    if c.get("ty") == "bool":
                        return ("bool", bool(n))
                    return ("int", n)
                if "str" in c:
                    return ("str", c["str"])
                if "uneval" in c and c.get("promoted") is not None:
                    pb = fn.promoted[c["promoted"]]
                    return self._run(pb, [], depth + 1)
                if "zst" in c:
                    return ("unit",)
                if "alloc" in c or "fn" in c:
                    return ("opaque",)
                raise Undecided("constant %r" % (c,))
            loc, proj = op[1]
            return place(loc, proj)

        b = 0
        steps = 0
        while True:
            steps += 1
            if steps > 4000:
                raise Undecided("loop in %s" % fn.short)
            blk = fn.blocks[b]
            for s in blk["s"]:
                if s[0] != "A":
                    raise Undecided("stmt %s" % s[0])
                loc, proj = s[1]
                rv = s[2]
                if proj:
                    raise Undecided("partial assignment in %s" % fn.short)
                k = rv[0]
                if k == "use":
                    env[loc] = val(rv[1])
                elif k in ("ref", "addr"):
                    env[loc] = place(rv[1][0], rv[1][1])
                elif k == "discr":
                    v = place(rv[1][0], rv[1][1])
                    if v[0] == "agg":
                        env[loc] = ("int", self.discr_of(v[1], v[2]))
                    elif v[0] == "some":
                        env[loc] = ("int", 1)
                    elif v[0] == "none":
                        env[loc] = ("int", 0)
                    elif v[0] != "enum":
                        raise Undecided("discriminant of non-enum")
                    else:
                        env[loc] = ("int", self.discr_of(v[1], v[2]))
                elif k == "un" and rv[1] == "Not":
                    v = val(rv[2])
                    if v[0] != "bool":
                        raise Undecided("not of non-bool")
                    env[loc] = ("bool", not v[1])
                elif k == "agg":
                    if rv[4]:
                        if rv[1].endswith("option::Option") and rv[2] == "Some":
                            env[loc] = ("some", val(rv[4][0]))
                            continue
                        env[loc] = ("agg", rv[1], rv[2], tuple(val(o) for o in rv[4]))
                        continue
                    if rv[1].endswith("option::Option") and rv[2] == "None":
                        env[loc] = ("none",)
                    else:
                        env[loc] = ("enum", rv[1], rv[2])
                elif k == "bin" and rv[1] in ("Eq", "Ne", "Lt", "Le", "Gt", "Ge", "Mul", "Add", "MulWithOverflow", "AddWithOverflow"):
                    a, c = val(rv[2]), val(rv[3])
                    if a[0] not in ("int", "bool") or c[0] not in ("int", "bool"):
                        raise Undecided("binop on %s" % a[0])
                    x, y = a[1], c[1]
                    r = {"Eq": x == y, "Ne": x != y, "Lt": x < y, "Le": x <= y, "Gt": x > y, "Ge": x >= y}.get(rv[1])
                    if r is None:
                        res = ("int", x * y if rv[1].startswith("Mul") else x + y)
                        # checked arithmetic yields (value, overflowed)
                        env[loc] = ("tuple", (res, ("bool", False))) if fn.locals[loc].startswith("(") else res
                    else:
                        env[loc] = ("bool", r)
                elif k == "cast" and rv[1] in ("IntToInt",):
                    v = val(rv[2])
                    if v[0] == "enum":
                        env[loc] = ("int", self.discr_of(v[1], v[2]))
                    else:
                        env[loc] = v
                elif k in ("tuple", "array"):
                    env[loc] = ("tuple", tuple(val(o) if (o[0] == "k" or o[1][0] in env) else ("opaque",) for o in rv[1]))
                else:
                    raise Undecided("rvalue %s in %s" % (k, fn.short))
            t = blk["t"]
            k = t[0]
            if k == "goto":
                b = t[1]
            elif k == "switch":
                v = val(t[1])
                if v[0] == "bool":
                    n = 1 if v[1] else 0
                elif v[0] == "int":
                    n = v[1]
                else:
                    raise Undecided("switch on %s" % v[0])
                tgt = t[3]
                for sv, tb in t[2]:
                    if int(sv) == n:
                        tgt = tb
                b = tgt
            elif k == "ret":
                if 0 not in env:
                    return ("unit",)
                return env[0]
            elif k == "drop":
                b = t[2]
            elif k == "assert":
                b = t[3]
            elif k == "call" and (t[1].get("q") or "").endswith("fmt::format") or (k == "call" and "fmt::Arguments" in (t[1].get("q") or "")) or (k == "call" and "fmt::rt::Argument" in (t[1].get("q") or "")):
                # building an error message: the value is irrelevant
                if t[3][1]:
                    raise Undecided("call into projection")
                env[t[3][0]] = ("opaque",)
                if t[4] is None:
                    raise Undecided("diverging call")
                b = t[4]
            elif k == "call":
                q = t[1].get("q") or ""
                dest = t[3]
                if dest[1]:
                    raise Undecided("call into projection")
                argv = [val(a) for a in t[2]]
                if EQ.search(q) or NE.search(q):
                    a, c = argv
                    if a[0] != c[0] or a[0] not in ("enum", "str", "int", "bool"):
                        raise Undecided("eq on %s/%s" % (a[0], c[0]))
                    r = a == c
                    env[dest[0]] = ("bool", r if EQ.search(q) else not r)
                elif PASS_THROUGH.search(q) and len(argv) == 1 and q not in self.m.fns:
                    env[dest[0]] = argv[0]
                elif q in self.m.fns:
                    env[dest[0]] = self.call(self.m.fns[q], argv, depth + 1)
                else:
                    # trait-dispatched local conversions: `Into::into` -> local `From::from`
                    tgt = self._resolve_into(t[1])
                    if tgt is not None:
                        env[dest[0]] = self.call(tgt, argv, depth + 1)
                    else:
                        raise Undecided("call to %s in %s" % (q, fn.short))
                if t[4] is None:
                    raise Undecided("diverging call")
                b = t[4]
            else:
                raise Undecided("terminator %s" % k)

    def _resolve_into(self, callee):
        full = callee.get("full") or ""
        m = re.match(r"^<(.*) as std::convert::Into<(.*)>>::into$", full)
        if not m:
            return None
        src, dst = m.group(1), m.group(2)
        for f in self.m.fns.values():
            if f.impl_trait and f.impl_trait.startswith("std::convert::From<") and f.q.endswith("::from"):
                if f.impl_trait == "std::convert::From<%s>" % src and f.impl_self == dst:
                    return f
        return None

    # ---- convenience ------------------------------------------------------------------------
    def table(self, fn, adt, extra_args=()):
        """{variant: value or None}"""
        out = {}
        for n, _ in self.m.variants(adt):
            try:
                out[n] = self.call(fn, [("enum", adt, n)] + list(extra_args))
            except Undecided as e:
                out[n] = None
                out.setdefault("__why__", str(e))
        return out

    def pred_table(self, fn, adt):
        t = self.table(fn, adt)
        why = t.pop("__why__", None)
        if any(v is None or v[0] != "bool" for v in t.values()):
            raise Anchor("cannot tabulate %s over %s: %s" % (fn.short, adt, why))
        return {k: v[1] for k, v in t.items()}


TASK_STATE = "acts::scheduler::state::TaskState"


def task_state_tables(model):
    """{'is_completed': {variant: bool}, ...} for every `TaskState::is_*` predicate"""
    ev = EnumEval(model)
    out = {}
    for f in model.find(r"^acts::scheduler::state::TaskState::is_[a-z_]+$"):
        out[f.q.split("::")[-1]] = ev.pred_table(f, TASK_STATE)
    if len(out) < 13:
        raise Anchor("expected >= 13 TaskState predicates, found %d" % len(out))
    return out
