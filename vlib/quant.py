"""quantifier expressions over an iterator and how their truth value leaves a function.

A rule that says "ready iff SOME sibling satisfies p" must not care whether the program spells it
`iter.filter(p).count() > 0`, `iter.any(p)`, `iter.find(p).is_some()`, `iter.position(p).is_some()`,
`!iter.all(|x| !p(x))` is not recognised (p would have to be negated - stays undecided), nor whether the verdict leaves the
function as `if e { return true } return false` or as `return e` / tail expression. This module normalises both:

  quantifiers(m, f)        -> [Quant]   every quantifier expression found in f
  Quant.kind               'exists' | 'forall' | 'none'   (none = "no element satisfies p")
  Quant.closure            the predicate closure (Fn) or None
  Quant.source             the call whose receiver is the iterated collection (for provenance checks)
  Quant.holds_at(f, b)     True / False / None: is the quantifier expression known true / false whenever block b runs
  Quant.is_returned(f)     +1 the function returns exactly the expression's value on the paths through it, -1 its negation,
                           0 neither shape found
"""
import re

from .model import Call, Prov, guards_of

ANY = re.compile(r"Iterator(>)?::any(::<.*>)?$")
ALL = re.compile(r"Iterator(>)?::all(::<.*>)?$")
FILTER = re.compile(r"Iterator(>)?::filter(::<.*>)?$")
COUNT = re.compile(r"Iterator(>)?::count$")
FIND = re.compile(r"Iterator(>)?::(find|position|rposition)(::<.*>)?$")
IS_SOME = re.compile(r"^std::option::Option::<T>::is_some$")
IS_NONE = re.compile(r"^std::option::Option::<T>::is_none$")


class Quant:
    def __init__(self, m, f, kind, closure, source, root, flipped=False):
        self.m, self.f, self.kind, self.closure, self.source, self.root = m, f, kind, closure, source, root
        # root: the provenance root (value mode) of the boolean; for bin roots the boolean is the comparison itself
        self.flipped = flipped

    def _match(self, r):
        """+1 if root r is this boolean, -1 if it is its negation, 0 otherwise"""
        neg = 1
        while r[0] == "not":
            neg = -neg
            r = r[1]
        mine = self.root
        if r[0] == "bin" and r[1] == "Ne":
            r = ("bin", "Eq") + tuple(r[2:])
            neg = -neg
        if mine[0] == "bin" and mine[1] == "Ne":
            mine = ("bin", "Eq") + tuple(mine[2:])
            neg = -neg
        if r == mine:
            return neg
        return 0

    def holds_at(self, f, b):
        pv_guards = guards_of(self.m, f, b, mode="value")
        for g in pv_guards:
            if g.truth is None:
                continue
            mt = self._match(g.root)
            if mt:
                # Guard already folds leading negations into .truth of the un-negated root
                return g.truth
        return None

    def is_returned(self, f):
        pv = Prov(self.m, "value")
        trues, falses, direct = [], [], []
        # the return place and the locals that are only copied into it (the return value of a helper that was inlined back
        # travels through such a local)
        RET = {0}
        changed = True
        while changed:
            changed = False
            for b in f.blocks:
                for s in b["s"]:
                    if s[0] == "A" and s[1][0] in RET and not s[1][1] and s[2][0] == "use" and s[2][1][0] in ("c", "m") and not s[2][1][1][1]:
                        L = s[2][1][1][0]
                        if L not in RET and len(f.defs().get(L, [])) > 1:
                            RET.add(L)
                            changed = True
        for bi, b in enumerate(f.blocks):
            for s in b["s"]:
                if s[0] == "A" and s[1][0] in RET and not s[1][1]:
                    if s[2][0] == "use" and s[2][1][0] in ("c", "m") and not s[2][1][1][1] and s[2][1][1][0] in RET:
                        continue
                    rv = s[2]
                    if rv[0] == "use" and rv[1][0] == "k" and rv[1][1].get("ty") == "bool":
                        (trues if rv[1][1].get("int") == "1" else falses).append(bi)
                    elif rv[0] == "use":
                        direct.append((bi, pv.root(f, rv[1])))
                    elif rv[0] == "bin":
                        direct.append((bi, ("bin", rv[1], pv.root(f, rv[2]), pv.root(f, rv[3]))))
                    elif rv[0] == "un" and rv[1] == "Not":
                        direct.append((bi, ("not", pv.root(f, rv[2]))))
            t = b["t"]
            if t[0] == "call" and t[3][0] in RET and not t[3][1]:
                direct.append((bi, ("call", t[1].get("q") or "", bi, ())))
        for bi, r in direct:
            mt = self._match(r)
            if mt:
                return mt
        pos = any(self.holds_at(f, b) is True for b in trues)
        neg = any(self.holds_at(f, b) is True for b in falses)
        if pos and not neg:
            return 1
        if neg and not pos:
            return -1
        return 0


def _closure_of(m, f, pa, c):
    for a in c.args[1:]:
        r = pa.root(f, a)
        if r[0] == "closure" and r[1] in m.fns:
            return m.fns[r[1]]
    return None


def quantifiers(m, f):
    pa = Prov(m, "alias")
    pv = Prov(m, "value")
    out = []
    calls = list(f.calls())
    for c in calls:
        if ANY.search(c.q):
            out.append(Quant(m, f, "exists", _closure_of(m, f, pa, c), c, ("call", c.q, c.b, ())))
        elif ALL.search(c.q):
            out.append(Quant(m, f, "forall", _closure_of(m, f, pa, c), c, ("call", c.q, c.b, ())))
        elif FIND.search(c.q):
            # find(p).is_some() / is_none()
            for d in calls:
                if (IS_SOME.search(d.q) or IS_NONE.search(d.q)) and d.args:
                    r = pa.root(f, d.args[0])
                    if r[:3] == ("call", c.q, c.b):
                        out.append(Quant(m, f, "exists" if IS_SOME.search(d.q) else "none", _closure_of(m, f, pa, c), c, ("call", d.q, d.b, ())))
        elif COUNT.search(c.q) and c.args:
            r = pa.root(f, c.args[0])
            if r[0] == "call" and FILTER.search(r[1]):
                fc = Call(f, r[2])
                g = _closure_of(m, f, pa, fc)
                cr = ("call", c.q, c.b, ())
                # every comparison of the count with 0 / 1
                for root in _bin_roots(m, f, pv):
                    _, op, a, b_ = root
                    k = None
                    if a == cr and b_[0] == "const":
                        k, o = b_[1].get("int"), op
                    elif b_ == cr and a[0] == "const":
                        k, o = a[1].get("int"), {"Gt": "Lt", "Lt": "Gt", "Ge": "Le", "Le": "Ge"}.get(op, op)
                    if k is None:
                        continue
                    kind = None
                    if (o, k) in (("Gt", "0"), ("Ge", "1"), ("Ne", "0")):
                        kind = "exists"
                    elif (o, k) in (("Eq", "0"), ("Lt", "1"), ("Le", "0")):
                        kind = "none"
                    if kind:
                        out.append(Quant(m, f, kind, g, fc, root))
    return out


def _bin_roots(m, f, pv):
    """every comparison computed in f, as a value-mode root ('bin', op, r1, r2)"""
    seen = []
    for bi, b in enumerate(f.blocks):
        for s in b["s"]:
            if s[0] == "A" and s[2][0] == "bin" and s[2][1] in ("Gt", "Ge", "Lt", "Le", "Eq", "Ne"):
                r = ("bin", s[2][1], pv.root(f, s[2][2]), pv.root(f, s[2][3]))
                if r not in seen:
                    seen.append(r)
    return seen


def closure_truth(m, g, classify, limit=4000):
    """truth table of a small loop-free boolean function / closure over named atoms.

    classify(call) -> None | (atom name, negated?)   names the boolean a call of g computes.
    Returns a list of (assignment, value): one entry per path from the entry to a return, assignment = {atom: bool} as decided
    by the switches on that path, value = True | False | ('atom', name, neg) | '?' (what the function returns on that path).
    None when the function has a loop or more than `limit` paths. Switches on something that is not an atom are followed both
    ways (the condition stays unconstrained: both outcomes are reported)."""
    pv = Prov(m, "value")
    atoms = {}
    for c in g.calls():
        a = classify(c)
        if a is not None:
            atoms[(c.q, c.b)] = a

    def atom_of(r):
        neg = False
        while r[0] == "not":
            neg = not neg
            r = r[1]
        if r[0] == "call" and (r[1], r[2]) in atoms and not r[3]:
            n, ng = atoms[(r[1], r[2])]
            return n, neg != ng
        return None

    out = []
    paths = [0]

    def value_of(rv, env):
        """value of an rvalue: True / False / ('atom', name, neg) / '?' (env: values of the locals assigned on this path)"""
        if rv[0] == "use":
            op = rv[1]
            if op[0] == "k":
                if op[1].get("ty") == "bool" and "int" in op[1]:
                    return bool(int(op[1]["int"]))
                return "?"
            if op[0] in ("c", "m") and not op[1][1] and op[1][0] in env:
                return env[op[1][0]]
            a = atom_of(pv.root(g, op))
            return ("atom", a[0], a[1]) if a else "?"
        if rv[0] == "un" and rv[1] == "Not":
            v = value_of(("use", rv[2]), env)
            if v in (True, False):
                return not v
            if isinstance(v, tuple):
                return ("atom", v[1], not v[2])
            return "?"
        return "?"

    def walk(b, asg, env, seen):
        if b in seen:
            raise RecursionError
        paths[0] += 1
        if paths[0] > limit:
            raise RecursionError
        seen = seen | {b}
        blk = g.blocks[b]
        env = dict(env)
        for s in blk["s"]:
            if s[0] == "A" and not s[1][1]:
                env[s[1][0]] = value_of(s[2], env)
        t = blk["t"]
        if t[0] == "call":
            if not t[3][1]:
                a = atoms.get((t[1].get("q") or "", b))
                env[t[3][0]] = ("atom", a[0], a[1]) if a else "?"
            if t[4] is not None:
                walk(t[4], asg, env, seen)
            return
        if t[0] == "ret":
            v = env.get(0, "?")
            if isinstance(v, tuple) and v[1] in asg:
                v = asg[v[1]] != v[2]
            out.append((dict(asg), v))
            return
        if t[0] == "switch":
            op = t[1]
            v = None
            if op[0] in ("c", "m") and not op[1][1] and op[1][0] in env:
                v = env[op[1][0]]
            if v is None or v == "?":
                a = atom_of(pv.root(g, op))
                v = ("atom", a[0], a[1]) if a else "?"
            cases = [(lv, tb) for lv, tb in t[2]] + [("otherwise", t[3])]
            two_way = all(lv == "0" for lv, _ in t[2])
            if v in (True, False) and two_way:
                tgt = t[3] if v else t[2][0][1]
                walk(tgt, asg, env, seen)
                return
            if not isinstance(v, tuple) or not two_way:
                for _, tb in cases:
                    walk(tb, asg, env, seen)
                return
            _, name, neg = v
            for lbl, tb in cases:
                truth = (lbl != "0") != neg
                if name in asg and asg[name] != truth:
                    continue
                a2 = dict(asg)
                a2[name] = truth
                walk(tb, a2, env, seen)
            return
        for sx in g.succ(b):
            if g.blocks[sx]["t"][0] in ("resume", "abort", "unreachable") and not g.blocks[sx]["s"]:
                continue
            walk(sx, asg, env, seen)

    try:
        walk(0, {}, {}, frozenset())
    except RecursionError:
        return None
    return out


def table_value(table, total):
    """the set of values the function can return under the total assignment `total` ({atom: bool})"""
    vals = set()
    for asg, v in table:
        if all(total.get(k) == x for k, x in asg.items()):
            if isinstance(v, tuple):
                v = total[v[1]] != v[2] if v[1] in total else "?"
            vals.add(v)
    return vals
