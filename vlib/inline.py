"""Helper inlining: a view of the program that does not depend on where a piece of a function's body lives.

"Extract function" is the most common behaviour-preserving edit: a guard, a loop or a block of an anchored function
(`Task::update`, `Process::do_action`, `Runtime::return_to_act` ...) moves into a new private helper. Rules that read the
dominating guards, the loops or the call sites of the anchored function would lose them. Every function that does NOT exist in
`tables/known_fns.json` (the list of function paths of the tree the rules were written against - names only, no bodies) and is
called directly from another function is therefore inlined into its callers at the MIR-fact level before any rule runs:
the helper's locals and blocks are appended to the caller (renumbered), its parameters become locals assigned from the call's
arguments, every `return` becomes `dest = _ret; goto <continuation>`. A change that hides a violation in a new helper is
seen through in the same way. The helper itself stays in the model (call graph, summaries).

Nothing is executed; this is a syntactic transformation of the fact files."""
import copy
import json
import os

VERIF = os.path.dirname(os.path.dirname(os.path.abspath(__file__)))
KNOWN = os.path.join(VERIF, "tables", "known_fns.json")
MAX_ROUNDS = 4
MAX_BLOCKS = 4000


def load_known():
    """{function path: fingerprint or None} of the tree the rules were written against"""
    if not os.path.exists(KNOWN):
        return None
    with open(KNOWN) as fh:
        d = json.load(fh)["fns"]
    if isinstance(d, list):
        return {q: None for q in d}
    return d


def fingerprint(f):
    """what a function looks like from outside its name: arity, return type, the multiset of resolved callees. Used ONLY to
    recognise a known function that was moved or renamed (never as a verdict on its behaviour)."""
    callees = []
    for blk in f["blocks"]:
        t = blk["t"]
        if t[0] == "call":
            callees.append((t[1].get("q") or t[1].get("decl") or "?").split("::{closure")[0])
    return {"a": f.get("argc", 0), "r": (f.get("locals") or ["?"])[0], "c": sorted(callees), "s": f.get("impl_self"), "t": f.get("impl_trait")}


def _similar(fp_a, fp_b):
    if fp_a is None or fp_b is None or fp_a["a"] != fp_b["a"]:
        return 0.0
    import collections
    ca, cb = collections.Counter(fp_a["c"]), collections.Counter(fp_b["c"])
    inter = sum((ca & cb).values())
    union = sum((ca | cb).values())
    return 1.0 if union == 0 else inter / union


def _last(q):
    import re as _re
    return _re.sub(r"<.*>$", "", q.split("::")[-1])


def resolve_renames(crates, known):
    """a known function that is gone + an unknown function that looks the same (same name elsewhere: moved to another impl
    block / file / made a free function; or another name with the same body shape) = the same function. The new one is given
    the known path (and its closures with it), every call of it is re-pointed: the rules find their anchors again."""
    byq = {f["q"]: f for j in crates for f in j["fns"]}
    crates_here = {j.get("crate") for j in crates}
    def crate_of(q):
        import re as _re
        m_ = _re.search(r"(?:^|<|\s)(acts(?:_[a-z_]+)?)::", q)
        return m_.group(1) if m_ else None
    missing = [q for q, fp in known.items() if q not in byq and "{closure" not in q and fp is not None and crate_of(q) in crates_here]
    if not missing:
        return {}
    newq = [q for q, f in byq.items() if q not in known and "{closure" not in q and "{promoted" not in q and f.get("defkind") in ("Fn", "AssocFn") and not f.get("exp")]
    ren = {}
    taken = set()
    for n in newq:
        fpn = fingerprint(byq[n])
        same = [(m, _similar(known[m], fpn)) for m in missing if m not in taken and _last(m) == _last(n)]
        same = [(m, s_) for m, s_ in same if s_ >= 0.3]
        pick = None
        if len(same) == 1:
            pick = same[0][0]
        elif not same:
            other = [(m, _similar(known[m], fpn)) for m in missing if m not in taken]
            other = [(m, s_) for m, s_ in other if s_ >= 0.9 and len(known[m]["c"]) >= 4]
            if len(other) == 1:
                pick = other[0][0]
        if pick:
            ren[n] = pick
            taken.add(pick)
    if not ren:
        return {}

    def rn(q):
        if not isinstance(q, str):
            return q
        for n, m in ren.items():
            if q == n:
                return m
            if q.startswith(n + "::{"):
                return m + q[len(n):]
        return q

    def walk(x):
        # closure aggregates ["closure", q, ops] and callee dicts {"q": ..}
        if isinstance(x, dict):
            if "q" in x:
                x["q"] = rn(x["q"])
            for v in x.values():
                walk(v)
        elif isinstance(x, list):
            if len(x) >= 2 and x[0] in ("closure", "coroutine", "coroutine_closure") and isinstance(x[1], str):
                x[1] = rn(x[1])
            for v in x:
                walk(v)
    for j in crates:
        for f in j["fns"]:
            oldq = f["q"]
            f["q"] = rn(oldq)
            if f["q"] != oldq and oldq in ren:
                fp = known[ren[oldq]]
                f["impl_self"] = fp.get("s")
                f["impl_trait"] = fp.get("t")
            walk(f["blocks"])
            for pr in f.get("promoted", []):
                walk(pr["blocks"])
    return ren


def _place(p, L):
    loc, proj = p
    return [loc + L, [(["i", e[1] + L] if isinstance(e, list) and e[0] == "i" else e) for e in proj]]


def _op(o, L, P):
    if o[0] == "k":
        c = o[1]
        if isinstance(c, dict) and c.get("promoted") is not None:
            c = dict(c)
            c["promoted"] = c["promoted"] + P
            return ["k", c]
        return o
    return [o[0], _place(o[1], L)]


def _rv(rv, L, P):
    k = rv[0]
    if k in ("use", "repeat"):
        return [k, _op(rv[1], L, P)] + rv[2:]
    if k in ("ref", "addr", "len"):
        return [k, _place(rv[1], L)] + rv[2:]
    if k == "discr":
        return [k, _place(rv[1], L)] + rv[2:]
    if k == "agg":
        return [k, rv[1], rv[2], rv[3], [_op(o, L, P) for o in rv[4]]]
    if k in ("tuple", "array", "rawptr"):
        return [k, [_op(o, L, P) for o in rv[1]]]
    if k in ("closure", "coroutine", "coroutine_closure"):
        return [k, rv[1], [_op(o, L, P) for o in rv[2]]]
    if k == "cast":
        return [k, rv[1], _op(rv[2], L, P), rv[3], rv[4]]
    if k == "bin":
        return [k, rv[1], _op(rv[2], L, P), _op(rv[3], L, P)]
    if k == "un":
        return [k, rv[1], _op(rv[2], L, P)]
    return rv


def inline_call(cj, b, hj):
    """inline helper `hj` (fact JSON of a function) at the call terminating block b of caller `cj` (fact JSON); returns the
    new caller JSON (cj is not modified)"""
    cj = copy.copy(cj)
    cj["blocks"] = list(cj["blocks"])
    cj["locals"] = list(cj["locals"])
    cj["names"] = dict(cj["names"])
    cj["promoted"] = list(cj.get("promoted", []))
    L = len(cj["locals"])
    B = len(cj["blocks"])
    P = len(cj["promoted"])
    t = cj["blocks"][b]["t"]
    assert t[0] == "call"
    args, dest, target, line = t[2], t[3], t[4], t[5]
    cj["locals"] += hj["locals"]
    for k, v in hj["names"].items():
        cj["names"][str(int(k) + L)] = v
    cj["promoted"] += hj.get("promoted", [])
    # the call block: bind the parameters, jump to the helper's entry
    blk = dict(cj["blocks"][b])
    blk["s"] = list(blk["s"]) + [["A", [L + 1 + i, []], ["use", a], line] for i, a in enumerate(args)]
    blk["t"] = ["goto", B]
    cj["blocks"][b] = blk
    for hb in hj["blocks"]:
        s2 = []
        for s in hb["s"]:
            if s[0] == "A":
                s2.append(["A", _place(s[1], L), _rv(s[2], L, P), s[3]])
            elif s[0] == "SD":
                s2.append(["SD", _place(s[1], L)] + s[2:])
            else:
                s2.append(s)
        ht = hb["t"]
        k = ht[0]
        if k == "goto":
            t2 = ["goto", ht[1] + B]
        elif k == "switch":
            t2 = ["switch", _op(ht[1], L, P), [[v, x + B] for v, x in ht[2]], ht[3] + B] + ht[4:]
        elif k == "call":
            t2 = ["call", ht[1], [_op(a, L, P) for a in ht[2]], _place(ht[3], L), (ht[4] + B) if ht[4] is not None else None] + ht[5:]
        elif k == "drop":
            t2 = ["drop", _place(ht[1], L), ht[2] + B]
        elif k == "assert":
            t2 = ["assert", _op(ht[1], L, P), ht[2], ht[3] + B]
        elif k == "ret":
            s2.append(["A", dest, ["use", ["m", [L, []]]], line])
            t2 = ["goto", target] if target is not None else ["unreachable"]
        else:
            t2 = ht
        cj["blocks"].append({"s": s2, "t": t2})
    return cj


def _adopt_closures(crates, byq, f, hq):
    """closures defined in an inlined helper become closures of the caller (`helper::{closure#k}` -> `caller::{closure#K+k}`,
    nested ones with them): rules and tables name closures by their enclosing function"""
    import re as _re
    pref = hq + "::{closure#"
    used = set()
    for blk in f["blocks"]:
        for st in blk["s"]:
            if st[0] == "A" and isinstance(st[2], list) and st[2] and st[2][0] in ("closure", "coroutine", "coroutine_closure") and isinstance(st[2][1], str):
                used.add(st[2][1])
    mine = sorted(q for q in used if q.startswith(pref))
    if not mine:
        return f
    have = [int(m.group(1)) for q in byq for m in [_re.match(_re.escape(f["q"]) + r"::\{closure#(\d+)\}$", q)] if m]
    nxt = (max(have) + 1) if have else 0
    # keep the helper's own numbering order
    def num(q):
        m = _re.match(_re.escape(pref) + r"(\d+)\}", q)
        return int(m.group(1)) if m else 0
    mapping = {}
    for q in sorted(mine, key=num):
        mapping[q] = "%s::{closure#%d}" % (f["q"], nxt)
        nxt += 1

    def rn(q):
        for a, b in mapping.items():
            if q == a:
                return b
            if q.startswith(a + "::{"):
                return b + q[len(a):]
        return q
    # copies of the closure bodies (and of closures nested in them) under the new names
    for j in crates:
        add = []
        for g in j["fns"]:
            if any(g["q"] == a or g["q"].startswith(a + "::{") for a in mapping):
                ng = copy.deepcopy(g)
                ng["q"] = rn(g["q"])
                for blk in ng["blocks"]:
                    for st in blk["s"]:
                        if st[0] == "A" and isinstance(st[2], list) and st[2] and st[2][0] in ("closure", "coroutine", "coroutine_closure") and isinstance(st[2][1], str):
                            st[2][1] = rn(st[2][1])
                if ng["q"] not in byq:
                    add.append(ng)
                    byq[ng["q"]] = ng
        j["fns"] += add
    f = copy.deepcopy(f)
    for blk in f["blocks"]:
        for st in blk["s"]:
            if st[0] == "A" and isinstance(st[2], list) and st[2] and st[2][0] in ("closure", "coroutine", "coroutine_closure") and isinstance(st[2][1], str):
                st[2][1] = rn(st[2][1])
    return f


def apply(crates):
    """crates: the loaded fact JSONs (modified in place: callers of new helpers get the helper bodies inlined).
    Returns {caller q: [helper q, ..]} for the report."""
    known = load_known()
    if known is None:
        return {}
    renamed = resolve_renames(crates, known)
    byq = {}
    for j in crates:
        for f in j["fns"]:
            byq[f["q"]] = f
    new = {q for q, f in byq.items() if q not in known and "{closure" not in q and "{promoted" not in q and "{constant" not in q
           and f.get("defkind") in ("Fn", "AssocFn") and not f.get("exp")}
    if not new:
        return ({"(renamed)": ["%s -> %s" % (a, b) for a, b in renamed.items()]} if renamed else {})
    done = {}
    if renamed:
        done["(renamed)"] = ["%s -> %s" % (a, b) for a, b in renamed.items()]
    for _ in range(MAX_ROUNDS):
        changed = False
        for j in crates:
            for idx, f in enumerate(j["fns"]):
                sites = [bi for bi, blk in enumerate(f["blocks"])
                         if blk["t"][0] == "call" and blk["t"][1].get("k") not in ("virtual", "generic", "indirect", "err")
                         and blk["t"][1].get("q") in new and blk["t"][1].get("q") != f["q"]]
                if not sites or len(f["blocks"]) > MAX_BLOCKS:
                    continue
                for bi in sites:
                    hq = f["blocks"][bi]["t"][1]["q"]
                    h = byq[hq]
                    if len(h["blocks"]) + len(f["blocks"]) > MAX_BLOCKS:
                        continue
                    f = inline_call(f, bi, h)
                    f = _adopt_closures(crates, byq, f, hq)
                    done.setdefault(f["q"], []).append(hq)
                    changed = True
                j["fns"][idx] = f
                byq[f["q"]] = f
        if not changed:
            break
    # a helper whose every call site was inlined is no longer part of the program the rules look at: whole-program scans
    # (who may write, which results are dropped ..) would otherwise see its body twice, once under a name no table knows
    still = set()
    for j in crates:
        for f in j["fns"]:
            for blk in f["blocks"]:
                t = blk["t"]
                if t[0] == "call" and t[1].get("q") in new:
                    still.add(t[1]["q"])
            for pr in f.get("promoted", []):
                for blk in pr["blocks"]:
                    t = blk["t"]
                    if t[0] == "call" and t[1].get("q") in new:
                        still.add(t[1]["q"])
    inlined = {h for hs in done.values() for h in hs}
    gone = inlined - still
    if gone:
        for j in crates:
            j["fns"] = [f for f in j["fns"] if f["q"] not in gone and not any(f["q"].startswith(g_ + "::{closure") for g_ in gone)]
    return done
