"""deciding conditions of a site: the branch conditions on which reaching the site depends (control dependence), computed on
the path-sensitive product of the CFG with the values of boolean / Result temporaries.

Why not plain dominating guards: `if a || b { site }` has no dominating guard for b, `let ok = match x { None => true,
Some(v) => v == w }; if ok { site }` has a dominating guard on a named temporary that says nothing. Both spellings have the
same deciding conditions here: a switch decides the site when, in some state of the temporaries, one of its edges can still
reach the site and another cannot; a switch on a temporary is resolved to the condition(s) the temporary was computed from
(a constant definition makes the switch a non-branch on that path).

deciding(m, f, site) -> [Guard] (vlib.model.Guard objects: root = the resolved condition, labels = edges that can reach)"""
from .model import Guard, Prov, Call


def _temps(f, pa):
    """bool locals with several definitions, each a bool constant or the (possibly negated) result of a call / comparison:
    {loc: {def block: value}} with value True / False / ('root', r, neg)"""
    out = {}
    for loc, ds in f.defs().items():
        if loc == 0 or len(ds) < 2 or f.locals[loc] != "bool":
            continue
        vals = {}
        for bi, si, kind, payload in ds:
            if kind == "call":
                vals[bi] = ("root", ("call", payload[1].get("q") or "", bi, ()), False)
                continue
            if kind != "assign":
                vals = None
                break
            rv = payload
            if rv[0] == "use" and rv[1][0] == "k" and rv[1][1].get("ty") == "bool" and "int" in rv[1][1]:
                vals[bi] = bool(int(rv[1][1]["int"]))
            elif rv[0] in ("use", "un", "bin"):
                if rv[0] == "use":
                    r = pa.root(f, rv[1])
                elif rv[0] == "un" and rv[1] == "Not":
                    r = ("not", pa.root(f, rv[2]))
                else:
                    r = ("bin", rv[1], pa.root(f, rv[2]), pa.root(f, rv[3]))
                neg = False
                while r[0] == "not":
                    neg = not neg
                    r = r[1]
                vals[bi] = ("root", r, neg)
            else:
                vals = None
                break
        if vals:
            out[loc] = vals
    return out


def deciding(m, f, site, mode="value", with_necessary=False):
    pa = Prov(m, mode)
    temps = _temps(f, pa)
    sets, switches = f._corr()
    # product states: (block, facts) with facts = tuple of (loc, value); value for bool temps may be ('root', r, neg)
    tdefs = {}
    for loc, vals in temps.items():
        for bi, v in vals.items():
            tdefs.setdefault(bi, []).append((loc, v))

    def step_facts(b, facts):
        if b in sets or b in tdefs:
            d = dict(facts)
            for loc, val in sets.get(b, []):
                d[loc] = val
            for loc, val in tdefs.get(b, []):
                d[loc] = val
            return tuple(sorted(d.items(), key=repr))
        return facts

    def switch_info(b, facts):
        """(resolved root, neg, [(label, target)] feasible) of the switch ending block b"""
        t = f.blocks[b]["t"]
        r = pa.root(f, t[1])
        neg = False
        while r[0] == "not":
            neg = not neg
            r = r[1]
        cases = [(v, tb) for v, tb in t[2]] + [("otherwise", t[3])]
        fd = dict(facts)
        if b in switches:
            loc, tg = switches[b]
            v = fd.get(loc, "?")
            if v != "?" and not isinstance(v, tuple) and v in tg:
                return None, False, [(lbl, tb) for lbl, tb in cases if tb == tg[v]][:1]
        for _ in range(6):
            if not (r[0] == "local" and not r[3] and r[1] in temps):
                break
            v = fd.get(r[1], "?")
            if isinstance(v, tuple) and v[0] == "root":
                r = v[1]
                neg = neg != v[2]
                continue
            break
        if r[0] == "local" and not r[3] and r[1] in temps:
            v = fd.get(r[1], "?")
            if v is True or v is False:
                want = (not v) if neg else v
                n = 1 if want else 0
                tgt = t[3]
                for sv, tb in t[2]:
                    if int(sv) == n:
                        tgt = tb
                return None, False, [(lbl, tb) for lbl, tb in cases if tb == tgt][:1]
            if isinstance(v, tuple) and v[0] == "root":
                r = v[1]
                neg = neg != v[2]
        return r, neg, cases

    # forward exploration from the entry
    start = (0, ())
    succs = {}
    seen = set()
    work = [start]
    while work:
        st = work.pop()
        if st in seen:
            continue
        seen.add(st)
        b, facts = st
        facts2 = step_facts(b, facts)
        t = f.blocks[b]["t"]
        if t[0] == "switch":
            r, neg, cases = switch_info(b, facts2)
            outs = [(lbl, (tb, facts2)) for lbl, tb in cases]
        else:
            outs = [(None, (sx, facts2)) for sx in f.succ(b)]
        succs[st] = (outs, facts2)
        for _, nx in outs:
            if nx not in seen:
                work.append(nx)
        if len(seen) > 200000:
            raise ValueError("product too large for %s" % f.q)
    # which product states can reach the site
    rev = {}
    for st, (outs, _) in succs.items():
        for _, nx in outs:
            rev.setdefault(nx, []).append(st)
    can = set()
    work = [st for st in seen if st[0] == site]
    while work:
        st = work.pop()
        if st in can:
            continue
        can.add(st)
        for p in rev.get(st, []):
            if p not in can:
                work.append(p)
    found = {}
    per_block = {}
    for st in seen:
        b, facts = st
        t = f.blocks[b]["t"]
        if t[0] != "switch" or st not in can or b == site:
            continue
        outs, facts2 = succs[st]
        real = []
        for lbl, nx in outs:
            tt = f.blocks[nx[0]]["t"]
            if tt[0] == "unreachable" and not f.blocks[nx[0]]["s"]:
                continue
            real.append((lbl, nx))
        # an edge "can reach" the site when it does so without coming back to this switch (a later loop iteration is
        # another decision)
        ok = {lbl for lbl, nx in real if nx in can and _reaches(succs, nx, site, b)}
        alll = [lbl for lbl, _ in real]
        if not ok or ok >= set(alll):
            continue
        r, neg, _ = switch_info(b, facts2)
        if r is None:
            continue
        key = (b, repr(r), neg, tuple(sorted(ok)))
        if key not in found:
            found[key] = Guard(f, b, ok, alll, r, neg)
        per_block.setdefault(b, []).append((st, ok, alll, r, neg))
    out = list(found.values())
    if not with_necessary:
        return out
    # necessary conditions: every path from the entry to the site passes the switch and leaves it through one of the
    # labels that can reach the site (cutting those edges makes the site unreachable)
    nec = []
    for b, lst in per_block.items():
        labels = set()
        for st, ok, alll, r, neg in lst:
            labels |= ok
        alll = lst[0][2]
        if labels >= set(alll):
            continue
        if _reachable_without(succs, start, site, b, labels):
            continue
        roots = {(repr(r), neg) for _, _, _, r, neg in lst}
        if len(roots) == 1:
            r, neg = lst[0][3], lst[0][4]
        else:
            # different conditions on different paths: only the unresolved operand of the switch holds on all of them
            t = f.blocks[b]["t"]
            r = pa.root(f, t[1])
            neg = False
            while r[0] == "not":
                neg = not neg
                r = r[1]
        g = Guard(f, b, labels, alll, r, neg)
        nec.append(g)
    return out, nec


def _reaches(succs, start, site, avoid_block):
    seen = set()
    work = [start]
    while work:
        st = work.pop()
        if st in seen or st[0] == avoid_block:
            continue
        if st[0] == site:
            return True
        seen.add(st)
        for _, nx in succs.get(st, ((), None))[0]:
            if nx not in seen:
                work.append(nx)
    return False


def reach_table(m, f, site, classify, mode="value", limit=200000, avoid=()):
    """under which values of a few named conditions (atoms) can `site` be reached?

    classify(root, neg, fn) -> None | (atom name, {label: bool})   names the condition tested by a switch (root = the resolved
    condition, see deciding()) and says which truth value of the atom each edge label stands for.
    Returns (atoms, reachable) where reachable is the set of total assignments (tuples of (atom, bool) sorted by atom) for
    which some path from the entry reaches the site; conditions that are not atoms are followed both ways. Paths stop at the
    blocks in `avoid` (e.g. the step of a loop, to ask about ONE iteration)."""
    import itertools
    pa = Prov(m, mode)
    temps = _temps(f, pa)
    sets, switches = f._corr()
    tdefs = {}
    for loc, vals in temps.items():
        for bi, v in vals.items():
            tdefs.setdefault(bi, []).append((loc, v))
    atoms = set()
    partial = set()
    seen = set()
    work = [(0, (), ())]
    while work:
        st = work.pop()
        if st in seen:
            continue
        seen.add(st)
        if len(seen) > limit:
            raise ValueError("reach_table: product too large for %s" % f.q)
        b, facts, asg = st
        if b in sets or b in tdefs:
            d = dict(facts)
            for loc, val in sets.get(b, []):
                d[loc] = val
            for loc, val in tdefs.get(b, []):
                d[loc] = val
            facts = tuple(sorted(d.items(), key=repr))
        if b == site:
            partial.add(asg)
            continue
        if b in avoid:
            continue
        t = f.blocks[b]["t"]
        if t[0] != "switch":
            for sx in f.succ(b):
                work.append((sx, facts, asg))
            continue
        r = pa.root(f, t[1])
        neg = False
        while r[0] == "not":
            neg = not neg
            r = r[1]
        cases = [(v, tb) for v, tb in t[2]] + [("otherwise", t[3])]
        fd = dict(facts)
        if b in switches:
            loc, tg = switches[b]
            v = fd.get(loc, "?")
            if v != "?" and not isinstance(v, tuple) and v in tg:
                work.append((tg[v], facts, asg))
                continue
        for _ in range(6):
            if not (r[0] == "local" and not r[3] and r[1] in temps):
                break
            v = fd.get(r[1], "?")
            if isinstance(v, tuple) and v[0] == "root":
                r = v[1]
                neg = neg != v[2]
                continue
            break
        if r[0] == "local" and not r[3] and r[1] in temps:
            v = fd.get(r[1], "?")
            if v is True or v is False:
                want = (not v) if neg else v
                n = 1 if want else 0
                tgt = t[3]
                for sv, tb in t[2]:
                    if int(sv) == n:
                        tgt = tb
                work.append((tgt, facts, asg))
                continue
        c = classify(r, neg, f)
        if c is None:
            for _, tb in cases:
                work.append((tb, facts, asg))
            continue
        name, truth = c
        atoms.add(name)
        ad = dict(asg)
        for lbl, tb in cases:
            if lbl not in truth:
                continue
            val = truth[lbl]
            if name in ad and ad[name] != val:
                continue
            a2 = dict(ad)
            a2[name] = val
            work.append((tb, facts, tuple(sorted(a2.items()))))
    names = sorted(atoms)
    reachable = set()
    for vals in itertools.product((False, True), repeat=len(names)):
        total = dict(zip(names, vals))
        for p in partial:
            if all(total.get(k) == v for k, v in p):
                reachable.add(tuple(sorted(total.items())))
                break
    return names, reachable


def bool_truth(neg):
    """label -> truth of the (un-negated) condition for a two-way boolean switch"""
    return {"0": neg, "otherwise": not neg}


def _reachable_without(succs, start, site, block, labels):
    """is `site` reachable from `start` when the edges of `block` with a label in `labels` are cut?"""
    seen = set()
    work = [start]
    while work:
        st = work.pop()
        if st in seen:
            continue
        seen.add(st)
        if st[0] == site:
            return True
        for lbl, nx in succs.get(st, ((), None))[0]:
            if st[0] == block and lbl in labels:
                continue
            if nx not in seen:
                work.append(nx)
    return False


def necessary(m, f, site, mode="value"):
    return deciding(m, f, site, mode, with_necessary=True)[1]
