"""E8: mapper agreement - extraction of `field <-> source/target name` relations from struct
literals, `HashMap::insert("k", json!(self.f))`, `row.get_unwrap("col")`, sea-query column /
value arrays and derived `Iden::unquoted` / serde bodies (DESIGN Appendix B.5)."""
import re

from .model import Anchor, Call, Prov, root_str


def const_str(r):
    if r and r[0] == "const" and "str" in r[1]:
        return r[1]["str"]
    return None


def param_field(r, idx=None):
    """('param', i, name, (f,)) -> f   (exactly one field step)"""
    if r and r[0] == "param" and (idx is None or r[1] == idx) and len(r[3]) == 1:
        return r[3][0]
    return None


def aggregates_of(fn, adt_suffix):
    """[(block, sidx, {field: operand})] for every struct literal of the ADT in fn"""
    out = []
    for bi, b in enumerate(fn.blocks):
        for si, s in enumerate(b["s"]):
            if s[0] == "A" and s[2][0] == "agg" and (s[2][1] == adt_suffix or s[2][1].endswith("::" + adt_suffix)):
                out.append((bi, si, dict(zip(s[2][3], s[2][4]))))
    return out


def iden_table(model, unquoted_fn):
    """derived `Iden::unquoted`: {variant: written string}"""
    f = unquoted_fn
    t = f.blocks[0]["t"]
    if t[0] != "switch":
        raise Anchor("unexpected shape of %s" % f.q)
    prov = Prov(model, "value")
    r = prov.root(f, t[1])
    if r[0] != "discr" or not r[2]:
        raise Anchor("unquoted does not switch on the discriminant: %s" % f.q)
    adt = r[2]
    byd = {str(d): n for n, d in model.variants(adt)}
    out = {}
    for v, tb in t[2]:
        # the first string constant met from that block on (straight line)
        b = tb
        s = None
        for _ in range(6):
            tt = f.blocks[b]["t"]
            if tt[0] == "call":
                for a in tt[2]:
                    if a[0] == "k" and "str" in a[1]:
                        s = a[1]["str"]
                        break
                if s is not None:
                    break
                b = tt[4]
            elif tt[0] == "goto":
                b = tt[1]
            else:
                break
            if b is None:
                break
        if s is None:
            raise Anchor("no string constant for variant %s in %s" % (byd.get(v), f.q))
        out[byd[v]] = s
    return adt, out


def array_operands(fn, root):
    if root[0] != "array":
        return None
    return fn.blocks[root[1]]["s"][root[2]][2][1]


def tuple_operands(fn, root):
    if root[0] != "tuple":
        return None
    return fn.blocks[root[1]]["s"][root[2]][2][1]


def variant_of(r):
    if r and r[0] == "agg":
        return r[2]
    return None


def serde_ser_names(model, adt_q):
    """names written by the derived `Serialize` of a struct: [(name, field)] in order.
    adt_q is the crate-qualified ADT name (e.g. acts::store::data::task::Task)."""
    fs = [f for f in model.fns.values() if f.impl_trait == "serde::Serialize" and f.q.endswith("::serialize")
          and f.defkind == "AssocFn" and _self_matches(f, adt_q)]
    if len(fs) != 1:
        raise Anchor("derived Serialize of %s: found %d impls" % (adt_q, len(fs)))
    f = fs[0]
    prov = Prov(model, "value")
    out = []
    for c in f.calls():
        if c.q.endswith("SerializeStruct::serialize_field") or c.q.endswith("SerializeStructVariant::serialize_field") or c.q.endswith("SerializeStruct::skip_field"):
            name = const_str(prov.root(f, c.args[1]))
            fld = None
            if not c.q.endswith("skip_field"):
                r = prov.root(f, c.args[2])
                fld = param_field(r, 1)
            out.append((name, fld, c))
    return f, out


def _self_matches(f, adt_q):
    s = f.impl_self or ""
    # impl_self is printed relative to its crate; adt_q is crate-qualified
    return adt_q == s or adt_q.endswith("::" + s) or s.endswith(adt_q.split("::", 1)[-1])


def origin_calls(model, fn, op, pat, mode="value", limit=40):
    """calls matching `pat` in the backward slice of an operand (through every argument of the
    intermediate calls). Returns a list of Call objects (deduplicated, in discovery order)."""
    prov = Prov(model, mode)
    rx = re.compile(pat)
    out = []
    seen = set()
    work = [prov.root(fn, op)]
    n = 0
    while work and n < limit:
        n += 1
        r = work.pop()
        if r in seen:
            continue
        seen.add(r)
        k = r[0]
        if k == "call":
            c = Call(fn, r[2])
            if rx.search(c.q):
                if c.b not in [x.b for x in out]:
                    out.append(c)
                continue
            for a in c.args:
                work.append(prov.root(fn, a))
        elif k in ("not", "some"):
            work.append(r[1])
        elif k == "field":
            work.append(r[1])
        elif k == "bin":
            work += [r[2], r[3]]
        elif k == "cast":
            work.append(r[2])
        elif k == "agg":
            rv = fn.blocks[r[3]]["s"][r[4]][2]
            for a in rv[4]:
                work.append(prov.root(fn, a))
    return out
