"""truth tables of small bool-returning functions / closures.

`paths(m, f)` walks the CFG of f; every call whose result decides a branch or becomes the return value is an
*atom*; a path is (assignment {call_block: bool}, result bool). Branches on anything else are followed both ways
(the condition is recorded as an anonymous atom keyed by the switch block). Loops are cut (a block is visited at most
twice on one path)."""
from .model import Prov


def paths(m, f, limit=4096):
    pa = Prov(m, "alias")
    out = []
    work = [(0, {}, None, {})]   # block, assignment, value of _0 (bool / ('atom', b) / None), visit counts
    n = 0
    while work:
        b, asg, ret, seen = work.pop()
        n += 1
        if n > limit:
            raise ValueError("bool function too large: %s" % f.q)
        if seen.get(b, 0) >= 2:
            continue
        seen = dict(seen)
        seen[b] = seen.get(b, 0) + 1
        blk = f.blocks[b]
        for s in blk["s"]:
            if s[0] == "A" and s[1][0] == 0 and not s[1][1]:
                rv = s[2]
                if rv[0] == "use" and rv[1][0] == "k" and rv[1][1].get("int") in ("0", "1"):
                    ret = rv[1][1]["int"] == "1"
                elif rv[0] == "use":
                    r = pa.root(f, rv[1])
                    ret = ("atom", r[2]) if r[0] == "call" else ("unknown", b)
                elif rv[0] == "not":
                    r = pa.root(f, rv[1]) if len(rv) > 1 else None
                    ret = ("natom", r[2]) if r is not None and r[0] == "call" else ("unknown", b)
                else:
                    ret = ("unknown", b)
        t = blk["t"]
        if t[0] == "ret":
            if isinstance(ret, tuple) and ret[0] in ("atom", "natom"):
                for v in (False, True):
                    if ret[1] in asg and asg[ret[1]] != v:
                        continue
                    a2 = dict(asg)
                    a2[ret[1]] = v
                    out.append((a2, v if ret[0] == "atom" else (not v)))
            else:
                out.append((asg, ret))
            continue
        if t[0] == "call":
            if t[3][0] == 0 and not t[3][1]:
                ret = ("atom", b)
            if t[4] is not None:
                work.append((t[4], asg, ret, seen))
            continue
        if t[0] == "switch":
            r = pa.root(f, t[1])
            neg = False
            while r[0] == "not":
                neg = not neg
                r = r[1]
            key = r[2] if r[0] == "call" and not r[3] else ("sw", b)
            targets = [(sv, tb) for sv, tb in t[2]] + [("otherwise", t[3])]
            two_way = len(t[2]) == 1 and t[2][0][0] == "0"
            if two_way:
                for val, tb in ((False, t[2][0][1]), (True, t[3])):
                    v = (not val) if neg else val
                    if key in asg and asg[key] != v:
                        continue
                    a2 = dict(asg)
                    a2[key] = v
                    work.append((tb, a2, ret, seen))
            else:
                for sv, tb in targets:
                    a2 = dict(asg)
                    a2[("sw", b)] = sv
                    work.append((tb, a2, ret, seen))
            continue
        for sx in f.succ(b):
            work.append((sx, asg, ret, seen))
    return out


def is_conjunction_of(pths, required):
    """does the function return true exactly when every atom of `required` (call blocks) is true, and depend on nothing
    else? returns (ok, why)"""
    req = set(required)
    for asg, res in pths:
        if res is True:
            missing = [a for a in req if asg.get(a) is not True]
            if missing:
                return False, "returns true although %d required test(s) did not hold / were not made" % len(missing)
        elif res is False:
            if not any(asg.get(a) is False for a in req):
                return False, "returns false although no required test failed (decided by something else)"
        else:
            return False, "returns a value that is not one of the tests"
    return True, ""
