"""Program model over the JSON facts of driver/ (engines E2 CFG, E3 provenance, E4 guards, E6 call graph).

Nothing here executes acts: everything is a query over the type-checked MIR that rustc produced
for /repo's current working tree."""
import collections
import re

# --------------------------------------------------------------------------------------------
# functions and CFG (E2)
# --------------------------------------------------------------------------------------------


class Fn:
    def __init__(self, j, crate, parent=None, promoted_idx=None):
        self.j = j
        self.crate = crate
        self.blocks = j["blocks"]
        self.locals = j["locals"]
        self.names = {int(k): v for k, v in j["names"].items()}
        self.argc = j["argc"]
        self.upvars = j.get("upvars", [])
        self.regexes = j.get("regexes", {})
        if parent is None:
            self.q = j["q"]
            self.name = j["name"]
            self.path = j["path"]
            self.file, self.line = j["span"][0], j["span"][1]
            self.end_line = j["span"][2] if len(j["span"]) > 2 else j["span"][1]
            self.exp = j["exp"]
            self.impl_self = j.get("impl_self")
            self.impl_trait = j.get("impl_trait")
            self.trait_item = j.get("trait_item")
            self.pub = j.get("pub", False)
            self.defkind = j.get("defkind")
            self.promoted = [Fn(p, crate, parent=self, promoted_idx=i) for i, p in enumerate(j["promoted"])]
        else:
            self.q = "%s::{promoted#%d}" % (parent.q, promoted_idx)
            self.name = self.q
            self.path = self.q
            self.file, self.line, self.end_line = parent.file, parent.line, parent.end_line
            self.exp = parent.exp
            self.impl_self = parent.impl_self
            self.impl_trait = parent.impl_trait
            self.trait_item = None
            self.pub = False
            self.defkind = "Promoted"
            self.promoted = []
        self._succ = None
        self._pred = None
        self._dom = None
        self._defs = None
        self._rpo = None
        self._chains = {}
        self._domsets = {}

    # short human name, e.g. `Task::update` or `<Step as ActTask>::next`
    @property
    def short(self):
        return short_name(self.q)

    def loc(self, b=None):
        if b is None:
            return "%s:%d" % (self.file, self.line)
        t = self.blocks[b]["t"]
        if t[0] == "call":
            return "%s:%d" % (self.file, t[5])
        if t[0] == "switch" and len(t) > 4:
            return "%s:%d" % (self.file, t[4])
        for s in self.blocks[b]["s"]:
            if s[0] == "A":
                return "%s:%d" % (self.file, s[3])
        return "%s:%d" % (self.file, self.line)

    def term(self, b):
        return self.blocks[b]["t"]

    def succ(self, b):
        if self._succ is None:
            self._succ = [self._succ_of(i) for i in range(len(self.blocks))]
        return self._succ[b]

    def _succ_of(self, b):
        t = self.blocks[b]["t"]
        k = t[0]
        if k == "goto":
            return [t[1]]
        if k == "switch":
            out = []
            for x in [v[1] for v in t[2]] + [t[3]]:
                if x not in out:
                    out.append(x)
            return out
        if k == "call":
            return [t[4]] if t[4] is not None else []
        if k == "drop":
            return [t[2]]
        if k == "assert":
            return [t[3]]
        return []

    def pred(self, b):
        if self._pred is None:
            p = [[] for _ in self.blocks]
            for i in range(len(self.blocks)):
                for s in self.succ(i):
                    p[s].append(i)
            self._pred = p
        return self._pred[b]

    def rpo(self):
        if self._rpo is None:
            order = []
            seen = {0}
            stack = [(0, iter(self.succ(0)))]
            while stack:
                x, it = stack[-1]
                for s in it:
                    if s not in seen:
                        seen.add(s)
                        stack.append((s, iter(self.succ(s))))
                        break
                else:
                    order.append(x)
                    stack.pop()
            self._rpo = order[::-1]
        return self._rpo

    def reachable(self):
        return set(self.rpo())

    def idom(self):
        if self._dom is None:
            rpo = self.rpo()
            idx = {b: i for i, b in enumerate(rpo)}
            idom = {0: 0}

            def inter(a, b):
                while a != b:
                    while idx[a] > idx[b]:
                        a = idom[a]
                    while idx[b] > idx[a]:
                        b = idom[b]
                return a

            changed = True
            while changed:
                changed = False
                for b in rpo[1:]:
                    ps = [p for p in self.pred(b) if p in idom]
                    if not ps:
                        continue
                    new = ps[0]
                    for p in ps[1:]:
                        new = inter(p, new)
                    if idom.get(b) != new:
                        idom[b] = new
                        changed = True
            self._dom = idom
        return self._dom

    def dom_chain(self, b):
        """[b, idom(b), ..., 0]; [] if b is unreachable"""
        if b in self._chains:
            return self._chains[b]
        idom = self.idom()
        if b not in idom:
            return []
        chain = [b]
        while chain[-1] != 0:
            chain.append(idom[chain[-1]])
        self._chains[b] = chain
        return chain

    def dom_set(self, b):
        ds = self._domsets.get(b)
        if ds is None:
            ds = frozenset(self.dom_chain(b))
            self._domsets[b] = ds
        return ds

    def dominates(self, a, b):
        return a in self.dom_set(b)

    # ---- correlated temporaries ------------------------------------------------------------------
    def _corr(self):
        """Result / bool temporaries with several constant definitions that are later branched on: the shape of
        `let r = if c { Err(..) } else { Ok(..) }; r?`, of `matches!`, and of the return value of a helper inlined by
        vlib/inline.py. Returns (sets, switches): sets[b] = [(local, value | None | ('copy', src))] in statement order,
        switches[b] = (local, {value: target block})."""
        if getattr(self, "_corr_cache", None) is not None:
            return self._corr_cache
        pa = Prov(None, "alias")
        cand = {}
        for loc, ds in self.defs().items():
            if loc == 0 or len(ds) < 2:
                continue
            vals = []
            for bi, si, kind, payload in ds:
                if kind != "assign":
                    vals = None
                    break
                rv = payload
                if rv[0] == "agg" and rv[1].endswith("result::Result"):
                    vals.append(rv[2])
                elif rv[0] == "use" and rv[1][0] == "k" and rv[1][1].get("ty") == "bool" and "int" in rv[1][1]:
                    vals.append(bool(int(rv[1][1]["int"])))
                else:
                    vals = None
                    break
            if vals:
                cand[loc] = set(vals)
        switches = {}
        if cand:
            for bi, b in enumerate(self.blocks):
                t = b["t"]
                if t[0] != "switch":
                    continue
                r = pa.root(self, t[1])
                neg = False
                while r[0] == "not":
                    neg = not neg
                    r = r[1]
                cases = [(v, tb) for v, tb in t[2]]
                other = t[3]

                def tgt(n):
                    for v, tb in cases:
                        if int(v) == n:
                            return tb
                    return other
                if r[0] == "local" and not r[3] and r[1] in cand and cand[r[1]] <= {True, False}:
                    switches[bi] = (r[1], {True: tgt(0 if neg else 1), False: tgt(1 if neg else 0)})
                elif r[0] == "discr" and r[1][0] == "local" and not r[1][3] and r[1][1] in cand and (r[2] or "").endswith("result::Result"):
                    switches[bi] = (r[1][1], {"Ok": tgt(0), "Err": tgt(1)})
                elif r[0] == "discr" and r[1][0] == "call" and not r[1][3] and re.search(r"as std::ops::Try>::branch$", r[1][1]):
                    a = pa.root(self, self.blocks[r[1][2]]["t"][2][0])
                    if a[0] == "local" and not a[3] and a[1] in cand and cand[a[1]] <= {"Ok", "Err"}:
                        switches[bi] = (a[1], {"Ok": tgt(0), "Err": tgt(1)})
        used = {x for x, _ in switches.values()}
        sets = {}
        for loc in used:
            for bi, si, kind, payload in self.defs()[loc]:
                rv = payload
                val = rv[2] if rv[0] == "agg" else bool(int(rv[1][1]["int"]))
                sets.setdefault(bi, []).append((si, loc, val))
        for bi in sets:
            sets[bi] = [(loc, val) for si, loc, val in sorted(sets[bi])]
        self._corr_cache = (sets, switches)
        return self._corr_cache

    def reach_from(self, starts, avoid=()):
        """blocks reachable from any of `starts` (inclusive) without entering a block in `avoid`. Path-sensitive for
        correlated temporaries (see _corr): an edge of a switch on such a temporary is followed only with the value the
        temporary was given on that path."""
        sets, switches = self._corr()
        if switches:
            return self._reach_ps(starts, avoid, sets, switches)
        avoid = set(avoid)
        seen = set()
        work = [s for s in starts if s not in avoid]
        while work:
            x = work.pop()
            if x in seen:
                continue
            seen.add(x)
            for s in self.succ(x):
                if s not in avoid and s not in seen:
                    work.append(s)
        return seen

    def _reach_ps(self, starts, avoid, sets, switches):
        avoid = set(avoid)
        seen = set()
        work = [(s, ()) for s in starts if s not in avoid]
        while work:
            x, facts = work.pop()
            if (x, facts) in seen:
                continue
            seen.add((x, facts))
            if x in sets:
                d = dict(facts)
                for loc, val in sets[x]:
                    d[loc] = val
                facts = tuple(sorted(d.items(), key=repr))
            succs = self.succ(x)
            if x in switches:
                loc, tg = switches[x]
                v = dict(facts).get(loc, "?")
                if v != "?" and v in tg:
                    succs = [tg[v]]
            for sx in succs:
                if sx not in avoid and (sx, facts) not in seen:
                    work.append((sx, facts))
        return {b for b, _ in seen}

    def can_reach(self, a, b, avoid=()):
        return b in self.reach_from([a], avoid)

    # ---- definitions ----------------------------------------------------------------------
    def defs(self):
        """local -> [(block, stmt_idx or -1, kind, payload)], kind in assign|call|partial"""
        if self._defs is None:
            d = collections.defaultdict(list)
            for bi, b in enumerate(self.blocks):
                for si, s in enumerate(b["s"]):
                    if s[0] == "A":
                        loc, proj = s[1]
                        d[loc].append((bi, si, "assign" if not proj else "partial", s[2]))
                    elif s[0] == "SD":
                        loc, proj = s[1]
                        d[loc].append((bi, si, "partial", s))
                t = b["t"]
                if t[0] == "call":
                    loc, proj = t[3]
                    d[loc].append((bi, -1, "call" if not proj else "partial", t))
            self._defs = d
        return self._defs

    def use_blocks(self):
        """local -> set of blocks that read it (any mention outside the assigned place of a statement)"""
        if getattr(self, "_uses", None) is None:
            d = collections.defaultdict(set)

            def scan(x, bi):
                # operands are ["c"|"m", [loc, proj]]; places [loc, proj]; walk the JSON generically
                if isinstance(x, list):
                    if len(x) == 2 and isinstance(x[0], int) and isinstance(x[1], list):
                        d[x[0]].add(bi)
                        for e in x[1]:
                            if isinstance(e, list) and e and e[0] == "i":
                                d[e[1]].add(bi)
                        return
                    for y in x:
                        scan(y, bi)
            for bi, b in enumerate(self.blocks):
                for st in b["s"]:
                    if st[0] == "A":
                        if st[1][1]:
                            d[st[1][0]].add(bi)
                        scan(st[2], bi)
                t = b["t"]
                if t[0] == "switch":
                    scan(t[1], bi)
                elif t[0] == "call":
                    scan(t[2], bi)
                    if t[3][1]:
                        d[t[3][0]].add(bi)
                elif t[0] == "assert":
                    scan(t[1], bi)
            self._uses = d
            self._reach_cache = {}
        return self._uses

    def live_at(self, loc, b):
        """may local `loc` still be read at or after block b?"""
        ub = self.use_blocks().get(loc)
        if not ub:
            return False
        rc = self._reach_cache.get(b)
        if rc is None:
            rc = self._reach_cache[b] = frozenset(self.reach_from([b]))
        return not ub.isdisjoint(rc)

    def calls(self):
        for bi, b in enumerate(self.blocks):
            t = b["t"]
            if t[0] == "call":
                yield Call(self, bi)

    def local_ty(self, loc):
        return self.locals[loc]

    # ---- exits ----------------------------------------------------------------------------
    def exit_defs(self):
        """blocks that define the return place _0, with a classification:
        OK (Result::Ok / non-Result value), ERR_NEW (Result::Err aggregate), ERR_PROP (from_residual),
        CALL (value of a call, e.g. tail `return f(x)`), COPY (moved from another local)"""
        out = []
        for bi, b in enumerate(self.blocks):
            for si, s in enumerate(b["s"]):
                if s[0] == "A" and s[1][0] == 0 and not s[1][1]:
                    rv = s[2]
                    if rv[0] == "agg" and rv[1].endswith("result::Result"):
                        out.append((bi, "OK" if rv[2] == "Ok" else "ERR_NEW"))
                    elif rv[0] == "use" and rv[1][0] != "k":
                        out.append((bi, "COPY"))
                    else:
                        out.append((bi, "OK"))
            t = b["t"]
            if t[0] == "call" and t[3][0] == 0 and not t[3][1]:
                q = t[1].get("q", "")
                out.append((bi, "ERR_PROP" if "FromResidual" in q or "from_residual" in q else "CALL"))
        return out

    def returns_result(self):
        return "result::Result<" in self.locals[0] or self.locals[0].startswith("std::result::Result")

    def ret_blocks(self):
        return [i for i, b in enumerate(self.blocks) if b["t"][0] == "ret"]


class Call:
    __slots__ = ("fn", "b", "t")

    def __init__(self, fn, b):
        self.fn = fn
        self.b = b
        self.t = fn.blocks[b]["t"]

    @property
    def callee(self):
        return self.t[1]

    @property
    def q(self):
        return self.t[1].get("q") or ""

    @property
    def full(self):
        return self.t[1].get("full") or self.q

    @property
    def kind(self):
        return self.t[1].get("k")

    @property
    def args(self):
        return self.t[2]

    @property
    def dest(self):
        return self.t[3]

    @property
    def target(self):
        return self.t[4]

    @property
    def line(self):
        return self.t[5]

    @property
    def exp(self):
        return self.t[6] if len(self.t) > 6 else False

    @property
    def loc(self):
        return "%s:%d" % (self.fn.file, self.line)

    def __repr__(self):
        return "<call %s in %s @%s>" % (short_name(self.q), self.fn.short, self.loc)


def short_name(q):
    """`acts::scheduler::process::task::Task::update` -> `Task::update`;
    `a::b::<impl T for X>::f::{closure#0}` -> `<X as T>::f::{closure#0}`"""
    m = re.match(r"^(.*?)<impl (.*?) for (.*)>::(.*)$", q)
    if m:
        tr = m.group(2).split("::")[-1]
        ty = re.sub(r"[A-Za-z_0-9]+::", "", m.group(3))
        return "<%s as %s>::%s" % (ty, tr, m.group(4))
    m = re.match(r"^<(.*) as (.*?)>::(.*)$", q)
    if m:
        ty = re.sub(r"[A-Za-z_0-9]+::", "", m.group(1))
        tr = re.sub(r"[A-Za-z_0-9]+::", "", m.group(2))
        return "<%s as %s>::%s" % (ty, tr, m.group(3))
    m = re.match(r"^(.*?)<impl (.*)>::(.*)$", q)
    if m:
        ty = re.sub(r"[A-Za-z_0-9]+::", "", m.group(2))
        return "%s::%s" % (ty, m.group(3))
    parts = q.split("::")
    # keep Type::method(::{closure})
    keep = []
    for p in reversed(parts):
        keep.append(p)
        if not p.startswith("{") and len([k for k in keep if not k.startswith("{")]) >= 2:
            break
    return "::".join(reversed(keep))


# --------------------------------------------------------------------------------------------
# whole-program model
# --------------------------------------------------------------------------------------------


class Model:
    def __init__(self, crates):
        self.fns = {}
        self.adts = {}
        self.statics = []
        self.impls = []
        self.crates = []
        for j in crates:
            c = j["crate"]
            self.crates.append(c)
            for f in j["fns"]:
                fn = Fn(f, c)
                self.fns[fn.q] = fn
            for a in j["adts"]:
                self.adts.setdefault(a["name"], a)
            for s in j["statics"]:
                s = dict(s)
                s["crate"] = c
                self.statics.append(s)
            for i in j["impls"]:
                i = dict(i)
                i["crate"] = c
                self.impls.append(i)
        self._callers = None
        self._closure_sites = None
        self._trait_impls = None

    def fn(self, q):
        return self.fns.get(q)

    def inlined_view(self, f, want, depth=2):
        """a copy of function f with the calls selected by `want(Call)` inlined (vlib/inline.py), for rules that read a
        protocol step which may live in a helper of the tree itself (`child.resume(ctx)` for the inline set Running / emit /
        exec). The view is not registered in the model; its block numbers are its own."""
        from . import inline as _inl
        j = f.j
        changed = False
        for _ in range(depth):
            g = Fn(j, f.crate) if changed else f
            sites = [c.b for c in g.calls() if c.q in self.fns and c.q != f.q and c.kind not in ("virtual", "generic", "indirect", "err") and want(c)]
            if not sites:
                break
            for b in sites:
                j = _inl.inline_call(j, b, self.fns[j["blocks"][b]["t"][1]["q"]].j)
                changed = True
        return Fn(j, f.crate) if changed else f

    def find(self, pat):
        r = re.compile(pat)
        return [f for q, f in self.fns.items() if r.search(q)]

    def one(self, pat):
        fs = self.find(pat)
        if len(fs) != 1:
            raise Anchor("expected exactly one function matching /%s/, found %d: %s" % (pat, len(fs), [f.q for f in fs][:6]))
        return fs[0]

    def all_fns(self, local_only=True):
        return list(self.fns.values())

    def calls_to(self, pat, in_fns=None):
        r = re.compile(pat)
        out = []
        for f in (in_fns if in_fns is not None else self.fns.values()):
            for c in f.calls():
                if r.search(c.q):
                    out.append(c)
        return out

    def callers(self):
        """callee q -> [Call]"""
        if self._callers is None:
            d = collections.defaultdict(list)
            for f in self.fns.values():
                for c in f.calls():
                    d[c.q].append(c)
            self._callers = d
        return self._callers

    def closure_sites(self):
        """closure q -> (parent Fn, block, stmt idx, captured operands)"""
        if self._closure_sites is None:
            d = {}
            for f in self.fns.values():
                for bi, b in enumerate(f.blocks):
                    for si, s in enumerate(b["s"]):
                        if s[0] == "A" and s[2][0] in ("closure", "coroutine", "coroutine_closure"):
                            d[s[2][1]] = (f, bi, si, s[2][2])
            self._closure_sites = d
        return self._closure_sites

    def trait_impls(self):
        """trait method q -> [impl method q]"""
        if self._trait_impls is None:
            d = collections.defaultdict(list)
            for i in self.impls:
                for k, v in i["items"]:
                    d[k].append(v)
            self._trait_impls = d
        return self._trait_impls

    def adt(self, name):
        a = self.adts.get(name)
        if a is None:
            raise Anchor("ADT %s not found in facts" % name)
        return a

    def variants(self, name):
        return [(v["name"], int(v["discr"]) if v["discr"] is not None else v["i"]) for v in self.adt(name)["variants"]]

    def struct_fields(self, name):
        return self.adt(name)["variants"][0]["fields"]

    def struct_field_types(self, name):
        v = self.adt(name)["variants"][0]
        return dict(zip(v["fields"], v.get("ftys", [])))


class Anchor(Exception):
    """a rule's anchor is missing or not in an analysable shape -> UNDECIDED (exit 2), never a pass"""


# --------------------------------------------------------------------------------------------
# provenance (E3)
# --------------------------------------------------------------------------------------------

# calls that return (a view of) the *same object* as their first argument
ALIAS_TRANSPARENT = re.compile(
    r"(^<std::sync::Arc<T, A> as std::clone::Clone>::clone$"
    r"|^<std::rc::Rc<T, A> as std::clone::Clone>::clone$"
    r"|as std::ops::Deref>::deref$|as std::ops::DerefMut>::deref_mut$"
    r"|as std::borrow::Borrow<.*>>::borrow$|as std::borrow::BorrowMut<.*>>::borrow_mut$"
    r"|as std::convert::AsRef<.*>>::as_ref$|as std::convert::AsMut<.*>>::as_mut$"
    r"|^std::option::Option::<T>::as_ref$|^std::option::Option::<T>::as_mut$"
    r"|^std::option::Option::<&T>::cloned$|^std::option::Option::<T>::as_deref$"
    r"|^std::sync::Weak::<T, A>::upgrade$"
    r"|^std::string::String::as_str$|^std::vec::Vec::<T, A>::as_slice$"
    r"|^<&T as std::clone::Clone>::clone$"
    r"|^std::hint::must_use$|^std::convert::identity$)"
)
# in value mode these are transparent too: the value is the same (or an image of it)
VALUE_TRANSPARENT = re.compile(
    r"(as std::clone::Clone>::clone$|^std::clone::Clone::clone$"
    r"|as std::string::ToString>::to_string$|^std::string::ToString::to_string$"
    r"|as std::convert::Into<.*>>::into$|as std::convert::From<.*>>::from$"
    r"|^std::borrow::ToOwned::to_owned$|as std::borrow::ToOwned>::to_owned$|^std::str::<impl str>::to_owned$|^std::str::<impl str>::to_string$"
    r"|^std::option::Option::<T>::unwrap$|^std::result::Result::<T, E>::unwrap$"
    r"|^std::option::Option::<T>::expect$|^std::result::Result::<T, E>::expect$"
    r"|^std::option::Option::<T>::unwrap_or_default$|^std::result::Result::<T, E>::unwrap_or_default$"
    r"|^std::option::Option::<&T>::copied$|^std::option::Option::<T>::clone$"
    r"|^serde_json::to_value$|^serde_json::value::to_value$"
    r"|^std::boxed::Box::<T>::new$|^std::sync::Arc::<T>::new$"
    r")"
)

ALIAS_DECLS = {
    "std::ops::Deref::deref", "std::ops::DerefMut::deref_mut", "std::borrow::Borrow::borrow",
    "std::borrow::BorrowMut::borrow_mut", "std::convert::AsRef::as_ref", "std::convert::AsMut::as_mut",
}
VALUE_DECLS = {
    "std::clone::Clone::clone", "std::string::ToString::to_string", "std::convert::Into::into",
    "std::convert::From::from", "std::borrow::ToOwned::to_owned",
}

ITER_ADAPTORS = re.compile(
    r"(::into_iter$|::iter$|::iter_mut$|^std::iter::Iterator::rev$|^std::iter::Iterator::enumerate$"
    r"|^std::iter::Iterator::by_ref$|^core::slice::<impl \[T\]>::iter(_mut)?$)"
)
ITER_NEXT = re.compile(r"as std::iter::Iterator>::next$|^std::iter::Iterator::next$")


def fields_of(proj):
    out = []
    for p in proj:
        if isinstance(p, list):
            if p[0] == "f":
                out.append(p[2])
            elif p[0] == "d":
                out.append("@" + p[1])
            elif p[0] == "i":
                out.append("[]")
    return tuple(out)


class HDict(dict):
    """hashable constant payload"""

    def __hash__(self):
        return hash(tuple(sorted((k, str(v)) for k, v in self.items())))


class Prov:
    """backward def-use tracing of an operand to a provenance root.

    roots (tuples):
      ('param', i, name, fields)            parameter i (1-based) of the function, optional field path
      ('upvar', name, fields)               captured variable of a closure
      ('const', dict)                       constant
      ('call', q, block, fields)            result of the call terminating `block`
      ('agg', adt, variant, block, sidx)    struct/enum literal
      ('tuple'|'array', block, sidx)
      ('closure', q, block, sidx)
      ('local', loc, name, fields, ndefs)   local with several definitions (loop variable, `let mut`)
      ('not', r) ('un', op, r) ('bin', op, r1, r2) ('discr', r) ('len', r) ('cast', kind, r, from, to)
      ('rv', kind, loc)                     anything else
    """

    def __init__(self, model, mode="alias"):
        self.m = model
        self.mode = mode

    def transparent(self, callee):
        """callee: the callee dict of a call terminator"""
        q = callee.get("q") or ""
        decl = callee.get("decl") or ""
        args = callee.get("args") or []
        self_ty = args[0] if args else ""
        if ALIAS_TRANSPARENT.search(q):
            return True
        if decl in ALIAS_DECLS:
            return True
        if decl == "std::clone::Clone::clone" and (self_ty.startswith("std::sync::Arc<") or self_ty.startswith("std::rc::Rc<") or self_ty.startswith("&")):
            return True
        if self.mode == "value":
            if VALUE_TRANSPARENT.search(q) or decl in VALUE_DECLS:
                return True
        return False

    def root(self, fn, op, depth=0, seen=frozenset()):
        if op[0] == "k":
            c = op[1]
            if c.get("promoted") is not None and fn.promoted:
                inner = self._promoted_const(fn, c["promoted"])
                if inner is not None:
                    return inner
            return ("const", HDict(c))
        loc, proj = op[1]
        return self.root_place(fn, loc, proj, depth, seen)

    def _promoted_const(self, fn, idx):
        """a promoted constant `&CONST` / `&"lit"` / `&Enum::Variant`: the root of what it refers to"""
        try:
            pb = fn.promoted[idx]
        except Exception:
            return None
        found = []
        for bi, b in enumerate(pb.blocks):
            for si, s in enumerate(b["s"]):
                if s[0] != "A":
                    continue
                rv = s[2]
                if rv[0] == "use" and rv[1][0] == "k" and ("str" in rv[1][1] or "int" in rv[1][1]):
                    found.append(("const", HDict(rv[1][1])))
                elif rv[0] == "agg" and not rv[4]:
                    found.append(("agg", rv[1], rv[2], -1 - idx, si))
        if len(found) == 1:
            return found[0]
        return None

    def _wrap(self, r, fs):
        if not fs:
            return r
        if r[0] == "param":
            return ("param", r[1], r[2], r[3] + fs)
        if r[0] == "upvar":
            return ("upvar", r[1], r[2] + fs)
        if r[0] == "call":
            return ("call", r[1], r[2], r[3] + fs)
        if r[0] == "local":
            return ("local", r[1], r[2], r[3] + fs, r[4])
        if r[0] == "field":
            return ("field", r[1], r[2] + fs)
        return ("field", r, fs)

    def root_place(self, fn, loc, proj, depth=0, seen=frozenset()):
        fs = fields_of(proj)
        if depth > 60:
            return ("deep", loc)
        # closure environment
        if loc == 1 and fn.upvars and fn.defkind in ("Closure",):
            # captured variables live in fields of the closure environment _1 (by value or by
            # reference); dereferences are transparent, so compare the field paths only
            mine = [e for e in proj if e != "*"]
            best = None
            for name, (l, p) in fn.upvars:
                up = [e for e in p if e != "*"]
                if l == 1 and up and mine[: len(up)] == up:
                    if best is None or len(up) > len(best[1]):
                        best = (name, up)
            if best is not None:
                rest = fields_of(mine[len(best[1]):])
                return ("upvar", best[0], rest)
        if 1 <= loc <= fn.argc:
            return ("param", loc, fn.names.get(loc), fs)
        if loc in seen:
            return ("cycle", loc)
        seen = seen | {loc}
        ds = [d for d in fn.defs().get(loc, []) if d[2] in ("assign", "call")]
        if len(ds) != 1:
            return ("local", loc, fn.names.get(loc), fs, len(ds))
        bi, si, k, payload = ds[0]
        if k == "call":
            t = payload
            q = t[1].get("q") or ""
            if t[2] and self.transparent(t[1]):
                return self._wrap(self.root(fn, t[2][0], depth + 1, seen), fs)
            # `Ok(v)?` is v: the Continue payload of a `?` on a Result that was built by an `Ok(..)` literal in this body
            # (directly, or as the only Ok definition of a local whose other definitions are errors - the return value of
            # a helper inlined by vlib/inline.py)
            if fs[:2] == ("@Continue", "0") and t[2] and re.search(r"as std::ops::Try>::branch$", q):
                a = self.root(fn, t[2][0], depth + 1, seen)
                okop = None
                if a[0] == "agg" and a[1].endswith("result::Result") and a[2] == "Ok" and a[3] >= 0:
                    okop = fn.blocks[a[3]]["s"][a[4]][2][4][0]
                elif a[0] == "local" and not a[3]:
                    oks, bad = [], False
                    for d in fn.defs().get(a[1], []):
                        if d[2] == "assign" and d[3][0] == "agg" and d[3][1].endswith("result::Result"):
                            if d[3][2] == "Ok":
                                oks.append(d[3][4][0])
                        elif d[2] == "call" and "from_residual" in (d[3][1].get("q") or ""):
                            pass
                        else:
                            bad = True
                    if len(oks) == 1 and not bad:
                        okop = oks[0]
                if okop is not None:
                    return self._wrap(self.root(fn, okop, depth + 1, seen), fs[2:])
            # `x.unwrap_or(false)` / `unwrap_or(0)` is `x.unwrap_or_default()`
            if self.mode == "value" and len(t[2]) == 2 and re.search(r"^std::(option::Option::<T>|result::Result::<T, E>)::unwrap_or$", q) \
                    and t[2][1][0] == "k" and t[2][1][1].get("int") == "0":
                return self._wrap(self.root(fn, t[2][0], depth + 1, seen), fs)
            return ("call", q, bi, fs)
        rv = payload
        kind = rv[0]
        if kind == "use":
            return self._wrap(self.root(fn, rv[1], depth + 1, seen), fs)
        if kind in ("ref", "addr"):
            l2, p2 = rv[1]
            return self._wrap(self.root_place(fn, l2, p2, depth + 1, seen), fs)
        if kind == "cast":
            ck = rv[1]
            if ck.startswith("PointerCoercion") or ck in ("Transmute", "PtrToPtr"):
                return self._wrap(self.root(fn, rv[2], depth + 1, seen), fs)
            return ("cast", ck, self.root(fn, rv[2], depth + 1, seen), rv[3], rv[4])
        if kind == "agg":
            if fs and rv[3]:
                # field of a struct literal: follow the operand of that field
                f0 = fs[0]
                if f0 in rv[3]:
                    return self._wrap(self.root(fn, rv[4][rv[3].index(f0)], depth + 1, seen), fs[1:])
            if rv[1].endswith("option::Option") and rv[2] == "Some" and self.mode == "value" and not fs:
                return ("some", self.root(fn, rv[4][0], depth + 1, seen))
            return self._wrap(("agg", rv[1], rv[2], bi, si), fs)
        if kind == "tuple":
            if fs and fs[0].isdigit() and int(fs[0]) < len(rv[1]):
                return self._wrap(self.root(fn, rv[1][int(fs[0])], depth + 1, seen), fs[1:])
            return self._wrap(("tuple", bi, si), fs)
        if kind == "array":
            return self._wrap(("array", bi, si), fs)
        if kind in ("closure", "coroutine", "coroutine_closure"):
            return ("closure", rv[1], bi, si)
        if kind == "un":
            if rv[1] == "Not":
                return ("not", self.root(fn, rv[2], depth + 1, seen))
            return ("un", rv[1], self.root(fn, rv[2], depth + 1, seen))
        if kind == "bin":
            return self._wrap(("bin", rv[1], self.root(fn, rv[2], depth + 1, seen), self.root(fn, rv[3], depth + 1, seen)), fs)
        if kind == "discr":
            l2, p2 = rv[1]
            return ("discr", self.root_place(fn, l2, p2, depth + 1, seen), rv[2] if len(rv) > 2 else None)
        if kind == "len":
            l2, p2 = rv[1]
            return ("len", self.root_place(fn, l2, p2, depth + 1, seen))
        return ("rv", kind, loc)

    # ---- helpers ----------------------------------------------------------------------------
    def agg_operands(self, fn, root):
        """for an ('agg', adt, variant, b, si) root: {field: operand}"""
        _, adt, variant, b, si = root
        rv = fn.blocks[b]["s"][si][2]
        return dict(zip(rv[3], rv[4]))

    def list_operands(self, fn, root):
        _, b, si = root[:3]
        rv = fn.blocks[b]["s"][si][2]
        return rv[1]

    def call_at(self, fn, root):
        assert root[0] == "call"
        return Call(fn, root[2])

    def iter_source(self, fn, root):
        """if `root` is the element of a `for` loop (`Iterator::next(..)` result, Some.0), return
        (source_root, next_block, adaptors) where source_root is what is iterated over"""
        if root[0] != "call" or not ITER_NEXT.search(root[1]):
            return None
        c = Call(fn, root[2])
        adaptors = []
        op = c.args[0]
        for _ in range(30):
            r = Prov(self.m, "alias").root(fn, op)
            if r[0] == "local" and r[4] >= 1:
                # `iter` local: `_it = move _x` defined once outside the loop plus nothing else
                ds = [d for d in fn.defs().get(r[1], []) if d[2] in ("assign", "call")]
                if len(ds) == 1:
                    return (r, c.b, adaptors)
                return (r, c.b, adaptors)
            if r[0] == "call" and ITER_ADAPTORS.search(r[1]):
                adaptors.append(r[1])
                op = Call(fn, r[2]).args[0]
                continue
            return (r, c.b, adaptors)
        return None


def strip_try(fn, pa, r, depth=0):
    """`x?` is the payload of x: a root `Try::branch(x).@Continue.0` becomes the root of x with `.@Some.0` / `.@Ok.0`"""
    if r[0] == "call" and r[3][:2] == ("@Continue", "0") and re.search(r"as std::ops::Try>::branch$", r[1]) and depth < 4:
        c = Call(fn, r[2])
        if c.args:
            inner = strip_try(fn, pa, pa.root(fn, c.args[0]), depth + 1)
            var = "@Some" if "option::Option" in r[1] else "@Ok"
            return pa._wrap(inner, (var, "0") + tuple(r[3][2:]))
    return r


def enum_const_cases(fn, pa, op, depth=0):
    """the constant unit variants an operand can hold: [(variant, block where that constant is chosen)], or None when some
    definition is not a constant variant. `f(Kind::A)` in each arm of a match and `let k = match .. { .. => Kind::A, .. };
    f(k)` give the same cases; the block is where the guards that select the variant can be read (the call block itself
    for a literal argument, the defining block for a local assigned in several arms)"""
    r = pa.root(fn, op)
    if r[0] == "agg" and not (len(r) > 3 and fn.blocks[r[3]]["s"][r[4]][2][4] if r[3] >= 0 else False):
        return [(r[2], r[3] if r[3] >= 0 else None)]
    if r[0] == "local" and not r[3] and depth < 4:
        out = []
        for bi, si, kind, payload in fn.defs().get(r[1], []):
            if kind != "assign":
                return None
            rv = payload
            if rv[0] == "agg" and not rv[4]:
                out.append((rv[2], bi))
            elif rv[0] == "use" and rv[1][0] != "k":
                sub = enum_const_cases(fn, pa, rv[1], depth + 1)
                if sub is None:
                    return None
                out += [(v, b if b is not None else bi) for v, b in sub]
            else:
                return None
        return out or None
    return None


def root_str(r):
    """compact printable form of a root"""
    if r is None:
        return "?"
    k = r[0]
    if k == "param":
        return "%s%s" % (r[2] or ("arg%d" % r[1]), "".join("." + f for f in r[3]))
    if k == "upvar":
        return "%s%s" % (r[1], "".join("." + f for f in r[2]))
    if k == "const":
        c = r[1]
        for key in ("str", "int", "fn", "closure", "zst", "uneval"):
            if key in c:
                return "%s:%r" % (key, c[key])
        return "const"
    if k == "call":
        return "%s()%s" % (short_name(r[1]), "".join("." + f for f in r[3]))
    if k == "agg":
        return "%s::%s{..}" % (r[1].split("::")[-1], r[2])
    if k == "local":
        return "%s%s" % (r[2] or ("_%d" % r[1]), "".join("." + f for f in r[3]))
    if k == "not":
        return "!" + root_str(r[1])
    if k == "bin":
        return "(%s %s %s)" % (root_str(r[2]), r[1], root_str(r[3]))
    if k == "discr":
        return "discr(%s)" % root_str(r[1])
    if k == "field":
        return "%s%s" % (root_str(r[1]), "".join("." + f for f in r[2]))
    if k == "some":
        return "Some(%s)" % root_str(r[1])
    if k == "cast":
        return "(%s as %s)" % (root_str(r[2]), r[4])
    if k == "len":
        return "len(%s)" % root_str(r[1])
    return str(r)


# --------------------------------------------------------------------------------------------
# guards (E4)
# --------------------------------------------------------------------------------------------


class Guard:
    """a dominating branch condition of a site: the switch in block `b` was left through one of the
    case labels in `labels` ('otherwise' or an integer string) whenever the site executes"""

    __slots__ = ("fn", "b", "labels", "all_labels", "root", "neg", "line", "necessary")

    def __init__(self, fn, b, labels, all_labels, root, neg):
        # `a != b` is `!(a == b)`: one canonical form, so that `if x == 0 { .. }` and `if x != 0 { return }` read the same
        if root[0] == "bin" and root[1] == "Ne":
            root = ("bin", "Eq") + tuple(root[2:])
            neg = not neg
        self.fn, self.b, self.labels, self.all_labels, self.root, self.neg = fn, b, labels, all_labels, root, neg
        self.necessary = False
        t = fn.blocks[b]["t"]
        self.line = t[4] if len(t) > 4 else 0

    @property
    def truth(self):
        """for boolean conditions: the truth value of the (un-negated) condition root at the site,
        or None when the switch is not a plain two-way boolean test"""
        if set(self.all_labels) != {"0", "otherwise"}:
            return None
        if self.labels == {"otherwise"}:
            v = True
        elif self.labels == {"0"}:
            v = False
        else:
            return None
        return (not v) if self.neg else v

    @property
    def neutral(self):
        """conditions produced by macro expansions (tracing `enabled` checks, constant flags)"""
        r = self.root
        if r[0] == "const":
            return True
        if r[0] == "call":
            c = Call(self.fn, r[2])
            # `?`, `for` and `matches!` are desugarings too, but they carry program conditions
            return "tracing" in r[1] or (bool(c.exp) and not re.search(r"Try>::branch$|Iterator|PartialEq|PartialOrd", r[1]))
        if r[0] == "discr" and r[1][0] == "call":
            return "tracing" in r[1][1]
        return False

    def __repr__(self):
        return "<guard %s %s @%d>" % (root_str(self.root), sorted(self.labels) if self.truth is None else self.truth, self.line)


def guards_of(model, fn, site_block, mode="value", _thread=True):
    """the conditions that HOLD whenever `site_block` runs: its dominating branch conditions (nearest first) plus the other
    necessary conditions found on the path-sensitive CFG (vlib/ctrl.py: every path to the site passes the switch and leaves
    it through the reaching labels; a switch on a named temporary is resolved to the condition it was computed from).
    Cached per (function, site, mode). For the conditions that MAY decide the site use conditions_of()."""
    if not _thread:
        return _dominating_guards(model, fn, site_block, mode, _thread)
    return [g for g in conditions_of(model, fn, site_block, mode) if g.necessary]


def conditions_of(model, fn, site_block, mode="value"):
    """every condition that can decide whether `site_block` runs (control dependence, vlib/ctrl.py), each flagged
    `.necessary` when it holds on every path to the site. Rules that forbid further conditions ("nothing else decides")
    read this list; rules that need a condition to hold read guards_of()."""
    key = (site_block, mode)
    cache = fn.__dict__.setdefault("_guards_cache", {})
    if key in cache:
        return cache[key]
    out = list(_dominating_guards(model, fn, site_block, mode, True))
    for g in out:
        g.necessary = True
    try:
        from .ctrl import deciding
        dec, nec = deciding(model, fn, site_block, mode, with_necessary=True)
        # a switch on a named temporary that the product resolved to the condition(s) it was computed from: the resolved
        # conditions replace the guard on the temporary
        resolved = {g.b for g in dec + nec if g.root[0] != "local"}
        out = [g for g in out if not (g.root[0] == "local" and g.b in resolved)]
        have = {(g.b, repr(g.root), g.neg, tuple(sorted(g.labels))) for g in out}
        for g in nec:
            k = (g.b, repr(g.root), g.neg, tuple(sorted(g.labels)))
            if k not in have:
                have.add(k)
                g.necessary = True
                out.append(g)
        for g in dec:
            k = (g.b, repr(g.root), g.neg, tuple(sorted(g.labels)))
            if k not in have:
                have.add(k)
                g.necessary = False
                out.append(g)
    except (ValueError, RecursionError):
        pass
    cache[key] = out
    return out


def _dominating_guards(model, fn, site_block, mode="value", _thread=True):
    """dominating branch conditions of `site_block` (nearest first). See DESIGN Appendix B.1:
    for every dominator d that ends in a switch, the labels through which the site can be reached
    without passing d again; kept only if that is a proper subset of d's labels."""
    prov = Prov(model, mode)
    out = []
    chain = fn.dom_chain(site_block)
    for d in chain[1:] if chain else []:
        t = fn.blocks[d]["t"]
        if t[0] != "switch":
            continue
        cases = [(v, b) for v, b in t[2]] + [("otherwise", t[3])]
        all_labels = [v for v, _ in cases]
        ok = set()
        memo = {}
        for v, tb in cases:
            if tb not in memo:
                memo[tb] = site_block in fn.reach_from([tb], avoid=[d])
            if memo[tb]:
                ok.add(v)
        # an `otherwise` edge to an unreachable block is not a real alternative
        real = set()
        for v, tb in cases:
            tt = fn.blocks[tb]["t"]
            if not (tt[0] == "unreachable" and not fn.blocks[tb]["s"]):
                real.add(v)
        if ok >= real:
            continue
        r = prov.root(fn, t[1])
        neg = False
        while r[0] == "not":
            neg = not neg
            r = r[1]
        out.append(Guard(fn, d, ok, [v for v in all_labels if v in real], r, neg))
    # jump threading for `matches!(x, P)` / `a || b` temporaries: a switch on a local whose only
    # definitions are boolean constants tells which definition block was executed last; if exactly
    # one definition has the required value, the guards of that block hold at the site as well
    if _thread:
        extra = []
        have = {g.b for g in out}
        for g in out:
            r = g.root
            if r[0] == "local" and g.truth is not None:
                ds = fn.defs().get(r[1], [])
                vals = []
                for bi, si, kind, payload in ds:
                    if kind == "assign" and payload[0] == "use" and payload[1][0] == "k" and payload[1][1].get("ty") == "bool":
                        vals.append((bi, bool(int(payload[1][1]["int"]))))
                    else:
                        vals = None
                        break
                if vals:
                    want = [bi for bi, v in vals if v == g.truth]
                    if len(want) == 1 and fn.dominates(want[0], site_block) is False:
                        for g2 in _dominating_guards(model, fn, want[0], mode, _thread=False):
                            if g2.b not in have:
                                have.add(g2.b)
                                extra.append(g2)
        out += extra
        # the same for `?` / `match` on a Result local whose definitions are `Ok(..)` / `Err(..)` literals in different
        # blocks (the return value of an inlined helper; `let r = if c { Err(..) } else { Ok(..) }`): the edge taken tells
        # which definition ran, and the guards of that definition hold at the site
        extra = []
        have = {g.b for g in out}
        for g in list(out):
            r = g.root
            if r[0] != "discr":
                continue
            want = None
            src = None
            if r[1][0] == "call" and re.search(r"as std::ops::Try>::branch$", r[1][1]) and not r[1][3]:
                vs = discr_variants(model, g)
                want = "Ok" if vs == {"Continue"} else ("Err" if vs == {"Break"} else None)
                src = Prov(model, "alias").root(fn, Call(fn, r[1][2]).args[0])
            elif r[1][0] == "local" and r[2] and r[2].endswith("result::Result") and not r[1][3]:
                vs = discr_variants(model, g)
                want = "Ok" if vs == {"Ok"} else ("Err" if vs == {"Err"} else None)
                src = r[1]
            if want is None or src is None or src[0] != "local" or src[3]:
                continue
            ds = _result_def_blocks(fn, src[1])
            if not ds:
                continue
            hit = [bi for bi, v in ds if v == want]
            if len(hit) == 1 and not fn.dominates(hit[0], site_block):
                for g2 in _dominating_guards(model, fn, hit[0], mode, _thread=False):
                    if g2.b not in have:
                        have.add(g2.b)
                        extra.append(g2)
        out += extra
    return out


def _result_def_blocks(fn, loc, depth=0):
    """[(block, 'Ok'|'Err')] for a local whose every definition is a Result literal (or a copy of such a local), else None"""
    out = []
    for bi, si, kind, payload in fn.defs().get(loc, []):
        if kind != "assign":
            return None
        rv = payload
        if rv[0] == "agg" and rv[1].endswith("result::Result"):
            out.append((bi, rv[2]))
        elif rv[0] == "use" and rv[1][0] != "k" and not rv[1][1][1] and depth < 3:
            sub = _result_def_blocks(fn, rv[1][1][0], depth + 1)
            if sub is None:
                return None
            out += sub
        else:
            return None
    return out


def bool_target(fn, b, truth):
    """successor of the two-way boolean switch in block b taken when the condition has `truth`"""
    t = fn.blocks[b]["t"]
    assert t[0] == "switch"
    for v, tb in t[2]:
        if v == "0":
            return tb if not truth else t[3]
    return None


def discr_variants(model, guard):
    """for a guard on a discriminant: the set of variant names allowed at the site"""
    r = guard.root
    if r[0] != "discr" or not r[2]:
        return None
    vs = model.variants(r[2])
    byd = {str(d): n for n, d in vs}
    if "otherwise" in guard.labels:
        explicit = set(guard.all_labels) - {"otherwise"}
        named = {byd[l] for l in guard.labels if l != "otherwise" and l in byd}
        return named | {n for n, d in vs if str(d) not in explicit}
    return {byd[l] for l in guard.labels if l in byd}
