#!/usr/bin/env python3
"""eval_sitecond.py : runs rules/sitecond.py alone on ACTS_REPO and prints the violated sites (experiment helper)"""
import os, sys, time
sys.path.insert(0, os.path.dirname(os.path.dirname(os.path.abspath(__file__))))
from vlib import facts, inline, report
from vlib.model import Model
from rules import sitecond
data, meta = facts.load("quick")
inline.apply(data)
m = Model(data)
bad = 0
for prop in sitecond.EFFECTS:
    cx = report.Cx(m, prop, "quick", meta)
    cx.rule("X", "K1", "site conditions")
    try:
        sitecond.check(cx, "X", prop)
    except Exception as e:
        print("ERR", prop, e)
        continue
    for o in cx.obs:
        if not o.ok:
            bad += 1
            print("VIOL %s %s :: %s" % (prop, o.key, o.desc[:260]))
    for u in cx.undecided:
        print("UNDEC", prop, u)
print("TOTAL", bad)
