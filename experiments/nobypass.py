#!/usr/bin/env python3
"""experiment: functions of crate acts that return Result, contain effect calls, and have NO Ok exit that avoids all of them.
gen: writes experiments/nobypass.json from ACTS_REPO; check: lists functions of the table that now have a bypass."""
import json, os, re, sys
sys.path.insert(0, os.path.dirname(os.path.dirname(os.path.abspath(__file__))))
from vlib import facts, inline
from vlib.model import Model
sys.path.insert(0, os.path.dirname(os.path.abspath(__file__)))
import sitecond
EFF = re.compile("|".join("(?:%s)" % p for p in sitecond.EFFECTS.values()))
TAB = os.path.join(os.path.dirname(os.path.abspath(__file__)), "nobypass.json")

def scan(m):
    out = {}
    for f in m.fns.values():
        if f.crate != "acts" or f.exp or "::tests::" in f.q or f.defkind == "Promoted" or not f.returns_result():
            continue
        eff = [c.b for c in f.calls() if not c.exp and (EFF.search(c.q) or EFF.search(c.callee.get("decl") or ""))]
        if not eff:
            continue
        oks = [b for b, k in f.exit_defs() if k == "OK"]
        if not oks:
            continue
        byp = f.reach_from([0], avoid=eff)
        out[f.q] = bool([b for b in oks if b in byp])
    return out

data, meta = facts.load("quick"); inline.apply(data); m = Model(data)
cur = scan(m)
if sys.argv[1:] == ["gen"]:
    json.dump({q: v for q, v in cur.items()}, open(TAB, "w"), indent=0, sort_keys=True)
    print(len(cur), "functions,", sum(1 for v in cur.values() if not v), "without bypass")
else:
    ref = json.load(open(TAB))
    bad = [q for q, v in cur.items() if v and ref.get(q) is False]
    for q in bad:
        print("BYPASS", q)
    print("TOTAL", len(bad))
