#!/usr/bin/env python3
"""gen_site_conditions.py : (re)writes tables/site_conditions.json from /repo's current tree (the reference of rules/sitecond.py).
Re-run after a `fix:` commit in /repo that changes the conditions of an effect call."""
import json, os, sys
sys.path.insert(0, os.path.dirname(os.path.dirname(os.path.abspath(__file__))))
from vlib import facts, inline
from vlib.model import Model
from rules import sitecond
data, meta = facts.load("quick")
inline.apply(data)
m = Model(data)
out = {"_comment": "deciding conditions of effect call sites at tree %s (function / callee / condition names only)" % meta["tree_hash"]}
tot = 0
for prop, pat in sitecond.EFFECTS.items():
    t = {}
    for (fn, callee), sites in sitecond.site_sets(m, pat).items():
        sets = sorted({conds for conds, _ in sites})
        t["%s<-%s" % (fn, callee)] = [list(s) for s in sets]
        tot += len(sites)
    out[prop] = t
json.dump(out, open(os.path.join(sitecond.VERIF, "tables", "site_conditions.json"), "w"), indent=0, sort_keys=True)
print(tot, "sites;", {p: len(out[p]) for p in sitecond.EFFECTS})
