//! acts-facts: a rustc_private driver that dumps the type-checked MIR of the workspace crates of
//! yaojianpin/acts as JSON facts (engine E1 of /verif/DESIGN.md).
//!
//! It is used as RUSTC_WORKSPACE_WRAPPER under `cargo +nightly check`; cargo calls it as
//! `acts-facts <path-to-rustc> <rustc args...>`. For every crate it compiles normally (so that
//! dependants find their metadata) and, when the crate name is listed in `ACTS_FACTS_CRATES`,
//! it writes `$ACTS_FACTS_OUT/<crate>.json` (one write per process).
//!
//! Nothing of the analysed program is executed: the driver only reads MIR, types and constants.
#![feature(rustc_private)]
extern crate rustc_driver;
extern crate rustc_hir;
extern crate rustc_interface;
extern crate rustc_middle;
extern crate rustc_span;
#[macro_use]
extern crate rustc_public;
extern crate regex_syntax;
extern crate serde_json;

use rustc_middle::ty::print::PrintTraitRefExt;
use rustc_middle::ty::TyCtxt;
use rustc_public::mir::alloc::GlobalAlloc;
use rustc_public::mir::*;
use rustc_public::rustc_internal;
use rustc_public::ty::*;
use rustc_public::CrateDef;
use serde_json::{json, Value};
use std::collections::BTreeMap;
use std::io::Write;
use std::ops::ControlFlow;

struct Cx<'tcx> {
    tcx: TyCtxt<'tcx>,
    adts: BTreeMap<String, Value>,
    /// string constants met while dumping the current body (for the regex pass)
    strs: Vec<String>,
}

fn qname(tcx: TyCtxt<'_>, did: rustc_span::def_id::DefId) -> String {
    use rustc_middle::ty::print::{with_no_trimmed_paths, with_resolve_crate_name};
    with_resolve_crate_name!(with_no_trimmed_paths!(tcx.def_path_str(did)))
}

fn span_json(sp: &rustc_public::ty::Span) -> Value {
    let l = sp.get_lines();
    json!([sp.get_filename(), l.start_line, l.end_line])
}

impl<'tcx> Cx<'tcx> {
    fn note_adt(&mut self, def: &AdtDef) {
        let name = def.name();
        if self.adts.contains_key(&name) {
            return;
        }
        let idef = rustc_internal::internal(self.tcx, *def);
        self.note_adt_internal(name, idef);
    }

    fn note_adt_internal(&mut self, name: String, adt: rustc_middle::ty::AdtDef<'tcx>) {
        if self.adts.contains_key(&name) {
            return;
        }
        let tcx = self.tcx;
        let mut variants = vec![];
        let discrs: Vec<String> = if adt.is_enum() {
            adt.discriminants(tcx).map(|(_, d)| d.val.to_string()).collect()
        } else {
            vec![]
        };
        for (i, v) in adt.variants().iter().enumerate() {
            let ftys: Vec<String> = v
                .fields
                .iter()
                .map(|f| tcx.type_of(f.did).instantiate_identity().skip_norm_wip().to_string())
                .collect();
            variants.push(json!({
                "i": i, "name": v.name.to_string(), "discr": discrs.get(i),
                "fields": v.fields.iter().map(|f| f.name.to_string()).collect::<Vec<_>>(),
                "ftys": ftys,
            }));
        }
        let kind = if adt.is_enum() {
            "Enum"
        } else if adt.is_union() {
            "Union"
        } else {
            "Struct"
        };
        let local = adt.did().is_local();
        self.adts.insert(
            name.clone(),
            json!({"name": name, "kind": kind, "variants": variants, "local": local,
                   "path": tcx.def_path_str(adt.did())}),
        );
    }

    fn place_json(&mut self, body: &Body, p: &Place) -> Value {
        let mut proj = vec![];
        let mut ty = body.locals()[p.local].ty;
        let mut variant: Option<VariantIdx> = None;
        for e in &p.projection {
            match e {
                ProjectionElem::Deref => proj.push(json!("*")),
                ProjectionElem::Field(idx, _) => {
                    let mut name = idx.to_string();
                    if let Some(RigidTy::Adt(def, _)) = ty.kind().rigid() {
                        self.note_adt(def);
                        let v = match variant {
                            Some(v) => def.variant(v),
                            None => def.variants().into_iter().next(),
                        };
                        if let Some(v) = v {
                            if let Some(f) = v.fields().get(*idx) {
                                name = f.name.clone();
                            }
                        }
                    }
                    proj.push(json!(["f", idx, name]));
                }
                ProjectionElem::Downcast(v) => {
                    let mut name = format!("{:?}", v);
                    if let Some(RigidTy::Adt(def, _)) = ty.kind().rigid() {
                        self.note_adt(def);
                        if let Some(vd) = def.variant(*v) {
                            name = vd.name();
                        }
                    }
                    variant = Some(*v);
                    proj.push(json!(["d", name]));
                }
                ProjectionElem::Index(l) => proj.push(json!(["i", l])),
                _ => proj.push(json!("?")),
            }
            if !matches!(e, ProjectionElem::Downcast(_)) {
                variant = None;
            }
            match e.ty(ty) {
                Ok(t) => ty = t,
                Err(_) => break,
            }
        }
        json!([p.local, proj])
    }

    fn eval_unevaluated(&mut self, owner: &rustc_public::DefId, c: &MirConst) -> Option<Value> {
        // named constants (`consts::ACT_PRI_KEYS_REGEX`, integer consts): evaluate through the
        // internal API; only non-generic constants of type &str / integer / bool are decoded.
        let tcx = self.tcx;
        let ic = rustc_internal::internal(tcx, c.clone());
        let rustc_middle::mir::Const::Unevaluated(u, ty) = ic else { return None };
        if u.promoted.is_some() {
            return None;
        }
        use rustc_middle::ty::TypeVisitableExt;
        if u.args.has_non_region_param() {
            return None;
        }
        let is_str = matches!(ty.kind(), rustc_middle::ty::Ref(_, inner, _) if inner.is_str());
        let is_scalar = ty.is_integral() || ty.is_bool();
        if !is_str && !is_scalar {
            return None;
        }
        let iowner = rustc_internal::internal(tcx, *owner);
        let env = rustc_middle::ty::TypingEnv::post_analysis(tcx, iowner);
        let v = ic.eval(tcx, env, rustc_span::DUMMY_SP).ok()?;
        if is_str {
            let bytes = v.try_get_slice_bytes_for_diagnostics(tcx)?;
            let s = String::from_utf8_lossy(bytes).to_string();
            self.strs.push(s.clone());
            return Some(json!({"str": s, "named": tcx.def_path_str(u.def)}));
        }
        let si = v.try_to_scalar_int()?;
        let bits = si.to_bits(si.size());
        Some(json!({"int": bits.to_string(), "ty": ty.to_string(), "named": tcx.def_path_str(u.def)}))
    }

    fn const_json(&mut self, owner: &rustc_public::DefId, c: &MirConst) -> Value {
        let ty = c.ty();
        match c.kind() {
            ConstantKind::Allocated(alloc) => {
                if let Some(RigidTy::Ref(_, inner, _)) = ty.kind().rigid() {
                    if matches!(inner.kind().rigid(), Some(RigidTy::Str)) {
                        if let Some((_, prov)) = alloc.provenance.ptrs.first() {
                            if let GlobalAlloc::Memory(mem) = GlobalAlloc::from(prov.0) {
                                let bytes: Vec<u8> =
                                    mem.bytes.iter().map(|b| b.unwrap_or(0)).collect();
                                let s = String::from_utf8_lossy(&bytes).to_string();
                                self.strs.push(s.clone());
                                return json!({ "str": s });
                            }
                        }
                        if alloc.provenance.ptrs.is_empty() {
                            // empty string literal: dangling pointer, length 0
                            return json!({"str": ""});
                        }
                    }
                }
                if alloc.provenance.ptrs.is_empty() {
                    if let Ok(v) = alloc.read_uint() {
                        return json!({"int": v.to_string(), "ty": ty.to_string()});
                    }
                }
                json!({"alloc": ty.to_string()})
            }
            ConstantKind::ZeroSized => {
                if let Some(RigidTy::FnDef(def, _)) = ty.kind().rigid() {
                    return json!({"fn": def.name()});
                }
                if let Some(RigidTy::Closure(def, _)) = ty.kind().rigid() {
                    return json!({"closure": def.name()});
                }
                json!({"zst": ty.to_string()})
            }
            ConstantKind::Unevaluated(u) => {
                if let Some(v) = self.eval_unevaluated(owner, c) {
                    return v;
                }
                json!({"uneval": u.def.name(), "promoted": u.promoted})
            }
            ConstantKind::Ty(t) => {
                let it = rustc_internal::internal(self.tcx, c.clone());
                let mut s = None;
                if let rustc_middle::mir::Const::Ty(_, ct) = it {
                    if let Some(v) = ct.try_to_value() {
                        if let Some(bytes) = v.try_to_raw_bytes(self.tcx) {
                            s = Some(String::from_utf8_lossy(bytes).to_string());
                        }
                    }
                }
                match s {
                    Some(s) => json!({ "str": s }),
                    None => json!({"tyconst": format!("{:?}", t.kind())}),
                }
            }
            ConstantKind::Param(p) => json!({"param": format!("{:?}", p)}),
        }
    }

    fn op_json(&mut self, owner: &rustc_public::DefId, body: &Body, o: &Operand) -> Value {
        match o {
            Operand::Copy(p) => json!(["c", self.place_json(body, p)]),
            Operand::Move(p) => json!(["m", self.place_json(body, p)]),
            Operand::Constant(c) => json!(["k", self.const_json(owner, &c.const_)]),
            _ => json!(["k", {"rtcheck": true}]),
        }
    }

    fn rvalue_json(&mut self, owner: &rustc_public::DefId, body: &Body, rv: &Rvalue) -> Value {
        match rv {
            Rvalue::Use(o, _) => json!(["use", self.op_json(owner, body, o)]),
            Rvalue::Ref(_, bk, p) => {
                json!(["ref", self.place_json(body, p), matches!(bk, BorrowKind::Mut { .. })])
            }
            Rvalue::AddressOf(_, p) => json!(["addr", self.place_json(body, p)]),
            Rvalue::CopyForDeref(p) => json!(["use", ["c", self.place_json(body, p)]]),
            Rvalue::Aggregate(k, ops) => {
                let ops: Vec<Value> = ops.iter().map(|o| self.op_json(owner, body, o)).collect();
                match k {
                    AggregateKind::Adt(def, vi, _, _, _) => {
                        self.note_adt(def);
                        let v = def.variant(*vi);
                        let (vn, fields) = match v {
                            Some(v) => (
                                v.name(),
                                v.fields().iter().map(|f| f.name.clone()).collect::<Vec<_>>(),
                            ),
                            None => ("?".to_string(), vec![]),
                        };
                        json!(["agg", def.name(), vn, fields, ops])
                    }
                    AggregateKind::Tuple => json!(["tuple", ops]),
                    AggregateKind::Array(_) => json!(["array", ops]),
                    AggregateKind::Closure(def, _) => json!(["closure", def.name(), ops]),
                    AggregateKind::Coroutine(def, _) => json!(["coroutine", def.name(), ops]),
                    AggregateKind::CoroutineClosure(def, _) => {
                        json!(["coroutine_closure", def.name(), ops])
                    }
                    AggregateKind::RawPtr(..) => json!(["rawptr", ops]),
                }
            }
            Rvalue::Cast(k, o, t) => {
                let from = o.ty(body.locals()).map(|t| t.to_string()).unwrap_or_default();
                json!(["cast", format!("{:?}", k), self.op_json(owner, body, o), from, t.to_string()])
            }
            Rvalue::BinaryOp(op, l, r) | Rvalue::CheckedBinaryOp(op, l, r) => {
                json!(["bin", format!("{:?}", op), self.op_json(owner, body, l), self.op_json(owner, body, r)])
            }
            Rvalue::UnaryOp(op, x) => json!(["un", format!("{:?}", op), self.op_json(owner, body, x)]),
            Rvalue::Discriminant(p) => {
                let mut adt = Value::Null;
                if let Ok(t) = p.ty(body.locals()) {
                    if let Some(RigidTy::Adt(def, _)) = t.kind().rigid() {
                        self.note_adt(def);
                        adt = json!(def.name());
                    }
                }
                json!(["discr", self.place_json(body, p), adt])
            }
            Rvalue::Len(p) => json!(["len", self.place_json(body, p)]),
            Rvalue::Repeat(o, _) => json!(["repeat", self.op_json(owner, body, o)]),
            other => json!(["other", format!("{:?}", std::mem::discriminant(other))]),
        }
    }

    fn callee_json(&mut self, owner: &rustc_public::DefId, body: &Body, func: &Operand) -> Value {
        let Ok(fty) = func.ty(body.locals()) else {
            return json!({"k": "unknown"});
        };
        match fty.kind().rigid() {
            Some(RigidTy::FnDef(def, gargs)) => {
                let tcx = self.tcx;
                let iowner = rustc_internal::internal(tcx, *owner);
                let idef = rustc_internal::internal(tcx, def.def_id());
                let iargs = rustc_internal::internal(tcx, gargs);
                let env = rustc_middle::ty::TypingEnv::post_analysis(tcx, iowner);
                let r = rustc_middle::ty::Instance::try_resolve(tcx, env, idef, iargs);
                let argstr: Vec<String> = iargs.iter().map(|a| a.to_string()).collect();
                let decl = tcx.def_path_str(idef);
                let trait_of = tcx.trait_of_assoc(idef).map(|t| tcx.def_path_str(t));
                match r {
                    Ok(Some(inst)) => {
                        let kind = match inst.def {
                            rustc_middle::ty::InstanceKind::Item(_) => "item",
                            rustc_middle::ty::InstanceKind::Virtual(..) => "virtual",
                            rustc_middle::ty::InstanceKind::Intrinsic(_) => "intrinsic",
                            _ => "shim",
                        };
                        let did = inst.def_id();
                        json!({"k": kind, "decl": decl, "path": tcx.def_path_str(did), "q": qname(tcx, did),
                               "full": tcx.def_path_str_with_args(did, inst.args), "args": argstr,
                               "trait": trait_of, "local": did.is_local(),
                               "krate": tcx.crate_name(did.krate).to_string()})
                    }
                    Ok(None) => {
                        json!({"k": "generic", "decl": decl, "path": decl, "q": qname(tcx, idef), "args": argstr, "trait": trait_of,
                               "local": idef.is_local(), "krate": tcx.crate_name(idef.krate).to_string()})
                    }
                    Err(_) => json!({"k": "err", "decl": decl, "path": decl, "q": qname(tcx, idef), "trait": trait_of}),
                }
            }
            _ => json!({"k": "indirect", "ty": fty.to_string()}),
        }
    }

    fn body_json(&mut self, owner: &rustc_public::DefId, body: &Body) -> Value {
        self.strs.clear();
        let locals: Vec<String> = body.locals().iter().map(|d| d.ty.to_string()).collect();
        let mut names = serde_json::Map::new();
        let mut upvars = vec![];
        for v in &body.var_debug_info {
            if let VarDebugInfoContents::Place(p) = &v.value {
                if p.projection.is_empty() {
                    names.insert(p.local.to_string(), json!(v.name));
                } else {
                    upvars.push(json!([v.name, self.place_json(body, p)]));
                }
            }
        }
        let mut blocks = vec![];
        let mut calls_regex_new = false;
        for bb in &body.blocks {
            let mut stmts = vec![];
            for st in &bb.statements {
                match &st.kind {
                    StatementKind::Assign(p, rv) => {
                        let line = st.span.get_lines().start_line;
                        stmts.push(json!(["A", self.place_json(body, p), self.rvalue_json(owner, body, rv), line]));
                    }
                    StatementKind::SetDiscriminant { place, variant_index } => {
                        stmts.push(json!(["SD", self.place_json(body, place), format!("{:?}", variant_index)]));
                    }
                    _ => {}
                }
            }
            let line = bb.terminator.span.get_lines().start_line;
            let term = match &bb.terminator.kind {
                TerminatorKind::Goto { target } => json!(["goto", target]),
                TerminatorKind::SwitchInt { discr, targets } => {
                    let br: Vec<Value> =
                        targets.branches().map(|(v, b)| json!([v.to_string(), b])).collect();
                    json!(["switch", self.op_json(owner, body, discr), br, targets.otherwise(), line])
                }
                TerminatorKind::Return => json!(["ret"]),
                TerminatorKind::Unreachable => json!(["unreachable"]),
                TerminatorKind::Resume => json!(["resume"]),
                TerminatorKind::Abort => json!(["abort"]),
                TerminatorKind::Drop { place, target, .. } => {
                    json!(["drop", self.place_json(body, place), target])
                }
                TerminatorKind::Call { func, args, destination, target, .. } => {
                    let callee = self.callee_json(owner, body, func);
                    if callee
                        .get("path")
                        .and_then(|p| p.as_str())
                        .map(|p| p.ends_with("Regex::new"))
                        .unwrap_or(false)
                    {
                        calls_regex_new = true;
                    }
                    let args: Vec<Value> =
                        args.iter().map(|a| self.op_json(owner, body, a)).collect();
                    let exp = rustc_internal::internal(self.tcx, bb.terminator.span).from_expansion();
                    json!(["call", callee, args, self.place_json(body, destination), target, line, exp])
                }
                TerminatorKind::Assert { cond, expected, target, .. } => {
                    json!(["assert", self.op_json(owner, body, cond), expected, target])
                }
                TerminatorKind::InlineAsm { .. } => json!(["asm"]),
            };
            blocks.push(json!({"s": stmts, "t": term}));
        }
        let mut regexes = serde_json::Map::new();
        if calls_regex_new {
            for s in self.strs.clone() {
                regexes.insert(s.clone(), regex_json(&s));
            }
        }
        json!({"argc": body.arg_locals().len(), "locals": locals, "names": names,
               "upvars": upvars, "blocks": blocks, "regexes": regexes})
    }
}

fn hir_json(h: &regex_syntax::hir::Hir) -> Value {
    use regex_syntax::hir::*;
    match h.kind() {
        HirKind::Empty => json!(["empty"]),
        HirKind::Literal(l) => json!(["lit", String::from_utf8_lossy(&l.0)]),
        HirKind::Class(Class::Unicode(c)) => json!([
            "class",
            c.ranges().iter().map(|r| json!([r.start() as u32, r.end() as u32])).collect::<Vec<_>>()
        ]),
        HirKind::Class(Class::Bytes(c)) => json!([
            "class",
            c.ranges().iter().map(|r| json!([r.start() as u32, r.end() as u32])).collect::<Vec<_>>()
        ]),
        HirKind::Look(l) => json!(["look", format!("{:?}", l)]),
        HirKind::Repetition(r) => json!(["rep", r.min, r.max, r.greedy, hir_json(&r.sub)]),
        HirKind::Capture(c) => json!(["cap", c.index, hir_json(&c.sub)]),
        HirKind::Concat(v) => json!(["cat", v.iter().map(hir_json).collect::<Vec<_>>()]),
        HirKind::Alternation(v) => json!(["alt", v.iter().map(hir_json).collect::<Vec<_>>()]),
    }
}

fn regex_json(pat: &str) -> Value {
    match regex_syntax::Parser::new().parse(pat) {
        Ok(h) => hir_json(&h),
        Err(e) => json!(["error", e.to_string()]),
    }
}

fn analyze(tcx: TyCtxt<'_>) -> ControlFlow<()> {
    let krate = rustc_public::local_crate();
    let wanted = std::env::var("ACTS_FACTS_CRATES").unwrap_or_default();
    if !wanted.split(',').any(|c| c == krate.name) {
        return ControlFlow::Continue(());
    }
    let out_dir = std::env::var("ACTS_FACTS_OUT").expect("ACTS_FACTS_OUT not set");
    std::fs::create_dir_all(&out_dir).unwrap();
    let mut cx = Cx { tcx, adts: BTreeMap::new(), strs: vec![] };
    let mut fns = vec![];
    let mut statics = vec![];
    for item in rustc_public::all_local_items() {
        let name = item.name();
        let kind = format!("{:?}", item.kind());
        let idef = rustc_internal::internal(tcx, item.def_id());
        let exp = tcx.def_span(idef).from_expansion();
        if kind == "Static" {
            let ity = tcx.type_of(idef).instantiate_identity().skip_norm_wip();
            let env = rustc_middle::ty::TypingEnv::fully_monomorphized();
            statics.push(json!({
                "name": name, "ty": item.ty().to_string(), "span": span_json(&item.span()), "exp": exp,
                "mutable": tcx.is_mutable_static(idef),
                "thread_local": tcx.is_thread_local_static(idef),
                "freeze": ity.is_freeze(tcx, env),
            }));
            continue;
        }
        if kind != "Fn" {
            continue;
        }
        let Some(body) = item.body() else { continue };
        let did = item.def_id();
        let mut j = cx.body_json(&did, &body);
        let mut proms = vec![];
        if let Some(ldef) = idef.as_local() {
            let pm = tcx.promoted_mir(ldef.to_def_id());
            for p in pm.iter() {
                let sb: Body = rustc_internal::stable(p);
                proms.push(cx.body_json(&did, &sb));
            }
        }
        // impl / trait context of the (typeck root of the) function
        let root = tcx.typeck_root_def_id(idef);
        let mut impl_self = Value::Null;
        let mut impl_trait = Value::Null;
        let mut trait_item = Value::Null;
        if let Some(imp) = tcx.impl_of_assoc(root) {
            impl_self = json!(tcx.type_of(imp).instantiate_identity().skip_norm_wip().to_string());
            if let Some(tr) = tcx.impl_opt_trait_ref(imp) {
                impl_trait = json!(tr.instantiate_identity().skip_norm_wip().print_only_trait_path().to_string());
            }
            if let Some(ti) = tcx.trait_item_of(root) {
                trait_item = json!(tcx.def_path_str(ti));
            }
        }
        let is_pub = matches!(tcx.def_kind(idef), rustc_hir::def::DefKind::Fn | rustc_hir::def::DefKind::AssocFn)
            && tcx.visibility(idef).is_public();
        let o = j.as_object_mut().unwrap();
        o.insert("name".into(), json!(name));
        o.insert("q".into(), json!(qname(tcx, idef)));
        o.insert("path".into(), json!(tcx.def_path_str(idef)));
        o.insert("span".into(), span_json(&item.span()));
        o.insert("exp".into(), json!(exp));
        o.insert("promoted".into(), json!(proms));
        o.insert("impl_self".into(), impl_self);
        o.insert("impl_trait".into(), impl_trait);
        o.insert("trait_item".into(), trait_item);
        o.insert("pub".into(), json!(is_pub));
        o.insert("defkind".into(), json!(format!("{:?}", tcx.def_kind(idef))));
        fns.push(j);
    }
    // all local ADTs and trait impls
    let mut impls = vec![];
    for id in tcx.hir_crate_items(()).definitions() {
        use rustc_hir::def::DefKind;
        match tcx.def_kind(id) {
            DefKind::Struct | DefKind::Enum => {
                let adt = tcx.adt_def(id.to_def_id());
                let name = format!("{}::{}", krate.name, tcx.def_path_str(id.to_def_id()));
                cx.note_adt_internal(name, adt);
            }
            DefKind::Impl { of_trait: true } => {
                let tr = tcx.impl_trait_ref(id.to_def_id()).instantiate_identity().skip_norm_wip();
                let selfty = tcx.type_of(id.to_def_id()).instantiate_identity().skip_norm_wip().to_string();
                let map = tcx.impl_item_implementor_ids(id.to_def_id());
                let mut items = vec![];
                for k in tcx.associated_item_def_ids(tr.def_id) {
                    if let Some(v) = map.get(k) {
                        items.push(json!([qname(tcx, *k), qname(tcx, *v)]));
                    }
                }
                impls.push(json!({"trait": tr.print_only_trait_path().to_string(),
                                  "trait_def": tcx.def_path_str(tr.def_id),
                                  "self": selfty, "items": items,
                                  "exp": tcx.def_span(id.to_def_id()).from_expansion()}));
            }
            _ => {}
        }
    }
    let out = json!({"crate": krate.name, "fns": fns, "statics": statics,
                     "adts": cx.adts.values().collect::<Vec<_>>(), "impls": impls});
    let path = format!("{}/{}.json", out_dir, krate.name);
    let tmp = format!("{}.tmp.{}", path, std::process::id());
    let mut f = std::fs::File::create(&tmp).unwrap();
    f.write_all(serde_json::to_string(&out).unwrap().as_bytes()).unwrap();
    drop(f);
    std::fs::rename(&tmp, &path).unwrap();
    ControlFlow::Continue(())
}

fn main() {
    let mut args: Vec<String> = std::env::args().collect();
    if args.len() > 1 && (args[1].ends_with("rustc") || args[1].ends_with("rustc.exe")) {
        args.remove(1);
    }
    let _ = run_with_tcx!(&args, analyze);
}
